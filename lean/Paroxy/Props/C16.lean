/-
C16 — Predicate spellings normalise to the intended relation or are rejected.

`names` is the dictionary of the *generated* table (162 keys + alias updates resolved in order),
so the theorems are re-checked against compare_spans.py on every run; `NP.normalize` is the
hand-written model of normalize_predicate.py (tied by correspondence, harness/c16.py).
-/
import Paroxy.Gen.CompareSpans
import Paroxy.Spec.NormalizePredicate
import Paroxy.Proofs.NormalizePredicate
namespace Paroxy.Props.C16
open Paroxy Paroxy.Spec Paroxy.NP Paroxy.Spec.NP

/-- **C16 (total).** Whatever the input string, the model either fails (`ValueError`) or returns
one of the 162 keys of the table: no other outcome. -/
theorem C16_total (s : Str) (r : Codes × Bool) (h : normalize names s = some r) :
    ∃ k ∈ allKeys, r.1 = k.codes :=
  normalize_total s r h

/-- **C16 (canonical).** Each of the 162 canonical keys resolves to itself, not negated: no silent
change of relation. -/
theorem C16_canonical (k : Key) (hk : k ∈ allKeys) : normalize names k.codes = some (k.codes, false) := by
  have h : allKeys.all (fun k => normalize names k.codes == some (k.codes, false)) = true := by
    decide +kernel
  exact beq_iff_eq.mp (List.all_eq_true.mp h k hk)

/-- **C16 (names).** Each of the 13 Allen names and 6 synonyms resolves to the key the manual gives
for it, not negated. -/
theorem C16_names (n : Codes) (k : Key) (h : (n, k) ∈ aliases) :
    normalize names n = some (k.codes, false) := by
  have h' : aliases.all (fun p => normalize names p.1 == some (p.2.codes, false)) = true := by
    decide +kernel
  exact beq_iff_eq.mp (List.all_eq_true.mp h' (n, k) h)

/-- **C16 (abbreviations).** `x=y`, `y=x` and formulas with a single `x` and/or a single `y`. -/
theorem C16_abbrev (s : Str) (k : Key) (h : (s, k) ∈ abbreviations) :
    normalize names s = some (k.codes, false) := by
  have h' : abbreviations.all (fun p => normalize names p.1 == some (p.2.codes, false)) = true := by
    decide +kernel
  exact beq_iff_eq.mp (List.all_eq_true.mp h' (s, k) h)

/-- **C16 (abbreviations, all keys).** Every key that has an adjacent pair `x≤x` (resp. `y≤y`) may be
written with a single `x` (resp. `y`), or both: all 58 such spellings of the 162 keys resolve to their
key, not negated — not only the samples of `abbreviations`. (`x=y` and `y=x`, which would abbreviate
`x≤x=y≤y` and `y≤y=x≤x`, are the manual's spelling of the identity: `C16_abbrev`.) -/
theorem C16_abbrev_all (s : Codes) (k : Key) (h : (s, k) ∈ allAbbrevs) :
    normalize names s = some (k.codes, false) := by
  have h' : allAbbrevs.all (fun p => normalize names p.1 == some (p.2.codes, false)) = true := by
    decide +kernel
  exact beq_iff_eq.mp (List.all_eq_true.mp h' (s, k) h)

example : allAbbrevs.length = 58 := by decide +kernel
example : (codesOf "x<y≤y", (⟨.x, .x, .y, .y, .le, .lt, .le⟩ : Key)) ∈ allAbbrevs := by decide +kernel

/-- **C16 (formula spellings, all junk).** Every formula spelling of every key — operands in
either case with optional index digits, operators canonical or `<=`/`==`, *arbitrary* junk
(spaces, parentheses, digits, … : any ASCII non-letters other than `< = !`) around and between the
tokens — resolves to that key, not negated. Unbounded in the junk strings. -/
theorem C16_formula (k : Key) (hk : k ∈ allKeys) (st : FormulaStyle) (hj : st.junkOk = true) :
    normalize names (renderFormula k st) = some (k.codes, false) :=
  normalize_formula k hk st hj

/-- The same with a leading `!` (and any spaces around it): negated. -/
theorem C16_formula_bang (k : Key) (hk : k ∈ allKeys) (st : FormulaStyle) (hj : st.junkOk = true)
    (a b : Nat) :
    normalize names (List.replicate a 32 ++ 33 :: List.replicate b 32 ++ renderFormula k st) =
      some (k.codes, true) :=
  normalize_formula_bang k hk st hj a b

-- Non-vacuity: `Y1 <  x1 ==(X2) <= y2` is a formula spelling of `y<x=x≤y`.
example : renderFormula ⟨.y, .x, .x, .y, .lt, .eq, .le⟩
    { s1 := { upper := true, index := some 1 }, s2 := { index := some 1 },
      s3 := { upper := true, index := some 2 }, s4 := { index := some 2 },
      p2 := .ascii, p3 := .ascii,
      j1 := [32], j2 := [32, 32], j3 := [32], j4 := [40], j5 := [41, 32], j6 := [32] } =
    codesOf "Y1 <  x1 ==(X2) <= y2" := by decide +kernel
example : (⟨.y, .x, .x, .y, .lt, .eq, .le⟩ : Key) ∈ allKeys := by decide

/-! ### Decorated formula spellings (negation words, the verb `is`)

In all of the following: `k` any of the 162 keys, `st` any style with arbitrary junk strings
(`junkOk`: ASCII non-letters other than `< = !`, so digits, `_`, spaces, tabs, parentheses … are
allowed, also adjacent to the decoration — extra spaces before/after the formula are part of
`st.j0`/`st.j7`); `ws`, `ws'`, `ws2` any strings of ASCII whitespace; `wN` ANY string whose
lower-casing is `not` (`not`, `NOT`, `Not`, …), `wI` any string whose lower-casing is `is`.
The single literal space (32) next to `not`/`is` is the one the Python code removes with the word.
No side condition on the junk adjacent to the decoration is needed (see the adversarial examples
at the end of the section). -/

/-- `not F` ↦ negated. -/
theorem C16_formula_not_prefix (k : Key) (hk : k ∈ allKeys) (st : FormulaStyle) (hj : st.junkOk = true)
    {ws wN : Str} (hws : ws.all isSpace = true) (hN : lower wN = sNot) :
    normalize names (ws ++ wN ++ 32 :: renderFormula k st) = some (k.codes, true) :=
  formula_not_prefix k hk st (styleOk_of_junkOk hj) hws hN

/-- The same in the concrete form `a` spaces, `not`, `b+1` spaces, formula. -/
theorem C16_formula_not_prefix_spaces (k : Key) (hk : k ∈ allKeys) (st : FormulaStyle) (hj : st.junkOk = true)
    (a b : Nat) :
    normalize names (List.replicate a 32 ++ codesOf "not" ++ List.replicate (b + 1) 32 ++ renderFormula k st) =
      some (k.codes, true) :=
  formula_not_prefix_spaces k hk st (styleOk_of_junkOk hj) a b

/-- `F not` ↦ negated (trailing whitespace after `not` is stripped first, so `not\s+` never fires). -/
theorem C16_formula_not_suffix (k : Key) (hk : k ∈ allKeys) (st : FormulaStyle) (hj : st.junkOk = true)
    {ws wN : Str} (hws : ws.all isSpace = true) (hN : lower wN = sNot) :
    normalize names (renderFormula k st ++ 32 :: wN ++ ws) = some (k.codes, true) :=
  formula_not_suffix k hk st (styleOk_of_junkOk hj) hws hN

/-- `is F` ↦ not negated: the verb is ignored. -/
theorem C16_formula_is_prefix (k : Key) (hk : k ∈ allKeys) (st : FormulaStyle) (hj : st.junkOk = true)
    {ws wI : Str} (hws : ws.all isSpace = true) (hI : lower wI = sIs) :
    normalize names (ws ++ wI ++ 32 :: renderFormula k st) = some (k.codes, false) :=
  formula_is_prefix k hk st (styleOk_of_junkOk hj) hws hI

/-- `F is` ↦ not negated. -/
theorem C16_formula_is_suffix (k : Key) (hk : k ∈ allKeys) (st : FormulaStyle) (hj : st.junkOk = true)
    {ws wI : Str} (hws : ws.all isSpace = true) (hI : lower wI = sIs) :
    normalize names (renderFormula k st ++ 32 :: wI ++ ws) = some (k.codes, false) :=
  formula_is_suffix k hk st (styleOk_of_junkOk hj) hws hI

/-- `is not F` ↦ negated. -/
theorem C16_formula_is_not (k : Key) (hk : k ∈ allKeys) (st : FormulaStyle) (hj : st.junkOk = true)
    {ws ws2 wI wN : Str} (hws : ws.all isSpace = true) (hws2 : ws2.all isSpace = true)
    (hI : lower wI = sIs) (hN : lower wN = sNot) :
    normalize names (ws ++ wI ++ 32 :: ws2 ++ wN ++ 32 :: renderFormula k st) = some (k.codes, true) :=
  formula_is_not_prefix k hk st (styleOk_of_junkOk hj) hws hws2 hI hN

/-- `is F not` ↦ negated. -/
theorem C16_formula_is_prefix_not_suffix (k : Key) (hk : k ∈ allKeys) (st : FormulaStyle)
    (hj : st.junkOk = true) {ws ws' wI wN : Str} (hws : ws.all isSpace = true)
    (hws' : ws'.all isSpace = true) (hI : lower wI = sIs) (hN : lower wN = sNot) :
    normalize names (ws ++ wI ++ 32 :: renderFormula k st ++ 32 :: wN ++ ws') = some (k.codes, true) :=
  formula_is_prefix_not_suffix k hk st (styleOk_of_junkOk hj) hws hws' hI hN

/-- `F is not` ↦ negated. -/
theorem C16_formula_is_not_suffix (k : Key) (hk : k ∈ allKeys) (st : FormulaStyle) (hj : st.junkOk = true)
    {ws ws2 wI wN : Str} (hws : ws.all isSpace = true) (hws2 : ws2.all isSpace = true)
    (hI : lower wI = sIs) (hN : lower wN = sNot) :
    normalize names (renderFormula k st ++ 32 :: wI ++ ws2 ++ 32 :: wN ++ ws) = some (k.codes, true) :=
  formula_is_not_suffix k hk st (styleOk_of_junkOk hj) hws hws2 hI hN

/-- `not is F` ↦ negated. -/
theorem C16_formula_not_is (k : Key) (hk : k ∈ allKeys) (st : FormulaStyle) (hj : st.junkOk = true)
    {ws ws2 wI wN : Str} (hws : ws.all isSpace = true) (hws2 : ws2.all isSpace = true)
    (hI : lower wI = sIs) (hN : lower wN = sNot) :
    normalize names (ws ++ wN ++ 32 :: ws2 ++ wI ++ 32 :: renderFormula k st) = some (k.codes, true) :=
  formula_not_is_prefix k hk st (styleOk_of_junkOk hj) hws hws2 hI hN

/-- `! is F` ↦ negated. -/
theorem C16_formula_bang_is (k : Key) (hk : k ∈ allKeys) (st : FormulaStyle) (hj : st.junkOk = true)
    {ws ws2 wI : Str} (hws : ws.all isSpace = true) (hws2 : ws2.all isSpace = true) (hI : lower wI = sIs) :
    normalize names (ws ++ 33 :: ws2 ++ wI ++ 32 :: renderFormula k st) = some (k.codes, true) :=
  formula_bang_is_prefix k hk st (styleOk_of_junkOk hj) hws hws2 hI

/-- `! F is` ↦ negated. -/
theorem C16_formula_bang_is_suffix (k : Key) (hk : k ∈ allKeys) (st : FormulaStyle) (hj : st.junkOk = true)
    {ws ws' wI : Str} (hws : ws.all isSpace = true) (hws' : ws'.all isSpace = true) (hI : lower wI = sIs) :
    normalize names (ws ++ 33 :: renderFormula k st ++ 32 :: wI ++ ws') = some (k.codes, true) :=
  formula_bang_is_suffix k hk st (styleOk_of_junkOk hj) hws hws' hI

/-- **Every decoration of the specification's list** (`Spec.NP.decorations`, the 18 forms the
harness renders: `!`, `not `, ` not`, `is `, ` is`, `is not `, ` is not`, `is … not`, `!is `, with
case and spacing variants) **around every formula spelling** gives the key and the decoration's
negation flag. -/
theorem C16_formula_decorated (k : Key) (hk : k ∈ allKeys) (st : FormulaStyle) (hj : st.junkOk = true)
    (d : Str × Str × Bool) (hd : d ∈ decorations) :
    normalize names (d.1 ++ renderFormula k st ++ d.2.1) = some (k.codes, d.2.2) :=
  formula_spec_decorated k hk st (styleOk_of_junkOk hj) d hd

-- Non-vacuity of the hypotheses.
example : lower (codesOf "NoT") = sNot := by decide
example : lower (codesOf "IS") = sIs := by decide
example : (codesOf " \t").all isSpace = true := by decide
example : (codesOf "Is Not ", codesOf " ", true) ∈ decorations := by decide +kernel
-- `\tNOT  (x1<X2)==y1<= Y2_` is an instance of `C16_formula_not_prefix`.
example : codesOf "\t" ++ codesOf "NOT" ++ 32 :: renderFormula ⟨.x, .x, .y, .y, .lt, .eq, .le⟩
    { s1 := { index := some 1 }, s2 := { upper := true, index := some 2 }, s3 := { index := some 1 },
      s4 := { upper := true, index := some 2 }, p2 := .ascii, p3 := .ascii,
      j0 := [32, 40], j3 := [41], j6 := [32], j7 := [95] } =
    codesOf "\tNOT  (x1<X2)==y1<= Y2_" := by decide +kernel
-- Adversarial neighbours of the decoration (digits and `_` are word characters for `\b`; tabs are
-- `\s` but not the literal space that `replace` removes): the results are still the expected ones,
-- which is why the theorems above need no side condition on `st.j0` / `st.j7`.
example : normalize names (codesOf "is 1_x<x<y<y_9 not") = some (codesOf "x<x<y<y", true) := by decide +kernel
example : normalize names (codesOf "x<x<y<y_ is") = some (codesOf "x<x<y<y", false) := by decide +kernel
example : normalize names (codesOf "not _0x<x<y<y\t") = some (codesOf "x<x<y<y", true) := by decide +kernel
example : normalize names (codesOf "x<x<y<y 9 not  ") = some (codesOf "x<x<y<y", true) := by decide +kernel

/-! ### Names under every case mask and decoration -/

/-- **C16 (names, every case).** For each of the 19 names, ANY string `w` whose lower-casing is
the name (every upper/lower-case mask), surrounded by any whitespace, resolves to the name's key. -/
theorem C16_name_case (n : Codes) (k : Key) (h : (n, k) ∈ aliases) {w ws ws' : Str} (hw : lower w = n)
    (hws : ws.all isSpace = true) (hws' : ws'.all isSpace = true) :
    normalize names (ws ++ w ++ ws') = some (k.codes, false) :=
  name_decorated n k h ([], [], false) (by decide +kernel) (by simpa using hw) hws hws'

/-- The case-mask rendering of the specification is such a string. -/
theorem C16_name_mask (n : Codes) (k : Key) (h : (n, k) ∈ aliases) (mask : List Bool) {ws ws' : Str}
    (hws : ws.all isSpace = true) (hws' : ws'.all isSpace = true) :
    normalize names (ws ++ renderName n mask ++ ws') = some (k.codes, false) :=
  C16_name_case n k h
    (renderName_lower n mask (List.all_eq_true.mp aliases_lower (n, k) h)) hws hws'

/-- **C16 (names, decorated).** For each of the 19 names (including the name `is` itself) and
each of the 12 decorations `(pre, post, neg)` of `coreDecorations` (none, `is `, ` is`, `!`, `! `,
`!is `, `! is `, `not `, ` not`, `is not `, ` is not`, `is … not`): ANY string `w` whose
lower-casing is `pre ++ name ++ post` (every case mask of the name and of the words `is`/`not`),
surrounded by any whitespace, resolves to the name's key with the flag `neg`.
(Inner spacing is exactly that of the decoration: extra spaces BETWEEN decoration and name are
not covered by a theorem.) -/
theorem C16_name_decorated (n : Codes) (k : Key) (h : (n, k) ∈ aliases) (d : Str × Str × Bool)
    (hd : d ∈ coreDecorations) {w ws ws' : Str} (hw : lower w = d.1 ++ n ++ d.2.1)
    (hws : ws.all isSpace = true) (hws' : ws'.all isSpace = true) :
    normalize names (ws ++ w ++ ws') = some (k.codes, d.2.2) :=
  name_decorated n k h d hd hw hws hws'

/-- Every decoration of the specification's list (the 18 forms rendered by the harness, with
their own case and spacing) around every case-mask spelling of every name. -/
theorem C16_name_spec_decorated (n : Codes) (k : Key) (h : (n, k) ∈ aliases) (d : Str × Str × Bool)
    (hd : d ∈ decorations) (mask : List Bool) :
    normalize names (d.1 ++ renderName n mask ++ d.2.1) = some (k.codes, d.2.2) :=
  name_spec_decorated n k h d hd mask

-- Non-vacuity: `  Is NOT Started BY ` is covered by `C16_name_decorated`.
example : (codesOf "started by", (⟨.y, .x, .y, .x, .eq, .le, .le⟩ : Key)) ∈ aliases := by decide +kernel
example : (codesOf "is not ", codesOf "", true) ∈ coreDecorations := by decide +kernel
example : lower (codesOf "Is NOT Started BY") = codesOf "is not " ++ codesOf "started by" ++ codesOf "" := by
  decide +kernel
example : renderName (codesOf "inside") [true, false, true] = codesOf "InSide" := by decide +kernel

end Paroxy.Props.C16
