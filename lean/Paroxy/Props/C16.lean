/-
C16 — Predicate spellings normalise to the intended relation or are rejected.

`names` is the dictionary of the *generated* table (162 keys + alias updates resolved in order),
so the theorems are re-checked against compare_spans.py on every run; `NP.normalize` is the
hand-written model of normalize_predicate.py (tied by correspondence, harness/c16.py).
-/
import Paroxy.Gen.CompareSpans
import Paroxy.Spec.NormalizePredicate
import Paroxy.Proofs.NormalizePredicate
namespace Paroxy.Props.C16
open Paroxy Paroxy.Spec Paroxy.NP Paroxy.Spec.NP

/-- **C16 (total).** Whatever the input string, the model either fails (`ValueError`) or returns
one of the 162 keys of the table: no other outcome. -/
theorem C16_total (s : Str) (r : Codes × Bool) (h : normalize names s = some r) :
    ∃ k ∈ allKeys, r.1 = k.codes :=
  normalize_total s r h

/-- **C16 (canonical).** Each of the 162 canonical keys resolves to itself, not negated: no silent
change of relation. -/
theorem C16_canonical (k : Key) (hk : k ∈ allKeys) : normalize names k.codes = some (k.codes, false) := by
  have h : allKeys.all (fun k => normalize names k.codes == some (k.codes, false)) = true := by
    decide +kernel
  exact beq_iff_eq.mp (List.all_eq_true.mp h k hk)

/-- **C16 (names).** Each of the 13 Allen names and 6 synonyms resolves to the key the manual gives
for it, not negated. -/
theorem C16_names (n : Codes) (k : Key) (h : (n, k) ∈ aliases) :
    normalize names n = some (k.codes, false) := by
  have h' : aliases.all (fun p => normalize names p.1 == some (p.2.codes, false)) = true := by
    decide +kernel
  exact beq_iff_eq.mp (List.all_eq_true.mp h' (n, k) h)

/-- **C16 (abbreviations).** `x=y`, `y=x` and formulas with a single `x` and/or a single `y`. -/
theorem C16_abbrev (s : Str) (k : Key) (h : (s, k) ∈ abbreviations) :
    normalize names s = some (k.codes, false) := by
  have h' : abbreviations.all (fun p => normalize names p.1 == some (p.2.codes, false)) = true := by
    decide +kernel
  exact beq_iff_eq.mp (List.all_eq_true.mp h' (s, k) h)

/-- **C16 (formula spellings, all junk).** Every formula spelling of every key — operands in
either case with optional index digits, operators canonical or `<=`/`==`, *arbitrary* junk
(spaces, parentheses, digits, … : any ASCII non-letters other than `< = !`) around and between the
tokens — resolves to that key, not negated. Unbounded in the junk strings. -/
theorem C16_formula (k : Key) (hk : k ∈ allKeys) (st : FormulaStyle) (hj : st.junkOk = true) :
    normalize names (renderFormula k st) = some (k.codes, false) :=
  normalize_formula k hk st hj

/-- The same with a leading `!` (and any spaces around it): negated. -/
theorem C16_formula_bang (k : Key) (hk : k ∈ allKeys) (st : FormulaStyle) (hj : st.junkOk = true)
    (a b : Nat) :
    normalize names (List.replicate a 32 ++ 33 :: List.replicate b 32 ++ renderFormula k st) =
      some (k.codes, true) :=
  normalize_formula_bang k hk st hj a b

-- Non-vacuity: `Y1 <  x1 ==(X2) <= y2` is a formula spelling of `y<x=x≤y`.
example : renderFormula ⟨.y, .x, .x, .y, .lt, .eq, .le⟩
    { s1 := { upper := true, index := some 1 }, s2 := { index := some 1 },
      s3 := { upper := true, index := some 2 }, s4 := { index := some 2 },
      p2 := .ascii, p3 := .ascii,
      j1 := [32], j2 := [32, 32], j3 := [32], j4 := [40], j5 := [41, 32], j6 := [32] } =
    codesOf "Y1 <  x1 ==(X2) <= y2" := by decide +kernel
example : (⟨.y, .x, .x, .y, .lt, .eq, .le⟩ : Key) ∈ allKeys := by decide

end Paroxy.Props.C16
