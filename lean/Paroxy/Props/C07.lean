/-
C07 — Learning costs follow the longest imparted prefix and the current knowledge.

Exact rationals (`Rat`); see Model/Costs.lean for the float envelope. The model mirrors
assess_costs.py as repaired by the `fix:` commit 0eef720 (memo cleared when the knowledge is set;
the original code violated the history clause, known_findings.json F02).
-/
import Paroxy.Proofs.Costs
import Paroxy.Proofs.CostsShared
import Paroxy.Proofs.Imported
namespace Paroxy.Props.C07
open Paroxy Paroxy.Filter Paroxy.Costs

/-- A taxon that is imparted or lies under `meta/` costs 0 (both strategies). -/
theorem C07_taxon_zero (strat : Strategy) (K : List Codes) (t : Codes) (h : isMeta t = true ∨ t ∈ K) :
    taxonCost strat K t = 0 :=
  taxonCost_zero strat K t h

/-- Otherwise, with `d` its number of edges and `k` the length of its longest imparted proper
prefix (`IsLongest`, uniquely determined), the cost is the range cost of `[k, d)`. -/
theorem C07_taxon (strat : Strategy) (K : List Codes) (t : Codes) (hm : isMeta t = false) (hk : t ∉ K) :
    ∃ k, IsLongest K (splitOn 47 t) k ∧ (∀ k', IsLongest K (splitOn 47 t) k' → k' = k) ∧
      taxonCost strat K t = rangeCost strat k (splitOn 47 t).length := by
  obtain ⟨k, h1, h2⟩ := taxonCost_pos strat K t hm hk
  exact ⟨k, h1, fun k' h' => isLongest_unique h' h1, h2⟩

/-- Zeno: the sum of `2^-(i+1)` for `i` in `k..d-1` … -/
theorem C07_zeno_sum (k d : Nat) :
    rangeCost .zeno k d = ((List.range' k (d - k)).map fun i => 1 / (2 : Rat) ^ (i + 1)).sum :=
  zeno_is_sum k d

/-- … which is `2^-k − 2^-d`. -/
theorem C07_zeno_closed (k n : Nat) :
    rangeCost .zeno k (k + n) = 1 / (2 : Rat) ^ k - 1 / (2 : Rat) ^ (k + n) :=
  zeno_closed k n

/-- Linear: `d − k`. -/
theorem C07_linear (k d : Nat) : rangeCost .linear k d = ((d : Int) - (k : Int) : Int) := rfl

/-- A program's cost is the sum over the taxa of its record (which, after `add_imported_taxa`,
holds its own taxa and the non-`meta/` taxa of its imports). -/
theorem C07_program (strat : Strategy) (K : List Codes) (rec : TaxaSpans) :
    programCost strat K rec = (rec.map fun ts => taxonCost strat K ts.1).sum :=
  programCost_eq_sum strat K rec

/-- Programs are ranked by ascending `(cost, path)`: the result is sorted and is a permutation of
the selection paired with the program costs. -/
theorem C07_ranking (strat : Strategy) (progs : List (Codes × TaxaSpans)) (K sel : List Codes)
    (l : List (Rat × Codes)) (h : assess strat progs K sel = some l) :
    l.Pairwise (fun a b => leCostPath a b = true) ∧
    ∃ costs, sel.mapM (fun p => (dictGet? progs p).map fun rec => (programCost strat K rec, p)) = some costs ∧
      l.Perm costs := by
  unfold assess at h
  cases hm : sel.mapM (fun p => (dictGet? progs p).map fun rec => (programCost strat K rec, p)) with
  | none => rw [hm] at h; cases h
  | some costs =>
    rw [hm] at h
    simp only [bind, Option.bind, pure, Option.some.injEq] at h
    subst h
    exact ⟨List.pairwise_mergeSort (fun a b c => leCostPath_trans a b c) leCostPath_total costs,
      costs, rfl, List.mergeSort_perm costs leCostPath⟩

/-- What each operation returns when computed from scratch under knowledge `K`. -/
def pureOut (strat : Strategy) (progs : List (Codes × TaxaSpans)) (K : List Codes) : AOp → AOut
  | .setKnowledge _ => .unit
  | .taxonCost t => .cost (taxonCost strat K t)
  | .assess sel => .ranking (assess strat progs K sel)

/-- Run a sequence of operations on one assessor; returns, for every step, the knowledge current at
that step and the output. -/
def run (strat : Strategy) (progs : List (Codes × TaxaSpans)) : AState → List AOp → List (List Codes × AOp × AOut)
  | _, [] => []
  | s, op :: ops => (s.knowledge, op, (astep strat progs s op).2) :: run strat progs (astep strat progs s op).1 ops

theorem astep_spec (strat : Strategy) (progs : List (Codes × TaxaSpans)) (s : AState) (op : AOp)
    (h : MemoOk strat s) :
    (astep strat progs s op).2 = pureOut strat progs s.knowledge op ∧ MemoOk strat (astep strat progs s op).1 := by
  cases op with
  | setKnowledge K => exact ⟨rfl, fun t v hv => by cases hv⟩
  | taxonCost t =>
    obtain ⟨e1, e2, _⟩ := memoCost_spec strat s t h
    exact ⟨by simp [astep, pureOut, e1], e2⟩
  | assess sel =>
    obtain ⟨e1, e2, _⟩ := memoAssess_spec strat progs sel s h
    refine ⟨?_, e2⟩
    simp only [astep, pureOut, assess, e1]
    cases List.mapM (fun p => Option.map (fun rec => (programCost strat s.knowledge rec, p)) (dictGet? progs p)) sel <;> rfl

/-- **History independence.** Whatever sequence of `set_imparted_knowledge`, `taxon_cost` and
assessments is applied to one assessor, every output equals the pure function of the imparted
knowledge at the time it is made — whatever was assessed before. -/
theorem C07_history (strat : Strategy) (progs : List (Codes × TaxaSpans)) (K0 : List Codes) (ops : List AOp) :
    ∀ e ∈ run strat progs { knowledge := K0, memo := [] } ops, e.2.2 = pureOut strat progs e.1 e.2.1 := by
  have gen : ∀ (ops : List AOp) (s : AState), MemoOk strat s →
      ∀ e ∈ run strat progs s ops, e.2.2 = pureOut strat progs e.1 e.2.1 := by
    intro ops
    induction ops with
    | nil => intro s _ e he; cases he
    | cons op t ih =>
      intro s hs e he
      obtain ⟨h1, h2⟩ := astep_spec strat progs s op hs
      simp only [run, List.mem_cons] at he
      rcases he with rfl | he
      · exact h1
      · exact ih _ h2 e he
  exact gen ops _ (fun t v hv => by cases hv)

/-- The knowledge current at each step is the last one set (or the initial one). -/
theorem C07_knowledge_current (strat : Strategy) (progs : List (Codes × TaxaSpans)) (s : AState) (op : AOp) :
    (astep strat progs s op).1.knowledge =
      match op with
      | .setKnowledge K => K
      | _ => s.knowledge := by
  cases op with
  | setKnowledge K => rfl
  | taxonCost t => exact (memoCost_spec_knowledge strat s t)
  | assess sel => exact (memoAssess_knowledge strat progs sel s)

/-- Costs depend on the knowledge *as a set* only (with C06: not on the order of the commands). -/
theorem C07_knowledge_as_set (strat : Strategy) (K K' : List Codes) (h : ∀ t, t ∈ K ↔ t ∈ K') (t : Codes) :
    taxonCost strat K t = taxonCost strat K' t :=
  taxonCost_congr strat K K' h t

-- Non-vacuity: with knowledge {a, a/b}, the taxon a/b/c has k = 2, d = 3 and costs 1/8.
example : taxonCost .zeno [codesOf "a", codesOf "a/b"] (codesOf "a/b/c") = 1 / 8 := by decide +kernel
example : IsLongest [codesOf "a", codesOf "a/b"] (splitOn 47 (codesOf "a/b/c")) 2 := by
  refine ⟨by decide +kernel, Or.inr (by decide +kernel), fun s h1 h2 => ?_⟩
  have : (splitOn 47 (codesOf "a/b/c")).length = 3 := by decide +kernel
  omega

/-- The records `programCost` sums over (`C07_program`): on a well-formed stored database,
`add_imported_taxa` succeeds and the record of every program `p` then has pairwise distinct taxa,
which are exactly its own taxa and the non-`meta/` taxa of the programs it imports, directly or
not (`db.Exp p q`: `p` is listed in `exportations[q]`, which stores the transitive closure). -/
theorem C07_program_taxa (db : DB) (wf : db.WF) :
    ∃ progs, addImported db = some progs ∧
      ∀ p rec', dictGet? progs p = some rec' → ∃ rec, dictGet? db.programs p = some rec ∧
        (rec'.map (·.1)).Nodup ∧
        ∀ t, t ∈ rec'.map (·.1) ↔ t ∈ rec.map (·.1) ∨
          (isMeta t = false ∧ ∃ q recq, db.Exp p q ∧ dictGet? db.programs q = some recq ∧
            t ∈ recq.map (·.1)) :=
  let ⟨progs, h1, _, _, h4⟩ := addImported_spec db wf ⟨fun _ _ => false, fun _ _ => false⟩
  ⟨progs, h1, fun p rec' h => let ⟨rec, e, _, nd, ht⟩ := h4 p rec' h; ⟨rec, e, nd, ht⟩⟩

-- Non-vacuity: in `exampleDB` (two programs, `b.py` imports `a.py`, which features `x` and
-- `meta/m`; `exampleDB_wf : exampleDB.WF`) the record of `b.py` becomes `{y, x}`: with nothing
-- imparted, its linear cost is 2 (1 for `y`, 1 for the imported `x`, nothing for `meta/m`).
example : ∃ progs, addImported exampleDB = some progs ∧
    ((dictGet? progs [98, 46, 112, 121]).map fun rec => rec.map (·.1)) = some [[121], [120]] ∧
    ((dictGet? progs [98, 46, 112, 121]).map (programCost .linear [])) = some 2 := by
  obtain ⟨progs, h, _⟩ := C07_program_taxa exampleDB exampleDB_wf
  exact ⟨progs, h, by cases h; decide +kernel, by cases h; decide +kernel⟩

/-! ### One recommender: `run_pipeline` called any number of times -/

/-- `Recommendations.run_pipeline`: the commands update the filter, then
`self.assess.set_imparted_knowledge(self.imparted_knowledge)` and
`self.assessed_programs = self.assess(self.selected_programs)` — on the SAME memoised assessor as
the previous calls. Returns the new filter state, the new assessor state and the ranking. -/
def recRun (c : Ctx) (r : Relations) (strat : Strategy) (st : State) (a : AState) (cmds : List Command) :
    Except Err (State × AState × AOut) :=
  match runPipeline c r st cmds with
  | .error e => .error e
  | .ok st' =>
    let a1 := (astep strat c.programs a (.setKnowledge st'.knowledge)).1
    let out := astep strat c.programs a1 (.assess st'.selected)
    .ok (st', out.1, out.2)

/-- **Every assessment of a recommender reflects the knowledge and the selection of its filter at
that time**, whatever the earlier `run_pipeline` calls assessed and cached: from ANY assessor state
(any memo left by earlier runs), the ranking a `run_pipeline` call stores is the pure assessment of
the selection it leaves, under the knowledge it leaves. (`set_imparted_knowledge` is called before
every assessment: the in-place mutation of the knowledge set shared with the filter, which
`update_filter` performs, is never observed by the assessor without it — the model has no such step,
and a direct `update_filter` followed by `assess` without `run_pipeline` is outside this statement.) -/
theorem C07_recommender (c : Ctx) (r : Relations) (strat : Strategy) (st st' : State) (a a' : AState)
    (cmds : List Command) (out : AOut) (h : recRun c r strat st a cmds = .ok (st', a', out)) :
    runPipeline c r st cmds = .ok st' ∧
    out = .ranking (assess strat c.programs st'.knowledge st'.selected) ∧
    a'.knowledge = st'.knowledge ∧ MemoOk strat a' := by
  unfold recRun at h
  cases hr : runPipeline c r st cmds with
  | error e => rw [hr] at h; cases h
  | ok sm =>
    rw [hr] at h
    simp only [Except.ok.injEq, Prod.mk.injEq] at h
    obtain ⟨rfl, rfl, rfl⟩ := h
    have h1 : MemoOk strat (astep strat c.programs a (.setKnowledge sm.knowledge)).1 :=
      fun t v hv => by cases hv
    obtain ⟨e1, e2⟩ := astep_spec strat c.programs _ (.assess sm.selected) h1
    refine ⟨rfl, ?_, ?_, e2⟩
    · rw [e1]; rfl
    · rw [C07_knowledge_current]; rfl

/-! ### The knowledge set SHARED with the filter and mutated in place (round 10, DESIGN §11.11 E2)

`SState` (Model/CostsShared.lean): a heap of set objects, the address the assessor holds, the memo.
`mutateKnowledge addr add del` changes an object in place without telling the assessor; only
`setKnowledge` (and, the `lru_cache` being one per class, `foreignClear`: another instance constructed
or set) clears the memo. `e.1` in a run is the knowledge the assessor READS at that step: the content
of the pointed-to object then, in-place changes included. -/

/-- An in-place change of the pointed-to object is observed at once (the knowledge read is the new
content), and the memo is left as it is; a change of any other object is not observed. -/
theorem C07_shared_mutation (strat : Strategy) (progs : List (Codes × TaxaSpans)) (s : SState) (a : Nat)
    (add del : List Codes) :
    (sstep strat progs s (.mutateKnowledge a add del)).1.memo = s.memo ∧
    (sstep strat progs s (.mutateKnowledge a add del)).1.ptr = s.ptr ∧
    (sstep strat progs s (.mutateKnowledge a add del)).1.knowledge =
      if a = s.ptr then mutateSet s.knowledge add del else s.knowledge := by
  refine ⟨rfl, rfl, ?_⟩
  simp only [sstep, SState.knowledge, heapGet_heapSet]
  split
  · rename_i h; subst h; rfl
  · rfl

/-- **Exact characterisation of the memo.** For EVERY sequence of operations (in-place mutations
included), the memoised assessor returns, step by step, exactly what the snapshot machine returns:
the cost of a taxon is its pure cost under the knowledge AS IT WAS when that taxon was first costed
(by `taxon_cost` or inside an assessment) since the memo was last cleared (`gCost`: a taxon without
snapshot is costed under the current knowledge, which becomes its snapshot; a taxon with a snapshot is
costed under it; `setKnowledge` / `foreignClear` drop all snapshots; nothing else touches them). -/
theorem C07_shared_stale_characterised (strat : Strategy) (progs : List (Codes × TaxaSpans)) (h : Heap) (p : Nat)
    (ops : List SOp) :
    srun strat progs { heap := h, ptr := p, memo := [] } ops =
      grun strat progs { heap := h, ptr := p, snap := [] } ops :=
  srun_grun strat progs ops _ _ ⟨rfl, rfl, rfl⟩

/-- Reading of the snapshot machine, `taxon_cost`: the value returned is the pure cost under the
taxon's snapshot if it has one, under the current knowledge otherwise — and in the latter case the
current knowledge is recorded; an existing snapshot is never replaced. -/
theorem C07_shared_snapshot_cost (strat : Strategy) (progs : List (Codes × TaxaSpans)) (g : GState) (t : Codes) :
    (gstep strat progs g (.taxonCost t)).2 = .cost (taxonCost strat (snapOf g.snap g.knowledge t) t) ∧
    dictGet? (gstep strat progs g (.taxonCost t)).1.snap t = some (snapOf g.snap g.knowledge t) ∧
    ∀ t' K0, dictGet? g.snap t' = some K0 → dictGet? (gstep strat progs g (.taxonCost t)).1.snap t' = some K0 := by
  refine ⟨rfl, ?_, ?_⟩
  · simp only [gstep, gCost, snapOf]
    cases hg : dictGet? g.snap t with
    | some K0 => simp only [hg]
    | none => simp only [dictGet?_append_single, hg, if_true]
  · intro t' K0 h0
    simp only [gstep, gCost]
    cases hg : dictGet? g.snap t with
    | some K1 => exact h0
    | none => simp only [dictGet?_append_single, h0]

/-- The life of the snapshots, for every step: `set_imparted_knowledge` and a foreign clear drop them all; an
in-place mutation leaves them as they are (that is the staleness); a `taxon_cost` or a whole assessment
only EXTENDS them (`SnapExt`): no recorded snapshot is replaced, and every new one records the knowledge
read at that step. -/
theorem C07_shared_snapshots (strat : Strategy) (progs : List (Codes × TaxaSpans)) (g : GState) (op : SOp) :
    match op with
    | .setKnowledge _ => (gstep strat progs g op).1.snap = []
    | .foreignClear => (gstep strat progs g op).1.snap = []
    | .mutateKnowledge _ _ _ => (gstep strat progs g op).1.snap = g.snap
    | .taxonCost _ => SnapExt g.knowledge g.snap (gstep strat progs g op).1.snap
    | .assess _ => SnapExt g.knowledge g.snap (gstep strat progs g op).1.snap := by
  cases op with
  | setKnowledge a => rfl
  | foreignClear => rfl
  | mutateKnowledge a add del => rfl
  | taxonCost t => exact gCost_ext strat g.knowledge g.snap t
  | assess sel => exact gAssess_ext strat progs g.knowledge sel g.snap

/-- **Any disciplined history is sound**: if no cost is asked while the pointed-to object has been
changed in place since the last `set_imparted_knowledge` (`disciplined`), every output is the pure
function of the knowledge read at that step. -/
theorem C07_shared_disciplined_sound (strat : Strategy) (progs : List (Codes × TaxaSpans)) (s : SState)
    (hs : MemoOk strat s.view) (ops : List SOp) (hd : disciplined s.ptr false ops = true) :
    ∀ e ∈ srun strat progs s ops, e.2.2 = pureOutS strat progs e.1 e.2.1 :=
  disciplined_sound strat progs ops s false (fun _ => hs) hd

/-- **`run_pipeline`, any number of times, in-place mutation included.** From ANY state (any stale memo,
any pointer), every history made of rounds «the filter grows ITS knowledge set in place any number of
times; `set_imparted_knowledge(that set)`; assess a selection; any `taxon_cost` queries» returns, at
every step, the pure costs / ranking under the knowledge current at that step. -/
theorem C07_shared_run_pipeline_sound (strat : Strategy) (progs : List (Codes × TaxaSpans)) (s : SState)
    (addr : Nat) (rounds : List Round) :
    ∀ e ∈ srun strat progs s (pipelineOps addr rounds), e.2.2 = pureOutS strat progs e.1 e.2.1 :=
  disciplined_sound strat progs _ s true (fun h => by cases h) (pipelineOps_disciplined addr rounds s.ptr true)

/-- The program `p.py` featuring the taxon `a/b`. -/
def witnessProgs : List (Codes × TaxaSpans) := [(codesOf "p.py", [(codesOf "a/b", [])])]

/-- set; assess; the filter imparts `a/b` in place; assess again WITHOUT `set_imparted_knowledge`. -/
def witnessOps : List SOp :=
  [.setKnowledge 0, .assess [codesOf "p.py"], .mutateKnowledge 0 [codesOf "a", codesOf "a/b"] [], .assess [codesOf "p.py"]]

/-- **The gap of §11.6, exactly.** `update_filter` (impart `a/b`) followed by `assess` WITHOUT the
`set_imparted_knowledge` that `run_pipeline` interposes: the second assessment still returns 3/4 for
`p.py`, although the knowledge it reads now contains `a/b` (pure cost 0). The history is not
`disciplined`. -/
theorem C07_shared_direct_update_stale :
    (srun .zeno witnessProgs { heap := [], ptr := 0, memo := [] } witnessOps).map (fun e => e.2.2.costs) =
      [[], [3 / 4], [], [3 / 4]] ∧
    (srun .zeno witnessProgs { heap := [], ptr := 0, memo := [] } witnessOps).map
      (fun e => (pureOutS .zeno witnessProgs e.1 e.2.1).costs) = [[], [3 / 4], [], [0]] ∧
    disciplined 0 false witnessOps = false := by
  decide +kernel

-- Non-vacuity. `C07_shared_disciplined_sound`: an empty memo is `MemoOk`, and a history with an in-place
-- mutation FOLLOWED by a set is disciplined; so is one mutating an object the assessor does not point to.
example : MemoOk .zeno ({ heap := [], ptr := 0, memo := [] } : SState).view := fun t v hv => by cases hv
example : disciplined 0 false [.taxonCost [97], .mutateKnowledge 0 [[97]] [], .setKnowledge 0, .taxonCost [97]] = true := by
  decide
example : disciplined 0 false [.taxonCost [97], .mutateKnowledge 1 [[97]] [], .taxonCost [97]] = true := by decide
-- `C07_shared_run_pipeline_sound`: two rounds on the witness program; the second imparts `a/b` in place:
-- the costs are 3/4 then 0 (the run_pipeline discipline repairs the witness above).
example : (srun .zeno witnessProgs { heap := [], ptr := 0, memo := [] }
      (pipelineOps 0 [⟨[], [codesOf "p.py"], [codesOf "a/b"]⟩,
                      ⟨[[codesOf "a", codesOf "a/b"]], [codesOf "p.py"], [codesOf "a/b"]⟩])).map (fun e => e.2.2.costs) =
    [[], [3 / 4], [3 / 4], [], [], [0], [0]] := by decide +kernel
-- `C07_shared_stale_characterised` / `C07_shared_snapshot_cost`: after the witness history the snapshot
-- of `a/b` is the EMPTY knowledge of its first costing, not the current one.
example : snapOf [(codesOf "a/b", [])] [codesOf "a", codesOf "a/b"] (codesOf "a/b") = [] := by decide +kernel

end Paroxy.Props.C07
