/-
C03 — Tags of a program depend only on its own text.

Property theorems only, about the process state machine `Paroxy.Proc.step` (Model/Process.lean): one
`ProgramParser` (module-level `pseudo_hash`, one SQLite connection) and one `Taxonomy` (mutable
`literal_labels`, memo) shared by every program of the process — for ALL engines (regex features, SQL
queries, compiled taxonomy rows, taxa assembly are arbitrary functions), all programs and all
histories. `C03_collection` is about the C11 model of a collection.

Not modelled, only exercised: the SQLite engine itself, interpreter hash randomisation (the two-process
byte-identity run), garbage collection.
-/
import Paroxy.Proofs.Process
import Paroxy.Proofs.ProcCollect
import Paroxy.Proofs.Collect
import Paroxy.Props.C11
namespace Paroxy.Props.C03
open Paroxy Paroxy.DB Paroxy.Proc

variable {E : Engines} {lit0 : List (Name × List Name)}

/-- **C03 (invariant).** A fresh process is at a program boundary (no table `t`, no sub-table, memo
consistent with the taxonomy as loaded), and every `step` — whether it returns or the feature search
raises — ends at a program boundary again. -/
theorem C03_invariant :
    Inv E lit0 (init lit0) ∧ ∀ S p, Inv E lit0 S → Inv E lit0 (step E S p).1 := by
  refine ⟨⟨⟨rfl, rfl⟩, fun l => ⟨fun r hr => by simp [init, get?] at hr, fun _ => rfl⟩⟩, ?_⟩
  intro S p h
  have h1 := parseStep_sqlInv E h.1 p
  have h2 := parseStep_taxo E h.1 p
  unfold step stepG
  rw [show parseStepG E true S p = parseStep E S p from rfl]
  split
  · rename_i S1 e heq
    rw [heq] at h1 h2
    simp only at h1 h2
    exact ⟨h1, by rw [h2]; exact h.2⟩
  · rename_i S1 labels heq
    rw [heq] at h1 h2
    simp only at h1 h2
    have ht : TaxoInv E lit0 S1.taxo := by rw [h2]; exact h.2
    obtain ⟨-, h4, h5⟩ := taxaStep_spec E ht labels
    exact ⟨by rw [h5]; exact h1, h4⟩

/-- The labels and taxa of a program as a function of the program alone (and of the taxonomy as
loaded): the parser run from a fresh state, and the *pure* translation of its labels. -/
def specOut (E : Engines) (lit0 : List (Name × List Name)) (p : Program) :
    Except Exc (List Label × List Taxon) :=
  match (parseStep E (init lit0) p).2 with
  | .error e => .error e
  | .ok labels => .ok (labels, E.assemble (labels.map fun l => (l, pureTranslate E lit0 l.name)))

/-- **C03 (refinement).** From any boundary state, the output of `step` is the specification
`specOut`: no hash counter, SQL table, memo entry or aliased list of the state is visible in it. -/
theorem C03_output (S : State) (p : Program) (h : Inv E lit0 S) :
    (step E S p).2 = specOut E lit0 p := by
  have hout := parseStep_out E h.1 (⟨rfl, rfl⟩ : SqlInv (init lit0).sql) p
  have h2 := parseStep_taxo E h.1 p
  unfold step stepG specOut
  rw [show parseStepG E true S p = parseStep E S p from rfl, ← hout]
  split
  · rename_i S1 e heq
    rw [heq]
  · rename_i S1 labels heq
    rw [heq] at h2 ⊢
    simp only at h2 ⊢
    have ht : TaxoInv E lit0 S1.taxo := by rw [h2]; exact h.2
    rw [(taxaStep_spec E ht labels).1]

/-- **C03 (independent).** The labels, taxa and spans computed for a program in any reachable state
of the process are those computed by a fresh process. -/
theorem C03_independent (S : State) (p : Program) (h : Inv E lit0 S) :
    (step E S p).2 = (step E (init lit0) p).2 := by
  rw [C03_output S p h, C03_output (init lit0) p (C03_invariant (E := E)).1]

theorem run_inv (S : State) (ps : List Program) (h : Inv E lit0 S) : Inv E lit0 (run E S ps) := by
  induction ps generalizing S with
  | nil => exact h
  | cons p ps ih => exact ih _ ((C03_invariant (E := E) (lit0 := lit0)).2 S p h)

/-- **C03 (histories).** After ANY sequence of other programs (any order, any repeats, including
programs on which the feature search raised), a program gets the tags it gets when tagged alone. -/
theorem C03_history (ps : List Program) (p : Program) :
    (step E (run E (init lit0) ps) p).2 = (step E (init lit0) p).2 :=
  C03_independent _ p (run_inv _ ps (C03_invariant (E := E)).1)

/-- **C03 (hash counter).** After a parsed, non-empty program the `pseudo_hash` state is the one
obtained by hashing that program's expressions from a reset counter — whatever it was before. -/
theorem C03_hash_state (S : State) (p : Program) (reprs : List Name) (h : Inv E lit0 S)
    (hp : p.parsed = .tree reprs) :
    (step E S p).1.hash = (HashState.reset.callAll reprs).1 := by
  have hcr := create_of_inv h.1
  unfold step stepG parseStepG
  simp only [hp, if_true]
  cases hr : p.regexLabels (HashState.reset.callAll reprs).2 with
  | error e => rfl
  | ok labels0 =>
    simp only [hcr]
    have hl : LoopInv { t := some labels0, physical := [], known := [] } := by
      intro e he; cases he
    obtain ⟨s2, r, hq, -⟩ := queryLoop_ok E hl E.queries labels0
    rw [hq]
    rfl

/-! ### The hash reset is a real obligation -/

def exEngines : Engines :=
  { queries := [], derive := fun _ _ _ => [], looksLikeTaxon := fun _ => false,
    compiled := fun _ => [], assemble := fun _ => [] }

/-- a program with one expression `2` -/
def progQ : Program := { parsed := .tree [[50]], lines := 1, regexLabels := fun _ => .ok [] }

/-- a program with one expression `1`, and a feature whose label shows the identifier the expression
got (as the regex features matching `_hash=` lines of the flat AST can) -/
def progP : Program :=
  { parsed := .tree [[49]], lines := 1, regexLabels := fun vs => .ok [{ name := vs, spans := [] }] }

/-- **Without `pseudo_hash.reset()` the property fails.** If `flatten_ast` did not reset the counter
(`resets = false`: expressions hashed from the counter and cache left by the previous program), the
tags of `progP` after `progQ` would differ from its tags in a fresh process (identifier 2 instead of 1).
So `C03_independent` / `C03_history` — proved for the code as written, `resets = true` — do depend on
the line flatten_ast.py:369: removing it falsifies them. -/
theorem C03_no_reset_breaks :
    (stepG exEngines false (stepG exEngines false (init []) progQ).1 progP).2 ≠
      (stepG exEngines false (init []) progP).2 ∧
    (stepG exEngines true (stepG exEngines true (init []) progQ).1 progP).2 =
      (stepG exEngines true (init []) progP).2 := by
  decide

/-- **Why the invariant matters.** In a state where the table `t` was left behind (what a leak between
programs would be), every later parsed program fails with `OperationalError` ("table t already
exists"): the boundary invariant is exactly what makes the outputs state-independent. -/
theorem C03_leak_breaks (S : State) (p : Program) (reprs : List Name) (rows labels0 : List Label)
    (ht : S.sql.t = some rows) (hp : p.parsed = .tree reprs)
    (hr : p.regexLabels (HashState.reset.callAll reprs).2 = .ok labels0) :
    (step E S p).2 = .error operationalError := by
  unfold step stepG parseStepG
  simp only [hp, if_true, hr, SqlState.create, ht]

/-- **C03 (collection).** In a collection, the record of a program is a function of the program itself
(path, stored source, the labels its own text gets — `C03_history`) and of *which of the module names
its import labels mention are collected* (as paths: `M` ↦ `M` with `/` for `.`, plus `.py`): two
collections that agree on that give it the same record. -/
theorem C03_collection {toTaxa : Name → List Label → List Taxon} {progs progs' : List Prog} {db db' : Db}
    (h : makeDb toTaxa progs = .ok db) (h' : makeDb toTaxa progs' = .ok db')
    (hn : (pathsOf progs).Nodup) (hn' : (pathsOf progs').Nodup) {p : Prog} (hp : p ∈ progs)
    (hp' : p ∈ progs')
    (hsame : ∀ l ∈ p.labels, ∀ m, searchImport? l.name = some m →
      (replaceChar cDot cSlash m ++ sPy ∈ internalOf progs ↔
        replaceChar cDot cSlash m ++ sPy ∈ internalOf progs')) :
    get? db.programs p.path = get? db'.programs p.path := by
  obtain ⟨hprog, -⟩ := C11.C11_records h hn
  obtain ⟨hprog', -⟩ := C11.C11_records h' hn'
  have e1 : get? db.programs p.path = some (recordOf toTaxa (internalOf progs) p) := by
    rw [hprog]
    apply get?_of_mem_nodup
    · simpa [keys, pathsOf, List.map_map, Function.comp_def] using hn
    · exact List.mem_map.mpr ⟨p, hp, rfl⟩
  have e2 : get? db'.programs p.path = some (recordOf toTaxa (internalOf progs') p) := by
    rw [hprog']
    apply get?_of_mem_nodup
    · simpa [keys, pathsOf, List.map_map, Function.comp_def] using hn'
    · exact List.mem_map.mpr ⟨p, hp', rfl⟩
  rw [e1, e2]
  have hlab : labelsOf (internalOf progs) p = labelsOf (internalOf progs') p := by
    unfold labelsOf relabel
    apply List.map_congr_left
    intro l hl
    have : relabelName (internalOf progs) l.name = relabelName (internalOf progs') l.name := by
      unfold relabelName
      cases hs : searchImport? l.name with
      | none => rfl
      | some m =>
        simp only
        have := hsame l hl m hs
        by_cases hm : replaceChar cDot cSlash m ++ sPy ∈ internalOf progs
        · rw [if_pos hm, if_pos (this.mp hm)]
        · rw [if_neg hm, if_neg (fun h'' => hm (this.mpr h''))]
    rw [this]
  unfold recordOf
  rw [hlab]

/-- Non-vacuity of `C03_collection`: the two-program cycle `a.py ⇄ b.py`, and the same collection with a
third program `c.py`; `a.py` names the same collected modules in both, so it has the same record. -/
example : ∃ db db', makeDb (fun _ _ => []) C11.cycleProgs = .ok db ∧
    makeDb (fun _ _ => [])
      (C11.cycleProgs ++ [{ path := C11.exC, timestamp := [], source := [], labels := [] }]) = .ok db' ∧
    get? db.programs C11.exA = get? db'.programs C11.exA := by
  obtain ⟨db, h⟩ := C11.C11_total (toTaxa := fun _ _ => []) (progs := C11.cycleProgs)
  obtain ⟨db', h'⟩ := C11.C11_total (toTaxa := fun _ _ => [])
    (progs := C11.cycleProgs ++ [{ path := C11.exC, timestamp := [], source := [], labels := [] }])
  refine ⟨db, db', h, h', ?_⟩
  have := C03_collection h h' (by decide) (by decide) (p := C11.cycleProgs.head!) (by decide) (by decide)
    (by
      intro l hl m hs
      have hl' : l = { name := C11.impB, spans := [(1, 1, [])] } := by
        have : C11.cycleProgs.head!.labels = [{ name := C11.impB, spans := [(1, 1, [])] }] := rfl
        rw [this] at hl
        exact List.mem_singleton.mp hl
      rw [hl'] at hs
      have hm : m = [98] := by
        have : searchImport? C11.impB = some [98] := by decide
        rw [this] at hs
        exact (Option.some.inj hs).symm
      rw [hm]
      decide)
  exact this

/-! ### The collection, with the process state threaded -/

/-- **C03 (in a collection = alone).** `collectProc` threads ONE parser state over the sorted programs
(`parseSeq`), relabels, threads ONE taxonomy state over the relabelled labels (`taxaSeq`) and assembles
the database. For a program that names no collected module other than itself, the record it gets inside
the collection is the record it gets when collected alone — whatever programs come before and after it.
The labels of a program are not an input here: they are what the shared parser returns when its turn
comes (`collectProc_eq` reduces the threaded run to `makeDb` on the labels each program gets alone). -/
theorem C03_record_alone {items : List Item} {it : Item} {db db1 : Db}
    (hn : (items.map (·.path)).Nodup) (hit : it ∈ items)
    (h : collectProc E lit0 items = .ok db) (h1 : collectProc E lit0 [it] = .ok db1)
    (hno : ∀ l ∈ labelsAlone E lit0 it, ∀ m, searchImport? l.name = some m →
      replaceChar cDot cSlash m ++ sPy ∈ items.map (·.path) →
        replaceChar cDot cSlash m ++ sPy = it.path) :
    get? db.programs it.path = get? db1.programs it.path := by
  have e := collectProc_eq hn h
  have e1 := collectProc_eq (items := [it]) (by simp) h1
  have hpaths : pathsOf (items.map (progAlone E lit0)) = items.map (·.path) := by
    simp [pathsOf, progAlone, List.map_map, Function.comp_def]
  have := C03_collection e e1 (by rw [hpaths]; exact hn) (by simp [pathsOf])
    (p := progAlone E lit0 it) (List.mem_map.mpr ⟨it, hit, rfl⟩) (by simp)
    (by
      intro l hl m hs
      have hl' : l ∈ labelsAlone E lit0 it := hl
      simp only [internalOf, internalPaths, List.mem_append, List.map_cons,
        List.map_nil, List.mem_cons, List.not_mem_nil, or_false]
      have hp : (List.map (fun x => x.path) (List.map (progAlone E lit0) items)) = items.map (·.path) := hpaths
      rw [hp]
      constructor
      · rintro (hm | hm)
        · exact Or.inl (hno l hl' m hs hm)
        · exact Or.inr hm
      · rintro (hm | hm)
        · left
          have : (progAlone E lit0 it).path = it.path := rfl
          rw [this] at hm
          rw [hm]; exact List.mem_map.mpr ⟨it, hit, rfl⟩
        · exact Or.inr hm)
  exact this

/-- Non-vacuity: the fresh state satisfies the invariant, so `C03_history` speaks about every real
run; and a state with a leftover table does not (cf. `C03_leak_breaks`). -/
example : ¬ Inv E lit0 { init lit0 with sql := { t := some [], physical := [], known := [] } } := by
  intro h; cases h.1.1

end Paroxy.Props.C03
