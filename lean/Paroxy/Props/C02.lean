/-
C02 — Every reported span is a valid line range of the stored listing (partial).

Proved here, for the model of /repo as it is now:
 * the spans scheduled by hints (`get_program`): valid line ranges of the stored source for EVERY
   text (`C02_hint_spans`, no hypothesis);
 * the span of the `ast_construction:*` error label is (1, number of lines);
 * `get_bindings`: start / end are the line numbers of the first / last captured `POS` (or of the
   paired `POS`), so a binding is a valid range iff those captured lines are ordered and in range.
Only exercised by harness/c02.py (not theorems): the 171 other features and the SQL-derived spans,
CPython's line numbers (see DESIGN §5/C02).
At the end of the file (tree model of C15/C01, `Paroxy.Flat`): `C02_node_span`, `C02_whole_span`,
`C02_meta_program_once`.
-/
import Paroxy.Proofs.HintsSpans
import Paroxy.Proofs.HintsPrepare
import Paroxy.Proofs.HintsAllTexts
import Paroxy.Proofs.HintsSpaced
import Paroxy.Model.ParseGlue
import Paroxy.Proofs.NodeSpan
import Paroxy.Proofs.NodeSpanTree
import Paroxy.Proofs.NodeCaptures
import Paroxy.Proofs.WholeSpan
import Paroxy.Proofs.FlatEntries
import Paroxy.Props.C15
namespace Paroxy.Props.C02
open Paroxy Paroxy.Hints Paroxy.Glue

variable {O : CharOracle}

/-- The property predicate: a valid line range of a listing. -/
def ValidSpan (listing : Str) (s e : Nat) : Prop := 1 ≤ s ∧ s ≤ e ∧ e ≤ lineCount listing

/-- Executable form (driver op `c02.spec_valid`). -/
def validSpanB (listing : Str) (s e : Nat) : Bool := decide (1 ≤ s) && decide (s ≤ e) && decide (e ≤ lineCount listing)

theorem C02_validSpanB_iff (listing : Str) (s e : Nat) : validSpanB listing s e = true ↔ ValidSpan listing s e := by
  simp [validSpanB, ValidSpan, and_assoc]

/-! ## Spans scheduled by hints -/

/-- **C02 (hint spans, all texts).** Whatever the text: every span `get_program` schedules is an
ordered pair of line numbers of the centrifugated text (the text in which `collect_hints` numbers
the lines, after normalisation of the markers and trimming of the blank ends). What can still go
wrong is only a difference between the number of lines of that text and of the stored source. -/
theorem C02_hint_spans_centrifugated (src c : Str) (p : Program)
    (hc : (centrifugate O) ((prepare O) src) = .ok c) (h : (getProgram O) src = .ok p) :
    ∀ e ∈ p.addition.entries ++ p.deletion.entries, ValidSpan c e.2.1 e.2.2 := by
  unfold getProgram getProgramFrom at h
  simp only [hc] at h
  split at h
  · cases h
  · rename_i a d hcol
    cases h
    exact collectHints_spans c a d hcol

/-- **C02 (hint spans), full.** For EVERY text: whenever `get_program` returns, every span it
schedules is a valid line range of the stored source — `1 ≤ start ≤ end ≤ number of lines of the
stored source`. (The stored source has exactly as many lines as the text the hints were numbered
on: `remove_hints` swallows no line break and strips no end line; no hypothesis on emptiness nor on
the characters of the text is needed since 80f9da8. Since F46 `remove_hints` deletes `# paroxython:`
comments with or without a space after the colon: that it never deletes a line `centrifugate_hints`
kept rests on the normalisation of the markers, `prepare_spaced`.) -/
theorem C02_hint_spans (src : Str) (p : Program) (h : (getProgram O) src = .ok p) :
    ∀ e ∈ p.addition.entries ++ p.deletion.entries, ValidSpan p.source e.2.1 e.2.2 := by
  cases hc : (centrifugate O) ((prepare O) src) with
  | error e => unfold getProgram getProgramFrom at h; simp [hc] at h
  | ok c =>
    have hspans := C02_hint_spans_centrifugated src c p hc h
    have hps : p.source = (removeHints O) c := by
      unfold getProgram getProgramFrom at h
      simp only [hc] at h
      split at h
      · cases h
      · cases h; rfl
    intro e he
    have := hspans e he
    simp only [ValidSpan] at this ⊢
    rw [hps, lineCount_stored _ c (prepare_spaced src) hc]
    exact this

/-- The input of the repaired finding F07d (a separator 0x1c in front of a hint comment on the first
line): the line is now a hint alone on its line, `bar` is scheduled on the single stored line. -/
example : (getProgram asciiOracle) "\x1c # paroxython: foo\nx = 1 # paroxython: bar".toList =
    .ok ⟨"x = 1".toList, [("bar".toList, [(1, 1)]), ("foo".toList, [(1, 1)])], []⟩ := by rfl

/-- Non-vacuity of `C02_hint_spans`, on the inputs of the repaired findings 7, 7b and 7c. -/
example : (getProgram asciiOracle) "# paroxython: foo\n\nx = 1".toList =
    .ok ⟨"x = 1".toList, [("foo".toList, [(1, 1)])], []⟩ := by rfl
example : (getProgram asciiOracle) "x = 1\n\n# paroxython: foo".toList =
    .ok ⟨"x = 1".toList, [("foo".toList, [(1, 1)])], []⟩ := by rfl

example : (getProgram asciiOracle) "\n\nx = 1 # paroxython: foo\n".toList =
    .ok ⟨"x = 1".toList, [("foo".toList, [(1, 1)])], []⟩ := by rfl
example : (getProgram asciiOracle) "x = 1\n# paroxython: foo\ny = 2\n".toList =
    .ok ⟨"x = 1\ny = 2".toList, [("foo".toList, [(1, 2)])], []⟩ := by rfl
example : (getProgram asciiOracle) "x = 1\n# paroxython: \ny = 2 # paroxython: foo".toList =
    .ok ⟨"x = 1\ny = 2".toList, [("foo".toList, [(2, 2)])], []⟩ := by rfl

/-! ## The error label -/

/-- **C02 (error span).** The `ast_construction:*` label spans `(1, source.count("\n") + 1)`,
which is the whole stored listing: a valid line range whatever the text. -/
theorem C02_error_span (source : Str) :
    errorSpan source = (1, lineCount source) ∧ ValidSpan source (errorSpan source).1 (errorSpan source).2 := by
  have h : errorSpan source = (1, lineCount source) := by simp [errorSpan, lineCount_eq]
  refine ⟨h, ?_⟩
  rw [h]
  simp only [ValidSpan]
  have : 1 ≤ lineCount source := by rw [lineCount_eq]; omega
  omega

/-! ## Bindings of the regex features -/

/-- **C02 (binding span).** Every binding `get_bindings` yields carries, as start and end, the
ORDERED pair of the line numbers of two captured `POS`: the same `POS` twice when positions and
suffixes are paired, the first and the last `POS` otherwise (start = the smaller line, end = the
larger one, since 44b0b15: the last capture follows the first in the flat AST, not necessarily in
the source); its path is that of the first of the two. -/
theorem C02_binding_span (label pos0 : Str) (posRest suffix : List Str) (occs : List Occ)
    (h : getBindings label pos0 posRest suffix = .ok occs) :
    ∀ o ∈ occs, ∃ s e : Nat, o.2.1 = min s e ∧ o.2.2.1 = max s e ∧
      ((∃ q ∈ pos0 :: posRest, parsePos q = .ok (s, o.2.2.2) ∧ e = s) ∨
       (parsePos pos0 = .ok (s, o.2.2.2) ∧
        ∃ path, parsePos ((pos0 :: posRest).getLast (by simp)) = .ok (e, path))) := by
  have hspan : ∀ a b sp, posToSpan a b = .ok sp → ∃ s e path, sp = (min s e, max s e, sp.2.2) ∧
      parsePos a = .ok (s, sp.2.2) ∧ parsePos b = .ok (e, path) := by
    intro a b sp hsp
    unfold posToSpan at hsp
    split at hsp
    · rename_i s path e pe h1 h2
      cases hsp
      exact ⟨s, e, pe, rfl, h1, h2⟩
    · cases hsp
  unfold getBindings at h
  simp only at h
  split at h
  · -- no suffix
    split at h
    · cases h
    · rename_i sp hsp
      simp only [Except.ok.injEq] at h
      subst h
      intro o ho
      simp only [List.mem_singleton] at ho
      subst ho
      obtain ⟨s, e, path, hsp', h1, h2⟩ := hspan _ _ sp hsp
      exact ⟨s, e, by rw [hsp'], by rw [hsp'], Or.inr ⟨h1, path, h2⟩⟩
  · split at h
    · -- paired
      have key : ∀ (l : List (Str × Str)) (out : List Occ), pairBindings label l = .ok out →
          ∀ o ∈ out, ∃ x ∈ l, ∃ s : Nat, parsePos x.2 = .ok (s, o.2.2.2) ∧ o.2.1 = s ∧ o.2.2.1 = s := by
        intro l
        induction l with
        | nil => intro out hout o ho; simp only [pairBindings, Except.ok.injEq] at hout; subst hout; simp at ho
        | cons x xs ih =>
          obtain ⟨sfx, q⟩ := x
          intro out hout o ho
          simp only [pairBindings] at hout
          split at hout
          · cases hout
          · rename_i sp hx
            split at hout
            · cases hout
            · rename_i rest hrest
              simp only [Except.ok.injEq] at hout
              subst hout
              rcases List.mem_cons.mp ho with rfl | ho
              · obtain ⟨s, e, path, hsp', h1, h2⟩ := hspan _ _ sp hx
                rw [h1] at h2
                simp only [Except.ok.injEq, Prod.mk.injEq] at h2
                obtain ⟨rfl, _⟩ := h2
                refine ⟨(sfx, q), by simp, s, h1, ?_, ?_⟩
                · show sp.1 = s; rw [hsp']; simp
                · show sp.2.1 = s; rw [hsp']; simp
              · obtain ⟨y, hy, hy2⟩ := ih rest hrest o ho
                exact ⟨y, List.mem_cons_of_mem _ hy, hy2⟩
      intro o ho
      obtain ⟨x, hx, s, hp, hs1, hs2⟩ := key _ occs h o ho
      exact ⟨s, s, by simpa using hs1, by simpa using hs2, Or.inl ⟨x.2, (List.of_mem_zip hx).2, hp, rfl⟩⟩
    · -- one span for all the suffixes
      split at h
      · cases h
      · rename_i sp hsp
        simp only [Except.ok.injEq] at h
        subst h
        intro o ho
        simp only [List.mem_map] at ho
        obtain ⟨sfx, _, rfl⟩ := ho
        obtain ⟨s, e, path, hsp', h1, h2⟩ := hspan _ _ sp hsp
        exact ⟨s, e, by show sp.1 = _; rw [hsp'], by show sp.2.1 = _; rw [hsp'], Or.inr ⟨h1, path, h2⟩⟩

/-- **C02 (binding ordered).** Every binding `get_bindings` yields has `start ≤ end`, whatever the
captures (no hypothesis on the order of the captured lines is needed any more). -/
theorem C02_binding_ordered (label pos0 : Str) (posRest suffix : List Str) (occs : List Occ)
    (h : getBindings label pos0 posRest suffix = .ok occs) : ∀ o ∈ occs, o.2.1 ≤ o.2.2.1 := by
  intro o ho
  obtain ⟨s, e, h1, h2, _⟩ := C02_binding_span label pos0 posRest suffix occs h o ho
  rw [h1, h2]; omega

/-- The capture order of finding F41 (`def f(a=1,\n *b,\n c=2)`: the default of the first parameter is
listed after the vararg): lines 2 then 1 give the span 1–2. -/
example : getBindings "node:arguments".toList "2:1-".toList ["1:1-0-".toList] [] =
    .ok [("node:arguments".toList, (1, 2, "1-".toList))] := by decide

/-- Non-vacuity: the `for` example of the docstring of `get_bindings`. -/
example : getBindings "for".toList "1:1-".toList ["1:1-0-0-1-".toList, "1:1-0-0-2-".toList, "2:1-2-1-".toList]
    ["i".toList, "j".toList] =
    .ok [("for:i".toList, (1, 2, "1-".toList)), ("for:j".toList, (1, 2, "1-".toList))] := by decide

/-- A `POS` that is not `line:path` (finding 17: a `:` inside a captured string) is a `ValueError`,
not a span. -/
example : getBindings "x".toList "1:a:b".toList [] [] = .error .valueError := by decide

end Paroxy.Props.C02

/-! ## Clauses that live on the tree model of C15 / C01 (`Paroxy.Flat`)

`dumpP h [] [] t` is the flat AST of a (tweaked) tree `t`; `nodeMatches` / `wholeSpanMatch?` are the hand
matchers of the `node` / `whole_span` patterns (validated against the real engine by harness/c01.py and
harness/c02_tree.py). Hypotheses (Bool-valued, evaluated on every real tree, status reported in the
evidence; the span checks of the harness are made on every tree whatever their status):
`lastDescMono` — the line of a positioned node is not after the line of its last positioned strict
descendant in dump order (holds on all real trees seen); the former `PreorderMonotone` — line numbers never
decrease along the whole pre-order enumeration — is stronger and fails on decorated definitions and
classes and on multi-line conditional expressions (about a fifth of the generated trees). -/
namespace Paroxy.Props.C02
open Paroxy.Flat

/-- **C02 (spans are ordered, unconditionally).** Since fix 44b0b15 `pos_to_span` sorts the two line numbers
it extracts. Hence for **every** text `ls` (no tree, no hypothesis): every span computed from any list of
captures, every `node:` occurrence bound by `get_bindings` to a match of the `node` feature, and every
`whole_span` occurrence has `start ≤ end`. Before the fix this needed the order of the line numbers in the
flat AST (`lastDescMono` below), and failed for nodes **without** a line number whose fields are not in
source order: for `def f(a=1,\n *b,\n c=2)` the `arguments` node captures its `vararg` (line 2) first and
the default value of its first parameter (line 1) last, and `node:arguments` was bound to 2-1
(`sampleDefaults` below). -/
theorem C02_span_ordered (ls : List (List Char)) :
    (∀ pos s, posToSpan? pos = some s → s.start ≤ s.stop) ∧
    (∀ m ∈ nodeMatches ls, ∀ b, nodeBinding? m = some b → b.2.start ≤ b.2.stop) ∧
    (∀ bs, wholeSpanBindings? ls = some bs → ∀ b ∈ bs, b.2.start ≤ b.2.stop) :=
  ⟨fun _ _ h => posToSpan_ordered h, fun _ _ _ hb => nodeBinding_ordered hb,
    fun _ h => wholeSpanBindings_ordered h⟩

/-- **C02 (node spans).** On the dump of a well-formed tree (`treeOk2`, `namesOkTree`), every match of the
`node` feature whose type is a positioned type captures the position of a node of the tree — its own —
and optionally a second one: the position of its **last positioned strict descendant in dump order**.
Hence, as soon as the line of every positioned node is not after the line of that descendant
(`lastDescMono`: exactly what the pattern can capture — decorated definitions satisfy it although line
numbers decrease from the `def` to its decorators), the two captures are already in order (`GoodSpan`): the
sorting of `pos_to_span` changes nothing, the span **starts on the node's own line** and ends on the line of
that descendant. (That `start ≤ end` alone no longer needs any hypothesis: `C02_span_ordered`; it is kept
here as a corollary.) -/
theorem C02_node_span (t0 t : Val) (hwf : treeOk2 t = true) (hnames : namesOkTree t = true)
    (hmono : lastDescMono [] [] t = true) :
    ∀ m ∈ nodeMatches (dumpP (hashFn t0) [] [] t), (posTypes t).contains m.1 = true →
      GoodSpan m ∧ ∀ b, nodeBinding? m = some b → b.2.start ≤ b.2.stop := by
  intro m hm hP
  have hall : ∀ e ∈ entries [] [] t, e.ok2 = true ∧ e.typed (posTypes t).contains = true := by
    intro e he
    have := List.all_eq_true.mp hwf e he
    simpa using this
  obtain ⟨MS, hMS, hG⟩ := nm_tree (hashFn t0) (eq_not_mem_hashFn t0) (hashNoNewline_hashFn t0) _ t [] [] []
    hall hnames hmono (by intro l hl; cases hl)
  have hm' : m ∈ MS := by
    have : nodeMatches (dumpP (hashFn t0) [] [] t) = MS := by
      simpa [encNames, encPath, nodeMatches] using hMS
    rw [this] at hm; exact hm
  have hg := hG m hm' hP
  exact ⟨hg, fun b hb => goodSpan_binding hg hb⟩

/-- **C02 (captured positions).** On the dump of a well-formed tree, every position captured by a `node`
match of a positioned type is the position text of a node of the tree that carries a line number — no
hypothesis on the line numbers. -/
theorem C02_node_captures (t0 t : Val) (hwf : treeOk2 t = true) :
    ∀ m ∈ nodeMatches (dumpP (hashFn t0) [] [] t), (posTypes t).contains m.1 = true →
      ∀ p ∈ m.2, ∃ ty n a, (ty, n) ∈ positionedNodes t ∧ p = posText n a := by
  intro m hm hP
  have hall : ∀ e ∈ entries [] [] t, e.ok2 = true ∧ e.typed (posTypes t).contains = true := by
    intro e he
    have := List.all_eq_true.mp hwf e he
    simpa using this
  have hd : dumpP (hashFn t0) [] [] t = (entries [] [] t).flatMap (Entry.lines (hashFn t0)) :=
    dumpP_eq_entries (hashFn t0) [] [] t
  rw [hd] at hm
  exact nodeMatches_entries_captures (hashFn t0) (eq_not_mem_hashFn t0) (hashNoNewline_hashFn t0) _
    (entries [] [] t) (fun e he => (hall e he).1) (fun e he => (hall e he).2) m hm hP

/-- **C02 (node spans are valid line ranges).** With the single assumption on CPython that the line
numbers of the tree lie within the listing (`1 ≤ lineno ≤ N` for every positioned node), every `node:`
occurrence of a positioned type is bound to a span `1 ≤ start ≤ end ≤ N` — whatever the order of the line
numbers in the tree (no `lastDescMono`, no `namesOkTree` any more: the order comes from `C02_span_ordered`,
the bounds from `C02_node_captures`). -/
theorem C02_node_span_valid (t0 t : Val) (N : Nat) (hwf : treeOk2 t = true)
    (hlines : ∀ x ∈ positionedNodes t, 1 ≤ x.2 ∧ x.2 ≤ N) :
    ∀ m ∈ nodeMatches (dumpP (hashFn t0) [] [] t), (posTypes t).contains m.1 = true →
      ∀ b, nodeBinding? m = some b → 1 ≤ b.2.start ∧ b.2.start ≤ b.2.stop ∧ b.2.stop ≤ N := by
  intro m hm hP b hb
  have hcap := C02_node_captures t0 t hwf m hm hP
  have bound : ∀ p ∈ m.2, ∀ n x, parsePos? p = some (n, x) → 1 ≤ n ∧ n ≤ N := by
    intro p hp n x hpp
    obtain ⟨ty, n', a', hmem, he⟩ := hcap _ hp
    rw [he, parsePos_posText] at hpp
    simp only [Option.some.injEq, Prod.mk.injEq] at hpp
    rw [← hpp.1]; exact hlines (ty, n') hmem
  have hs : ∃ s, posToSpan? m.2 = some s ∧ b.2 = s := by
    unfold nodeBinding? at hb
    split at hb
    · rename_i p hmp
      simp only [Option.map_eq_some_iff] at hb
      obtain ⟨s, hp, hs⟩ := hb
      exact ⟨s, by rw [hmp]; exact hp, by rw [← hs]⟩
    · simp only [Option.map_eq_some_iff] at hb
      obtain ⟨s, hp, hs⟩ := hb
      exact ⟨s, hp, by rw [← hs]⟩
  obtain ⟨s, hp, hbs⟩ := hs
  obtain ⟨p, hpm, q, hqm, n1, x, n2, y, h1, h2, hstart, hstop⟩ := posToSpan_lines hp
  have b1 := bound p hpm n1 x h1
  have b2 := bound q hqm n2 y h2
  rw [hbs, hstart, hstop]
  refine ⟨?_, Nat.le_trans (Nat.min_le_left _ _) (Nat.le_max_left _ _), ?_⟩
  · exact Nat.le_min.mpr ⟨b1.1, b2.1⟩
  · exact Nat.max_le.mpr ⟨b1.2, b2.2⟩

/-- The former, stronger hypothesis (line numbers non-decreasing along the whole pre-order enumeration)
is also sufficient; it fails on decorated definitions. -/
theorem C02_node_span_preorder (t0 t : Val) (hwf : treeOk2 t = true) (hmono : PreorderMonotone (entries [] [] t)) :
    ∀ m ∈ nodeMatches (dumpP (hashFn t0) [] [] t), (posTypes t).contains m.1 = true →
      GoodSpan m ∧ ∀ b, nodeBinding? m = some b → b.2.start ≤ b.2.stop := by
  intro m hm hP
  have hall : ∀ e ∈ entries [] [] t, e.ok2 = true ∧ e.typed (posTypes t).contains = true := by
    intro e he
    have := List.all_eq_true.mp hwf e he
    simpa using this
  have hd : dumpP (hashFn t0) [] [] t = (entries [] [] t).flatMap (Entry.lines (hashFn t0)) :=
    dumpP_eq_entries (hashFn t0) [] [] t
  rw [hd] at hm
  have hg := nodeMatches_entries_span (hashFn t0) (eq_not_mem_hashFn t0) (hashNoNewline_hashFn t0) _
    (entries [] [] t) (fun e he => (hall e he).1) (fun e he => (hall e he).2) hmono m hm hP
  exact ⟨hg, fun b hb => goodSpan_binding hg hb⟩

/-- **C02 (node spans, on the real pipeline).** The same for what `flatten_ast` returns, for a tree whose
on-the-fly form satisfies `wfStages6` and `wfTweak` and whose tweaked form `tweak [] …` (the one-shot
specification) satisfies `treeOk2` and
`namesOkTree`, `lastDescMono`. -/
theorem C02_node_span_pipeline (cfg : Cfg) (s : HashState) (t : Val) (ty : List Char) (e : Bool) (r : List Char)
    (ln : Option Nat) (fs : List (List Char × Val)) (ht : prep cfg t = .node ty e r ln fs)
    (hwf : wfStages6 (prep cfg t) = true) (hwt : wfTweak (prep cfg t) = true)
    (hok : treeOk2 (tweak [] (prep cfg t)) = true)
    (hnames : namesOkTree (tweak [] (prep cfg t)) = true)
    (hmono : lastDescMono [] [] (tweak [] (prep cfg t)) = true) :
    ∀ m ∈ nodeMatches (flattenAst cfg s t).1, (posTypes (tweak [] (prep cfg t))).contains m.1 = true →
      GoodSpan m ∧ ∀ b, nodeBinding? m = some b → b.2.start ≤ b.2.stop := by
  rw [Paroxy.Props.C15.C15_flatten_tweaked cfg s t ty e r ln fs ht hwf hwt]
  exact C02_node_span (prep cfg t) (tweak [] (prep cfg t)) hok hnames hmono

/-- Non-vacuity: a two-line module `if x:` / `    pass` (already tweaked). -/
def sampleIf : Val :=
  .node "Module".toList false [] none
    [("body".toList, .list false
      [.node "If".toList false [] (some 1)
        [("test".toList, .node "Name".toList true "Name(id='x')".toList (some 1) [("id".toList, .scalar "x".toList .str)]),
         ("body".toList, .list false [.node "Pass".toList false [] (some 2) []])]])]

example : treeOk2 sampleIf = true ∧ namesOkTree sampleIf = true ∧ lastDescMono [] [] sampleIf = true ∧
    decide (PreorderMonotone (entries [] [] sampleIf)) = true := by decide
example : (nodeMatches (dumpP (hashFn sampleIf) [] [] sampleIf)).map (·.2) =
    [["1:1-".toList, "2:1-1-1-".toList], ["1:1-0-".toList], ["2:1-1-1-".toList]] := by decide

/-- Non-vacuity of the weakening: a decorated definition (`@d` on line 1, `def f():` on line 2, `pass` on
line 3; already tweaked, body last) satisfies `lastDescMono` but not `PreorderMonotone`. -/
def sampleDecorated : Val :=
  .node "Module".toList false [] none
    [("body".toList, .list false
      [.node "FunctionDef".toList false [] (some 2)
        [("name".toList, .scalar "f".toList .str),
         ("decorator_list".toList, .list false
            [.node "Name".toList true "Name(id='d')".toList (some 1) [("id".toList, .scalar "d".toList .str)]]),
         ("body".toList, .list false [.node "Pass".toList false [] (some 3) []])]])]

example : treeOk2 sampleDecorated = true ∧ namesOkTree sampleDecorated = true ∧
    lastDescMono [] [] sampleDecorated = true ∧ decide (PreorderMonotone (entries [] [] sampleDecorated)) = false := by
  decide

/-- Regression / non-vacuity for `C02_span_ordered` (the former finding F41): `def f(a=1,` / `      *b,` /
`      c=2):` / `    pass` (already tweaked). The `arguments` node has no line number; the `node` pattern
captures the position of its `vararg` (line 2) first and, last in dump order, the default value of the first
parameter (line 1): `node:arguments` was bound to 2-1, it is now bound to 1-2. -/
def sampleDefaults : Val :=
  .node "Module".toList false [] none
    [("body".toList, .list false
      [.node "FunctionDef".toList false [] (some 1)
        [("name".toList, .scalar "f".toList .str),
         ("args".toList, .node "arguments".toList false [] none
            [("args".toList, .list false [.node "arg".toList false [] (some 1) [("arg".toList, .scalar "a".toList .str)]]),
             ("vararg".toList, .node "arg".toList false [] (some 2) [("arg".toList, .scalar "b".toList .str)]),
             ("kwonlyargs".toList, .list false [.node "arg".toList false [] (some 3) [("arg".toList, .scalar "c".toList .str)]]),
             ("kw_defaults".toList, .list false [.node "Num".toList true "Constant(value=2)".toList (some 3) [("n".toList, .scalar "2".toList .num)]]),
             ("defaults".toList, .list false [.node "Num".toList true "Constant(value=1)".toList (some 1) [("n".toList, .scalar "1".toList .num)]])]),
         ("body".toList, .list false [.node "Pass".toList false [] (some 4) []])]])]

example : ((nodeMatches (dumpP (hashFn sampleDefaults) [] [] sampleDefaults)).filter (·.1 == "arguments".toList)).map
    (fun m => (m.2, nodeBinding? m)) =
    [(["2:1-1-1-".toList, "1:1-1-4-1-".toList], some ("node:arguments".toList, ⟨1, 2, "1-1-1-".toList⟩))] := by decide
example : treeOk2 sampleDefaults = true ∧ lastDescMono [] [] sampleDefaults = true ∧
    (posTypes sampleDefaults).contains "arguments".toList = false := by decide

/-- **C02 (whole span).** When `whole_span` captures `<line>:` (first position, path left out) and the
position text of a node, `pos_to_span` yields exactly these two line numbers, sorted: the span is a valid
order whatever the two lines (they are already in order when the two captures are the first and the last
positioned node of the dump and line numbers do not decrease — checked on every real tree by the harness). -/
theorem C02_whole_span (n n' : Nat) (a' : List Nat) :
    ∃ s, posToSpan? [dec n ++ [':'], posText n' a'] = some s ∧ s.start = min n n' ∧ s.stop = max n n' ∧
      s.start ≤ s.stop ∧ (n ≤ n' → s.start = n ∧ s.stop = n') := by
  refine ⟨⟨min n n', max n n', []⟩, posToSpan_whole n n' a', rfl, rfl,
    Nat.le_trans (Nat.min_le_left _ _) (Nat.le_max_left _ _), fun h => ⟨Nat.min_eq_left h, Nat.max_eq_right h⟩⟩

/-- **C02 (`meta/program` once).** For every text, `whole_span` yields at most one occurrence, and
exactly one as soon as the pattern matches (the match is anchored by `\A`); its label is `whole_span`
or `whole_span:<digits>`, both translated by the row `meta/program <tab> whole_span(:.+)?`. -/
theorem C02_meta_program_once (ls : List (List Char)) (bs : List (List Char × SpanP))
    (h : wholeSpanBindings? ls = some bs) :
    bs.length ≤ 1 ∧ (bs.length = 1 ↔ (wholeSpanMatch? ls).isSome = true) ∧
      ∀ b ∈ bs, b.1 = "whole_span".toList ∨ ∃ d, b.1 = "whole_span:".toList ++ d := by
  unfold wholeSpanBindings? at h
  split at h
  · rename_i hm
    simp only [Option.some.injEq] at h
    subst h
    simp [hm]
  · rename_i pos hm
    cases hp : posToSpan? pos with
    | none => simp [hp] at h
    | some s =>
      simp only [hp, Option.map_some, Option.some.injEq] at h
      subst h
      simp [hm]
  · rename_i pos d rest hm
    cases hp : posToSpan? pos with
    | none => simp [hp] at h
    | some s =>
      simp only [hp, Option.map_some, Option.some.injEq] at h
      subst h
      simp [hm]

/-- **C02 (`whole_span` exists and spans first–last).** For a `Module` whose entries are well formed
(`treeOk3`) and which has at least one positioned node, the `whole_span` pattern matches its dump; the
first capture is `<line of the first positioned node>:`, the second one (when another positioned node
follows) is the position text of the **last** positioned node in dump order, whose line is the suffix. -/
theorem C02_whole_span_exists (t0 : Val) (r : List Char) (fs : List (List Char × Val))
    (hok : treeOk3 (.node "Module".toList false r none fs) = true)
    (hne : positionedNodes (.node "Module".toList false r none fs) ≠ []) :
    ∃ n1 rest, firstPosSplit (entriesFields [] [] 0 fs) = some (n1, rest) ∧
      wholeSpanMatch? (dumpP (hashFn t0) [] [] (.node "Module".toList false r none fs)) =
        some (match lastPosOfEntries rest with
          | some (n2, a2) => ([dec n1 ++ [':'], posText n2 a2], [dec n2])
          | none => ([dec n1 ++ [':']], [])) := by
  have hall : ∀ e ∈ entriesFields [] [] 0 fs, e.ok3 = true := by
    intro e he
    exact List.all_eq_true.mp hok e (by simp [entries, he])
  have hne' : positionedOfEntries (entriesFields [] [] 0 fs) ≠ [] := by
    simpa [positionedNodes, entries, positionedOfEntries] using hne
  obtain ⟨n1, rest, hs⟩ := firstPosSplit_some_of_ne hne'
  refine ⟨n1, rest, hs, ?_⟩
  have hd : dumpP (hashFn t0) [] [] (.node "Module".toList false r none fs) =
      "/_type=Module".toList :: (entriesFields [] [] 0 fs).flatMap (Entry.lines (hashFn t0)) := by
    have := dumpPFields_eq_entries (hashFn t0) [] [] 0 fs
    simp only [encNames, encPath] at this
    simp [dumpP, typeLine, this]
  rw [hd]
  exact wholeSpanMatch_entries (hashFn t0) (eq_not_mem_hashFn t0) _ hall hs

/-- **C02 (`meta/program` exactly once).** Under the same hypotheses `get_bindings` yields exactly one
`whole_span` occurrence (translated to `meta/program` by the row `whole_span(:.+)?`), between the line of the
first positioned node and the line of the last one in dump order (the smaller one first). -/
theorem C02_meta_program_exactly_once (t0 : Val) (r : List Char) (fs : List (List Char × Val))
    (hok : treeOk3 (.node "Module".toList false r none fs) = true)
    (hne : positionedNodes (.node "Module".toList false r none fs) ≠ []) :
    ∃ label n1 n2, wholeSpanBindings? (dumpP (hashFn t0) [] [] (.node "Module".toList false r none fs)) =
      some [(label, ⟨n1, n2, []⟩)] ∧ n1 ≤ n2 := by
  obtain ⟨n1, rest, _, hm⟩ := C02_whole_span_exists t0 r fs hok hne
  unfold wholeSpanBindings?
  rw [hm]
  cases hl : lastPosOfEntries rest with
  | none => exact ⟨"whole_span".toList, n1, n1, by simp [posToSpan_single], Nat.le_refl _⟩
  | some p =>
    obtain ⟨n2, a2⟩ := p
    exact ⟨"whole_span:".toList ++ dec n2, min n1 n2, max n1 n2, by simp [posToSpan_whole],
      Nat.le_trans (Nat.min_le_left _ _) (Nat.le_max_left _ _)⟩

example : treeOk3 sampleIf = true ∧ positionedNodes sampleIf ≠ [] := by decide

example : wholeSpanBindings? (dumpP (hashFn sampleIf) [] [] sampleIf) =
    some [("whole_span:2".toList, ⟨1, 2, []⟩)] := by decide

end Paroxy.Props.C02
