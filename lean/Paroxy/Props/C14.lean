/-
C14 — One bad file never aborts tagging or collecting.

Property theorems only, about the exception-flow skeleton `Paroxy.Collect.collect` / `tagMain`
(Model/Collect.lean) for ALL behaviours of `clean`, for the behaviours of `parse` / `features` allowed
by the explicit hypotheses `ParseCaught` / `FeaturesTotal` (which assume what the code relies on), all
directories and all taxonomies. What CPython's tokenizer and parser actually raise on a given text is
outside the model: the harness records it and the model predicts abort vs record.

Since fix c7d362e (`Cleanup.safe_full_cleaning` absorbs every exception of the cleaning) the full
statement `C14_every_file_reported` is a theorem: no hypothesis on `clean` at all.
-/
import Paroxy.Proofs.Collect
import Paroxy.Props.C11
import Paroxy.Props.C09
import Paroxy.Proofs.MetaAstRow
namespace Paroxy.Props.C14
open Paroxy Paroxy.DB Paroxy.Collect

variable {Tree : Type} {X : Ext Tree} {toTaxa : Name → List Label → List Taxon}
  {files : List (Name × Name)}

/-- **C14 (abort or record).** `collect` returns a database exactly when the parser wrapper raises on
no file — whatever `clean` does (fix c7d362e: an exception of the cleaning is absorbed) and whatever the
labels name (fix 0c1b93c: no `KeyError` any more). -/
theorem C14_collect_ok_iff :
    (∃ db, collect X toTaxa files = .ok db) ↔ ParseOk X (files.map fun f => (f.1, srcOf X f)) := by
  constructor
  · rintro ⟨db, h⟩
    exact (collect_ok h).1
  · intro hp
    obtain ⟨db, hm⟩ := C11.C11_total (toTaxa := toTaxa) (progs := progsOf X files)
    exact ⟨db, collect_of hp hm⟩

/-- **C14 (every file reported).** For all files and ALL behaviours of `clean` (it may raise anything)
and of `parse` (raising only the classes the code catches), `collect` returns a database with exactly
one record per file, in order; the record of a file whose `parse` — or, for a valid non-empty program,
whose flattening (fix d1e6a10) — fails with `E` holds the single label
`ast_construction:E` on lines `1..(number of newlines + 1)` and, as taxa, the taxonomy's answer on that
single label; an empty file likewise with `EmptyProgramError` (same lines, fix 57ac228). -/
theorem C14_every_file_reported (hp : ParseCaught X) (hfl : FlattenCaught X) (hf : FeaturesTotal X)
    (hn : (files.map (·.1)).Nodup) :
    ∃ db, collect X toTaxa files = .ok db ∧ Reported X toTaxa files db := by
  obtain ⟨db, hm⟩ := C11.C11_total (toTaxa := toTaxa) (progs := progsOf X files)
  have hpo : ParseOk X (files.map fun f => (f.1, srcOf X f)) :=
    fun f _ => parseProgram_total hp hfl hf f.2
  refine ⟨db, collect_of hpo hm, ?_⟩
  have hpaths : pathsOf (progsOf X files) = files.map (·.1) := by
    simp [pathsOf, progsOf, progOf, List.map_map, Function.comp_def]
  have hn' : (pathsOf (progsOf X files)).Nodup := by rw [hpaths]; exact hn
  obtain ⟨hprog, -⟩ := C11.C11_records hm hn'
  refine ⟨?_, ?_⟩
  · rw [hprog]
    simp [keys, progsOf, progOf, List.map_map, Function.comp_def]
  · intro f hfm
    have hmem : progOf X f ∈ progsOf X files := List.mem_map.mpr ⟨f, hfm, rfl⟩
    refine ⟨recordOf toTaxa (internalOf (progsOf X files)) (progOf X f), ?_, rfl, ?_, ?_, ?_⟩
    · rw [hprog]
      apply get?_of_mem_nodup
      · simpa [keys, pathsOf, List.map_map, Function.comp_def] using hn'
      · exact List.mem_map.mpr ⟨progOf X f, hmem, rfl⟩
    · intro e he
      obtain ⟨hcaught, hcolon⟩ := hp _ e he
      have hl : labelsOf (internalOf (progsOf X files)) (progOf X f) =
          [astLabel e.name (srcOf X f)] := by
        simp only [labelsOf, progOf, labelsD, parseProgram_invalid he hcaught, relabel,
          List.map_cons, List.map_nil]
        simp only [astLabel, relabelName_ast _ hcolon]
      simp only [recordOf, hl, preparedLabels_single, astLabel, preparedSpans_single, Span3.poor]
      constructor <;> first | rfl | trivial
    · intro t e ht hne hfe
      obtain ⟨hcaught, hcolon⟩ := hfl _ t e hfe
      have hl : labelsOf (internalOf (progsOf X files)) (progOf X f) =
          [astLabel e.name (srcOf X f)] := by
        simp only [labelsOf, progOf, labelsD, parseProgram_unflattenable ht hne hfe hcaught, relabel,
          List.map_cons, List.map_nil]
        simp only [astLabel, relabelName_ast _ hcolon]
      simp only [recordOf, hl, preparedLabels_single, astLabel, preparedSpans_single, Span3.poor]
      constructor <;> first | rfl | trivial
    · intro t ht hemp
      have hl : labelsOf (internalOf (progsOf X files)) (progOf X f) = [emptyLabel (srcOf X f)] := by
        simp only [labelsOf, progOf, labelsD, parseProgram_empty ht hemp, relabel,
          List.map_cons, List.map_nil]
        simp only [emptyLabel, astLabel, relabelName_ast _ sEmpty_noColon]
      simp only [recordOf, hl, preparedLabels_single, emptyLabel, astLabel, preparedSpans_single,
        Span3.poor]
      constructor <;> first | rfl | trivial

/-- **C14 (a raising `clean` is harmless).** When the cleaning raises on a file, the stored source of
that file is the uncleaned text (after hint handling), and the file is reported like any other — by
`C14_every_file_reported`, which has no hypothesis on `clean`. -/
theorem C14_clean_raise_fallback {f : Name × Name} {e : Exc} (he : X.clean f.2 = .error e) :
    srcOf X f = X.prepare f.2 := by
  simp only [srcOf, cleanD, safeClean, he]
  cases X.parse f.2 <;> rfl

/-- **C14 (cleaning never repairs an invalid content — fix F48).** When the raw content of a file is not
valid Python (`parse` fails on it), the cleaning is not applied at all: the stored source is the raw text
after hint handling, WHATEVER `clean` is — i.e. the same under `--cleanup full` and `--cleanup none`. -/
theorem C14_raw_invalid_uncleaned {f : Name × Name} {e : Exc} (h : X.parse f.2 = .error e) :
    srcOf X f = X.prepare f.2 := by
  simp only [srcOf, cleanD, safeClean, h]

/-- **C14 (invalid content ⇒ single error label, under both strategies).** For a file whose raw content is
not valid Python, and is still not once its blank ends are stripped and its (absent) hints handled
(`prepare`; see the note on `get_program`'s `strip()`), the record holds the single label
`ast_construction:<E>` of THAT text and the taxonomy's answer on it — with no caveat on the cleaning:
`clean` does not appear in the statement. -/
theorem C14_invalid_content_reported (hp : ParseCaught X) (hfl : FlattenCaught X) (hf : FeaturesTotal X)
    (hn : (files.map (·.1)).Nodup) {f : Name × Name} (hfm : f ∈ files) {e e' : Exc}
    (hraw : X.parse f.2 = .error e) (hprep : X.parse (X.prepare f.2) = .error e') :
    ∃ db r, collect X toTaxa files = .ok db ∧ get? db.programs f.1 = some r ∧
      r.source = X.prepare f.2 ∧
      r.labels = [(sAst ++ e'.name, [(1, (((X.prepare f.2).count 10 : Nat) : Int) + 1)])] ∧
      r.taxa = preparedTaxa (toTaxa f.1 [astLabel e'.name (X.prepare f.2)]) := by
  obtain ⟨db, hdb, -, hrep⟩ := C14_every_file_reported (toTaxa := toTaxa) hp hfl hf hn
  obtain ⟨r, hr, hsrc, hinv, -, -⟩ := hrep f hfm
  have hs := C14_raw_invalid_uncleaned (X := X) hraw
  rw [hs] at hsrc hinv
  obtain ⟨h1, h2⟩ := hinv e' hprep
  exact ⟨db, r, hdb, hr, hsrc, h1, h2⟩

def exPath : Name := [97, 46, 112, 121] -- "a.py"
def tokenError : Exc := { name := [84, 111, 107, 101, 110, 69, 114, 114, 111, 114], caught := false }

/-- The witness of the repaired finding F06: one file, a tokenizer that raises `TokenError`. -/
def badExt : Ext Unit :=
  { clean := fun _ => .error tokenError, prepare := id, parse := fun _ => .ok (),
    isEmpty := fun _ => true, flatten := fun _ _ => .ok (), features := fun _ _ => .ok [] }

/-- Non-vacuity: the externals of the former counterexample (every cleaning raises `TokenError`)
satisfy all the hypotheses, so the file is reported. -/
example : ∃ db, collect badExt (fun _ _ => []) [(exPath, [])] = .ok db ∧
    Reported badExt (fun _ _ => []) [(exPath, [])] db :=
  C14_every_file_reported (fun src e he => by simp [badExt] at he)
    (fun src t e he => by simp [badExt] at he) (fun src t => ⟨[], rfl⟩) (by decide)

/-- **C14 (others unaffected).** Removing a file `b` from the directory does not change the record of
any other file `g`, provided no label of `g` names `b`'s module (the relabelling of internal imports
is the only coupling between programs). -/
theorem C14_others_unaffected {db db' : Db} {b : Name}
    (h : collect X toTaxa files = .ok db)
    (h' : collect X toTaxa (files.filter fun f => decide (f.1 ≠ b)) = .ok db')
    (hn : (files.map (·.1)).Nodup) :
    ∀ g ∈ files, g.1 ≠ b → NotImporting X g b →
      get? db'.programs g.1 = get? db.programs g.1 := by
  intro g hg hgb hni
  obtain ⟨-, hm⟩ := collect_ok h
  obtain ⟨-, hm'⟩ := collect_ok h'
  have hpaths : ∀ fs : List (Name × Name), pathsOf (progsOf X fs) = fs.map (·.1) := by
    intro fs; simp [pathsOf, progsOf, progOf, List.map_map, Function.comp_def]
  have hn1 : (pathsOf (progsOf X files)).Nodup := by rw [hpaths]; exact hn
  have hn2 : (pathsOf (progsOf X (files.filter fun f => decide (f.1 ≠ b)))).Nodup := by
    rw [hpaths]
    exact List.Nodup.sublist (List.filter_sublist.map _) hn
  obtain ⟨hprog, -⟩ := C11.C11_records hm hn1
  obtain ⟨hprog', -⟩ := C11.C11_records hm' hn2
  have hg' : g ∈ files.filter fun f => decide (f.1 ≠ b) :=
    List.mem_filter.mpr ⟨hg, by simpa using hgb⟩
  have e1 : get? db.programs g.1 =
      some (recordOf toTaxa (internalOf (progsOf X files)) (progOf X g)) := by
    rw [hprog]
    apply get?_of_mem_nodup
    · simpa [keys, pathsOf, List.map_map, Function.comp_def] using hn1
    · exact List.mem_map.mpr ⟨progOf X g, List.mem_map.mpr ⟨g, hg, rfl⟩, rfl⟩
  have e2 : get? db'.programs g.1 =
      some (recordOf toTaxa (internalOf (progsOf X (files.filter fun f => decide (f.1 ≠ b))))
        (progOf X g)) := by
    rw [hprog']
    apply get?_of_mem_nodup
    · simpa [keys, pathsOf, List.map_map, Function.comp_def] using hn2
    · exact List.mem_map.mpr ⟨progOf X g, List.mem_map.mpr ⟨g, hg', rfl⟩, rfl⟩
  rw [e1, e2]
  have hint : internalOf (progsOf X (files.filter fun f => decide (f.1 ≠ b))) =
      internalPaths ((pathsOf (progsOf X files)).filter fun p => decide (p ≠ b)) := by
    unfold internalOf
    rw [progsOf_filter, pathsOf_filter]
    rfl
  have hlab : labelsOf (internalOf (progsOf X (files.filter fun f => decide (f.1 ≠ b)))) (progOf X g) =
      labelsOf (internalOf (progsOf X files)) (progOf X g) := by
    rw [hint]
    unfold labelsOf relabel internalOf
    apply List.map_congr_left
    intro l hl
    have := relabelName_filter (paths := pathsOf (progsOf X files)) (b := b) (n := l.name)
      (hni l hl)
    simp only [pathsOf] at this ⊢
    rw [this]
  unfold recordOf
  rw [hlab]

/-- **C14 (what changes for an importer of the removed file).** The proviso `NotImporting` of
`C14_others_unaffected` is not decoration: a label `n` of another program that names the module of `b`
(`searchImport? n = some m`, `m` as a path `= b`) is relabelled `import_internally:…` (every `.` a `/`)
while `b` is collected, and is left as it is (`import:…`) once `b` is removed — hence, through the
taxonomy, `import/personal` vs `import/third_party/…`, and through `C11_importations`,
`importations` with vs without `b`. The property text has no such proviso: this is the recorded
finding F38 (notes/findings/C14-importer-of-bad-file.md), reported by the harness under a narrow signature. -/
theorem C14_importer_relabel {paths : List Name} {b n m : Name} (hb : b ∈ paths) (hne : b ≠ sPy)
    (hs : searchImport? n = some m) (hm : replaceChar cDot cSlash m ++ sPy = b) :
    relabelName (internalPaths paths) n = replaceChar cDot cSlash (tweakFirstColon n) ∧
    relabelName (internalPaths (paths.filter fun p => decide (p ≠ b))) n = n := by
  unfold relabelName
  rw [hs]
  simp only
  constructor
  · rw [if_pos]
    rw [hm]; exact mem_internalPaths.mpr (Or.inl hb)
  · rw [if_neg]
    rw [hm, mem_internalPaths]
    rintro (h | h)
    · have := (List.mem_filter.mp h).2
      simp at this
    · exact hne h

/-- Non-vacuity of `C14_others_unaffected`: two files (both cleaned by a raising tokenizer, both parsed
to an empty module); removing `b.py` leaves the record of `a.py` unchanged. Both collections succeed and
`NotImporting` holds (the only label of `a.py` is `ast_construction:EmptyProgramError`). -/
example : ∃ db db', collect badExt (fun _ _ => []) [(exPath, []), ([98, 46, 112, 121], [])] = .ok db ∧
    collect badExt (fun _ _ => [])
      ([(exPath, []), ([98, 46, 112, 121], [])].filter fun f => decide (f.1 ≠ [98, 46, 112, 121])) = .ok db' ∧
    get? db'.programs exPath = get? db.programs exPath := by
  have hp : ParseCaught badExt := fun src e he => by simp [badExt] at he
  have hf : FeaturesTotal badExt := fun src t => ⟨[], rfl⟩
  have hfl : FlattenCaught badExt := fun src t e he => by simp [badExt] at he
  obtain ⟨db, h, -⟩ := C14_every_file_reported (toTaxa := fun _ _ => []) hp hfl hf
    (files := [(exPath, []), ([98, 46, 112, 121], [])]) (by decide)
  obtain ⟨db', h', -⟩ := C14_every_file_reported (toTaxa := fun _ _ => []) hp hfl hf
    (files := [(exPath, []), ([98, 46, 112, 121], [])].filter fun f => decide (f.1 ≠ [98, 46, 112, 121]))
    (by decide)
  refine ⟨db, db', h, h', ?_⟩
  apply C14_others_unaffected h h' (by decide) (exPath, []) (by simp) (by decide)
  intro l hl m hs
  have : labelsD badExt (srcOf badExt (exPath, [])) = [emptyLabel (srcOf badExt (exPath, []))] := by
    simp [labelsD, parseProgram, badExt]
  rw [this, List.mem_singleton] at hl
  rw [hl] at hs
  have hnone : searchImport? (emptyLabel (srcOf badExt (exPath, []))).name = none := by
    simp only [emptyLabel, astLabel]
    exact searchImport?_ast sEmpty_noColon
  rw [hnone] at hs; cases hs

/-- **C14 (the closure terminates).** `complete_and_collect_importations` is a total function of the
dictionary of direct importations — accepted by Lean through the termination measure
(unvisited keys, stack length) of `closureLoop`, for every graph (cycles, self-imports, dangling
targets) — and its value at `p` is the set of nodes reachable from `p` in one or more steps. In
particular no `RecursionError` is among the behaviours of `collect`. -/
theorem C14_closure_terminates (d : List (Name × List Name)) :
    keys (completeImportations d) = keys d ∧
    ∀ p ∈ keys d, ∃ l, get? (completeImportations d) p = some l ∧ StrictSorted l ∧
      ∀ q, q ∈ l ↔ Relation.TransGen (Direct d) p q := by
  refine ⟨keys_completeImportations d, ?_⟩
  intro p hp
  obtain ⟨v, hv⟩ := get?_isSome.mpr hp
  refine ⟨sortU (closureOf d p), by rw [get?_completeImportations, hv]; rfl,
    strictSorted_sortU _, ?_⟩
  intro q
  rw [mem_sortU, mem_closureOf, reach_iff_transGen]

/-- **C14 (`tag` reports).** `cli_tag.main` does not clean: whenever `parse` raises only classes the
code catches (and the feature search does not raise), it returns; invalid text gives the single label
`ast_construction:<E>`, an empty module `ast_construction:EmptyProgramError`, and the taxa are the
taxonomy's answer on that single label. -/
theorem C14_tag_reports (hp : ParseCaught X) (hfl : FlattenCaught X) (hf : FeaturesTotal X) (src : Name) :
    (∃ r, tagMain X toTaxa src = .ok r) ∧
    (∀ e, X.parse (X.prepare src) = .error e →
      tagMain X toTaxa src = .ok ([astLabel e.name (X.prepare src)],
        toTaxa [] [astLabel e.name (X.prepare src)])) ∧
    (∀ t, X.parse (X.prepare src) = .ok t → X.isEmpty t = true →
      tagMain X toTaxa src = .ok ([emptyLabel (X.prepare src)],
        toTaxa [] [emptyLabel (X.prepare src)])) := by
  refine ⟨?_, ?_, ?_⟩
  · obtain ⟨ls, hls⟩ := parseProgram_total hp hfl hf (X.prepare src)
    exact ⟨_, by unfold tagMain; rw [hls]⟩
  · intro e he
    unfold tagMain
    rw [parseProgram_invalid he (hp _ e he).1]
  · intro t ht hemp
    unfold tagMain
    rw [parseProgram_empty ht hemp]

/-- Non-vacuity of `C14_tag_reports`: externals whose parser only raises `SyntaxError` (a caught class)
satisfy the hypotheses, and `tag` then reports the single label `ast_construction:SyntaxError`. -/
def syntaxErrorExt : Ext Unit :=
  { clean := fun s => .ok s, prepare := id,
    parse := fun _ => .error { name := [83, 121, 110, 116, 97, 120, 69, 114, 114, 111, 114], caught := true },
    isEmpty := fun _ => false, flatten := fun _ _ => .ok (), features := fun _ _ => .ok [] }

example : tagMain syntaxErrorExt (fun _ ls => [{ name := [109], spans := (ls.flatMap (·.spans)) }]) [120, 10] =
    .ok ([astLabel [83, 121, 110, 116, 97, 120, 69, 114, 114, 111, 114] [120, 10]],
         [{ name := [109], spans := [(1, 2, [])] }]) := by
  have h := (C14_tag_reports (X := syntaxErrorExt)
    (toTaxa := fun _ ls => [{ name := [109], spans := (ls.flatMap (·.spans)) }])
    (fun src e he => by
      simp only [syntaxErrorExt, Except.error.injEq] at he
      rw [← he]; exact ⟨rfl, by decide⟩)
    (fun src t e he => by simp [syntaxErrorExt] at he)
    (fun src t => ⟨[], rfl⟩) [120, 10]).2.1 _ rfl
  rw [h]
  rfl

/-! ### The taxon clause, with the real table (`Gen.TaxonomyCodes` is regenerated from taxonomy.tsv) -/

section MetaAst
open Paroxy.Taxo Paroxy.Spec.Taxo Paroxy.MetaAst

/-- **C14 (single taxon `meta/ast/<ErrorName>`), on the default taxonomy.** Let `rows` be the default
table as `Taxonomy.__init__` reads it. Under oracle agreement on that row — the regex engine says that
`ast_construction:(.+)` matches the label `ast_construction:<E>` entirely and expands `meta/ast/\1` to
`meta/ast/<E>`; the label does not "look like a taxon"; no OTHER row applies to it (three facts about
the `regex` engine, evaluated with the real engine by the harness for every error name met) — the
translation of the single label of an invalid (or empty) program is exactly the taxon `meta/ast/<E>`,
in every state of the taxonomy instance (`C09_same_on_every_call`). The membership of the row in the
table is NOT a hypothesis: it is `astLine_in_default_table`. -/
theorem C14_meta_ast (o : Oracle) (rows : List Row) (E : Str)
    (hrows : parseTsv defaultText = .ok rows)
    (hlooks : o.looks (astPrefix ++ E) = false)
    (hfull : o.full astRow (astPrefix ++ E) = some (metaAstPrefix ++ E))
    (hothers : ∀ r ∈ rows, r ≠ astRow → rowResult o r (astPrefix ++ E) = none) :
    astRow ∈ rows ∧ ∀ x, x ∈ translate o rows (astPrefix ++ E) ↔ x = metaAstPrefix ++ E := by
  have hmem : astRow ∈ rows := by
    unfold parseTsv Taxo.parseAll at hrows
    split at hrows
    · simp only [Except.ok.injEq] at hrows
      rw [← hrows, ← astRow_of_line.1]
      apply List.mem_map_of_mem
      have h1 : astLine ∈ rawLines defaultText := by
        have := astLine_in_default_table
        simpa using this
      exact (List.mergeSort_perm _ _).mem_iff.mpr h1
    · cases hrows
  refine ⟨hmem, fun x => ?_⟩
  rw [C09.C09_exact]
  have hrow : rowResult o astRow (astPrefix ++ E) = some (metaAstPrefix ++ E) := by
    unfold rowResult
    rw [astRow_of_line.2]
    simpa using hfull
  constructor
  · rintro (⟨hl, -⟩ | ⟨-, r, hr, hres⟩)
    · rw [hlooks] at hl; cases hl
    · by_cases hra : r = astRow
      · rw [hra, hrow] at hres
        simp only [Option.some.injEq] at hres
        exact hres.symm
      · rw [hothers r hr hra] at hres; cases hres
  · intro hx
    exact Or.inr ⟨hlooks, astRow, hmem, by rw [hrow, hx]⟩

end MetaAst

end Paroxy.Props.C14
