/-
C05 — A negated triple selects programs having an unmatched subject span.

`MeetsNegTriple` (Spec/Filter.lean) is the property's wording: the program has an occurrence
`s1` of a taxon matching `p1` such that no *other* occurrence `s2` of a taxon matching `p2`
satisfies `R(s1, s2)`. The model mirrors `programs_of_negated_triple` as repaired by the `fix:`
commit 36d3c6b (the original code violated this property; see known_findings.json F01).
-/
import Paroxy.Proofs.Filter
import Paroxy.Proofs.NormalizePredicate
import Paroxy.Props.C08
namespace Paroxy.Props.C05
open Paroxy Paroxy.Filter Paroxy.Spec

variable (c : Ctx) (r : Relations)

/-- **C05.** The programs a negated triple contributes are exactly those meeting the
specification — every well-formed database, every oracle, every relation. -/
theorem C05_negated (wf : c.WF) (p1 raw p2 : Codes) (pred : Span → Span → Bool)
    (hp : r.predicate raw = .ok (pred, true)) (S : List Codes)
    (h : criterionPrograms c r false (.triple p1 raw p2) = .ok S) (p : Codes) :
    p ∈ S ↔ MeetsNegTriple c p1 pred p2 p := by
  have := criterionPrograms_include c wf r (.triple p1 raw p2) S h p
  simpa [Meets, hp] using this

/-- … and so `include [(p1, not R, p2)]` keeps exactly the selected programs meeting it. -/
theorem C05_include_negated (wf : c.WF) (st st' : State) (p1 raw p2 : Codes) (pred : Span → Span → Bool)
    (hp : r.predicate raw = .ok (pred, true))
    (h : updateFilter c r st [.triple p1 raw p2] .include false = .ok st') (p : Codes) :
    p ∈ st'.selected ↔ p ∈ st.selected ∧ MeetsNegTriple c p1 pred p2 p := by
  have := (include_any_spec c wf r st st' _ h).1 p
  simpa [Meets, hp] using this

/-- A program featuring `p1` and nothing matching `p2` meets the negated triple. -/
theorem C05_no_object (p1 p2 : Codes) (pred : Span → Span → Bool) (p t1 : Codes) (i : Nat) (s1 : Span)
    (hm : c.orc.matchTaxon p1 t1 = true) (ho : Occ c p t1 i s1)
    (hnone : ∀ t2 j s2, c.orc.matchTaxon p2 t2 = true → ¬ Occ c p t2 j s2) :
    MeetsNegTriple c p1 pred p2 p :=
  ⟨t1, i, s1, hm, ho, fun t2 j s2 hm2 ho2 _ => absurd ho2 (hnone t2 j s2 hm2)⟩

/-- A program where the only candidate `s2` is the occurrence `s1` itself meets it, whatever `R`. -/
theorem C05_self_only (p1 p2 : Codes) (pred : Span → Span → Bool) (p t1 : Codes) (i : Nat) (s1 : Span)
    (hm : c.orc.matchTaxon p1 t1 = true) (ho : Occ c p t1 i s1)
    (honly : ∀ t2 j s2, c.orc.matchTaxon p2 t2 = true → Occ c p t2 j s2 → t1 = t2 ∧ i = j) :
    MeetsNegTriple c p1 pred p2 p :=
  ⟨t1, i, s1, hm, ho, fun t2 j s2 hm2 ho2 hne => absurd (honly t2 j s2 hm2 ho2) hne⟩

/-- The relations as the real filter sees them: the generated dictionary and table. -/
def genRelations : Relations := { names := NP.names, table := Gen.table }

/-- Any `!`-negated formula spelling (arbitrary junk, see C16) of any of the 162 keys denotes,
negated, exactly the chain that key spells (C08): the relation a negated triple tests is the
intended one. -/
theorem C05_negation_spelling (k : Key) (hk : k ∈ allKeys) (st : Spec.NP.FormulaStyle)
    (hj : st.junkOk = true) (a b : Nat) :
    ∃ pred, genRelations.predicate
        (List.replicate a 32 ++ 33 :: List.replicate b 32 ++ Spec.NP.renderFormula k st) =
          .ok (pred, true) ∧ ∀ x y : Span, pred x y = true ↔ k.Holds x y := by
  obtain ⟨e, he, hm⟩ := C08.C08_meaning k hk
  refine ⟨fun x y => e.holds x y, ?_, hm⟩
  unfold Relations.predicate genRelations
  simp only [NP.normalize_formula_bang k hk st hj a b, he]

/-- The same for the plain (positive) spelling. -/
theorem C05_positive_spelling (k : Key) (hk : k ∈ allKeys) (st : Spec.NP.FormulaStyle)
    (hj : st.junkOk = true) :
    ∃ pred, genRelations.predicate (Spec.NP.renderFormula k st) = .ok (pred, false) ∧
      ∀ x y : Span, pred x y = true ↔ k.Holds x y := by
  obtain ⟨e, he, hm⟩ := C08.C08_meaning k hk
  refine ⟨fun x y => e.holds x y, ?_, hm⟩
  unfold Relations.predicate genRelations
  simp only [NP.normalize_formula k hk st hj, he]

open Paroxy.Spec.NP Paroxy.NP in
/-- The same for the NAMED relations: every case spelling of each of the 13 Allen names and 6 synonyms,
under every decoration of the specification's list (`not `, `is not `, `!`, ` not`, … or none), denotes
— negated exactly when the decoration says so — the chain of the key the manual gives for that name
(C16 for the spelling, C08 for the meaning). `("meta/program", "not contains", X)` is an instance. -/
theorem C05_named_relation (n : Codes) (k : Key) (h : (n, k) ∈ aliases) (d : Str × Str × Bool)
    (hd : d ∈ decorations) (mask : List Bool) :
    ∃ pred, genRelations.predicate (d.1 ++ renderName n mask ++ d.2.1) = .ok (pred, d.2.2) ∧
      ∀ x y : Span, pred x y = true ↔ k.Holds x y := by
  have hk : k ∈ allKeys := by
    have : aliases.all (fun p => p.2.balanced) = true := by decide +kernel
    exact (mem_allKeys k).mpr (List.all_eq_true.mp this (n, k) h)
  obtain ⟨e, he, hm⟩ := C08.C08_meaning k hk
  refine ⟨fun x y => e.holds x y, ?_, hm⟩
  unfold Relations.predicate genRelations
  simp only [NP.name_spec_decorated n k h d hd mask, he]

end Paroxy.Props.C05
