import Driver.Util
import Paroxy.Model.CompareSpans
import Paroxy.Spec.CompareSpans
import Paroxy.Gen.CompareSpans
open Lean Paroxy

namespace Driver.C08

def modelTable : Option (List (Codes × PyExpr)) := applyUpdates Gen.table Gen.updates

def envOfList : List Int → Except String Env
  | [a, b, c, d] => pure fun | .x0 => a | .x1 => b | .y0 => c | .y1 => d
  | _ => throw "env must have 4 integers"

def evalAll (e : PyExpr) (envs : Array Json) : Except String Json := do
  let rs ← envs.toList.mapM fun j => do
    let l ← intList j
    let ρ ← envOfList l
    pure (e.eval ρ)
  pure (Json.mkObj [("r", Json.str (bits rs))])

/-- `c08.model`: the generated table (after the alias updates) evaluated on the given environments. -/
def model : Handler := fun j => do
  let name ← getStr j "name"
  let envs ← getArr j "envs"
  match modelTable with
  | none => pure (Json.mkObj [("exc", "KeyError")])
  | some d =>
    match dictGet? d (codesOf name) with
    | none => pure (Json.mkObj [("exc", "KeyError")])
    | some e => evalAll e envs

/-- `c08.spec`: the chain spelled by the key the specification gives for that name. -/
def spec : Handler := fun j => do
  let name ← getStr j "name"
  let envs ← getArr j "envs"
  match dictGet? Spec.allNames (codesOf name) with
  | none => pure (Json.mkObj [("exc", "KeyError")])
  | some kc =>
    match Spec.parseKey kc with
    | none => throw "spec key does not parse"
    | some k => evalAll k.chain envs

/-- `c08.names`: the names known to the model (in dictionary order) and to the specification. -/
def names : Handler := fun _ => do
  let m := match modelTable with
    | some d => d.map fun (p : Codes × PyExpr) => Json.str (strOf p.1)
    | none => []
  let s := Spec.allNames.map fun p => Json.arr #[Json.str (strOf p.1), Json.str (strOf p.2)]
  pure (Json.mkObj [("model", Json.arr m.toArray), ("spec", Json.arr s.toArray),
    ("translatorOk", Json.bool Gen.translatorOk),
    ("converses", Json.arr (Spec.converses.map fun p => Json.arr #[Json.str (strOf p.1), Json.str (strOf p.2)]).toArray)])

def handlers : List (String × Handler) :=
  [("c08.model", model), ("c08.spec", spec), ("c08.names", names)]

end Driver.C08
