import Driver.Util
import Paroxy.Model.Cli
open Lean Paroxy Paroxy.Cli

namespace Driver.C18

def txt (t : Str) : Json := Json.str (String.ofList t)
def pathJson (p : PPath) : Json := txt p.render

def optStr (j : Json) (k : String) : Str :=
  match j.getObjVal? k with
  | .ok (Json.str s) => s.toList
  | _ => []

def optBool (j : Json) (k : String) : Bool :=
  match j.getObjVal? k with
  | .ok (Json.bool b) => b
  | _ => false

/-- The world is sent as the listing of a scratch tree: absolute paths of its directories and files,
the current directory, the pipeline files `literal_eval` rejects and the unreadable files. -/
def worldOf (j : Json) : Except String World := do
  let wj ← j.getObjVal? "world"
  let dirs ← strList (← wj.getObjVal? "dirs")
  let files ← strList (← wj.getObjVal? "files")
  let bad ← strList (← wj.getObjVal? "badPipes")
  let unreadable ← strList (← wj.getObjVal? "unreadable")
  let cwd := (PPath.parse (optStr wj "cwd")).parts
  let norm := fun (s : String) => (PPath.parse s.toList).resolve cwd
  let dirs := dirs.map norm
  let files := files.map norm
  let bad := bad.map norm
  let unreadable := unreadable.map norm
  pure {
    isDir := fun p => dirs.contains (p.resolve cwd)
    isFile := fun p => files.contains (p.resolve cwd)
    pipelineParses := fun p => !bad.contains (p.resolve cwd)
    readable := fun p => files.contains (p.resolve cwd) && !unreadable.contains (p.resolve cwd)
    cwd := cwd }

def exitJson : Exit → Json
  | .noDirectory => "noDirectory"
  | .noDbPath => "noDbPath"
  | .noDatabase => "noDatabase"
  | .malformedPipeline => "malformedPipeline"
  | .noPipeline => "noPipeline"
  | .unreadable => "unreadable"

def outcomeJson {α : Type} (f : α → Json) : Outcome α → Json
  | .exit e => Json.mkObj [("exit", exitJson e)]
  | .raises exc => Json.mkObj [("raises", txt exc)]
  | .run p => Json.mkObj [("plan", f p)]

def optPath : Option PPath → Json
  | some p => pathJson p
  | none => Json.null

def collect : Handler := fun j => do
  let w ← worldOf j
  let aj ← j.getObjVal? "args"
  let a : CollectArgs := {
    directory := optStr aj "DIRECTORY", taxonomy := optStr aj "--taxonomy", cleanup := optStr aj "--cleanup",
    skip := optStr aj "--skip", glob := optStr aj "--glob", output := optStr aj "--output",
    log := optBool aj "--log", noTimestamp := optBool aj "--no_timestamp" }
  pure <| outcomeJson (fun (p : CollectPlan) => Json.mkObj [
    ("directory", pathJson p.directory), ("ignore_timestamps", Json.bool p.ignoreTimestamps),
    ("cleanup_strategy", txt p.cleanup), ("skip_pattern", txt p.skip), ("glob_pattern", txt p.glob),
    ("print_performances", Json.bool p.printPerformances), ("taxonomy_path", optPath p.taxonomy),
    ("out", match p.out with
      | .json q => Json.arr #["json", pathJson q]
      | .sqlite q => Json.arr #["sqlite", pathJson q]
      | .nothing => Json.arr #["nothing", Json.null])]) (collectPlan a w)

def recommend : Handler := fun j => do
  let w ← worldOf j
  let aj ← j.getObjVal? "args"
  let a : RecArgs := {
    dbPath := optStr aj "DB_PATH", base := optStr aj "--base", cost := optStr aj "--cost",
    output := optStr aj "--output", pipe := optStr aj "--pipe", format := optStr aj "--format" }
  pure <| outcomeJson (fun (p : RecPlan) => Json.mkObj [
    ("db", pathJson p.db), ("announced_db", Json.bool p.announcedDb), ("prefix", txt p.pfx),
    ("pipe", match p.pipe with
      | .file q => pathJson q
      | .empty => Json.null),
    ("base_path", pathJson p.base), ("assessment_strategy", txt p.cost), ("title_format", txt p.titleFormat),
    ("messages_on_stderr", Json.bool p.messagesOnStderr),
    ("out", match p.out with
      | .stdout => Json.null
      | .file q => pathJson q)]) (recommendPlan a w)

def tag : Handler := fun j => do
  let w ← worldOf j
  let aj ← j.getObjVal? "args"
  let a : TagArgs := {
    filename := optStr aj "FILENAME", format := optStr aj "--format", taxonomy := optStr aj "--taxonomy",
    labels := optBool aj "--labels" }
  pure <| outcomeJson (fun (p : TagPlan) => Json.mkObj [
    ("file", pathJson p.file), ("tags", if p.labelsNotTaxa then "Label" else "Taxon"),
    ("relative_path", pathJson p.relativePath), ("output_format", if p.markdown then "md" else "tsv"),
    ("taxonomy_path", optPath p.taxonomy)]) (tagPlan a w)

/-- `c18.model.select`: `paths` (what glob returned, any order) and `skips` (the regex engine's
`fullmatch(skip, name)` for each of them, in the same order). -/
def select : Handler := fun j => do
  let paths ← strList (← j.getObjVal? "paths")
  let skips ← (← getArr j "skips").toList.mapM fun x => x.getBool?
  let ps := paths.map fun s => PPath.parse s.toList
  let table := ps.zip skips
  -- the oracle is a function of the NAME: first answer recorded for that name
  let skipFn := fun (name : Str) => ((table.find? fun (p, _) => p.name == name).map (·.2)).getD false
  pure (Json.mkObj [("r", Json.arr ((selectPrograms ps skipFn).map pathJson).toArray)])

/-- `c18.spec.names`: prefix and default-skip answers for names; effective patterns. -/
def names : Handler := fun j => do
  let ns ← strList (← j.getObjVal? "names")
  pure (Json.mkObj [
    ("prefix", Json.arr (ns.map fun n => txt (prefixOf n.toList)).toArray),
    ("defaultSkips", Json.arr (ns.map fun n => Json.bool (defaultSkips n.toList)).toArray),
    ("defaultGlob", txt defaultGlob), ("defaultSkip", txt defaultSkip)])

/-- `c18.model.paths`: the pathlib model on strings. -/
def paths : Handler := fun j => do
  let ss ← strList (← j.getObjVal? "paths")
  let cwd := (PPath.parse (optStr j "cwd")).parts
  pure (Json.mkObj [("r", Json.arr (ss.map fun s =>
    let p := PPath.parse s.toList
    Json.arr #[pathJson p, pathJson p.parent, txt p.name, pathJson (p.resolve cwd)]).toArray)])

def handlers : List (String × Handler) :=
  [("c18.model.collect", collect), ("c18.model.recommend", recommend), ("c18.model.tag", tag),
   ("c18.model.select", select), ("c18.spec.names", names), ("c18.model.paths", paths)]

end Driver.C18
