import Driver.Util
open Lean

namespace Driver.C18

def handlers : List (String × Handler) := []

end Driver.C18
