import Driver.Util
import Paroxy.Model.Taxonomy
import Paroxy.Spec.Taxonomy
import Paroxy.Gen.Taxonomy
import Paroxy.Gen.TaxonomyCodes
import Paroxy.Spec.TaxonomyDefault
import Std.Data.HashMap
open Lean Paroxy Paroxy.Taxo

namespace Driver.C09

def strJ (s : Str) : Json := Json.str (String.ofList s)
def strsJ (l : List Str) : Json := Json.arr (l.map strJ).toArray

/-- The text of the taxonomy: `"default": true` = the translator's copy of resources/taxonomy.tsv. -/
def textOf (j : Json) : Except String Str :=
  match j.getObjValAs? Bool "default" with
  | .ok true => pure Spec.Taxo.defaultText
  | _ => do
    let t ← getStr j "text"
    pure t.toList

/-- `"looks": [L, ...]` and `"oracle": [[L, [[T, P, X], ...]], ...]` as computed by the harness with
`regex.fullmatch` / `Match.expand`. -/
def oracleOf (j : Json) : Except String Oracle := do
  let looks ← (← j.getObjVal? "looks") |> strList
  let looks := looks.map String.toList
  let tab ← getArr j "oracle"
  let tab ← tab.toList.mapM fun e => do
    let p ← e.getArr?
    match p.toList with
    | [l, ms] => do
      let l ← l.getStr?
      let ms ← ms.getArr?
      let ms ← ms.toList.mapM fun m => do
        let q ← strList m
        match q with
        | [t, p, x] => pure ((t.toList, p.toList), x.toList)
        | _ => throw "oracle match must be [T, P, X]"
      pure (l.toList, ms)
    | _ => throw "oracle entry must be [L, matches]"
  let looksSet : Std.HashMap String Unit := looks.foldl (fun m l => m.insert (String.ofList l) ()) {}
  let tabMap : Std.HashMap String (List (Row × Str)) :=
    tab.foldl (fun m e => if m.contains (String.ofList e.1) then m else m.insert (String.ofList e.1) e.2) {}
  pure {
    looks := fun l => looksSet.contains (String.ofList l)
    full := fun r l =>
      match tabMap[String.ofList l]? with
      | some ms => ms.lookup r
      | none => none }

def isLiteralH : Handler := fun j => do
  let p ← getStr j "p"
  pure (Json.mkObj [("r", Json.bool (isLiteral p.toList))])

def parseH : Handler := fun j => do
  let text ← textOf j
  match parseTsv text with
  | .error _ => pure (Json.mkObj [("exc", "ValueError")])
  | .ok rows =>
    pure (Json.mkObj [("ok", Json.arr (rows.map fun r =>
      Json.arr #[strJ r.1, strJ r.2, Json.bool (isLiteral r.2)]).toArray)])

/-- `c09.run`: a history of `get_taxon_name_list` calls on one fresh instance: the state machine's
answers (`model`) and the specification's (`spec`). -/
def runH : Handler := fun j => do
  let text ← textOf j
  let o ← oracleOf j
  let hist ← (← j.getObjVal? "history") |> strList
  let hist := hist.map String.toList
  match parseTsv text with
  | .error _ => pure (Json.mkObj [("exc", "ValueError")])
  | .ok rows =>
    let m := run o (init rows) hist
    let lit := Spec.Taxo.litRows rows
    let rx := Spec.Taxo.rxRows rows
    let s := hist.map (Spec.Taxo.translateSplit o lit rx)
    pure (Json.mkObj [("model", Json.arr (m.map strsJ).toArray), ("spec", Json.arr (s.map strsJ).toArray)])

def bagJ (b : Bag Int) : Json :=
  Json.arr (b.map fun e => Json.arr #[Json.num (JsonNumber.fromInt e.1), Json.num (JsonNumber.fromInt e.2)]).toArray

def taxaJ (t : List (Str × Bag Int)) : Json :=
  Json.arr (t.map fun e => Json.arr #[strJ e.1, bagJ e.2]).toArray

def labelsOf (j : Json) : Except String (List (Str × List Int)) := do
  let a ← j.getArr?
  a.toList.mapM fun e => do
    let p ← e.getArr?
    match p.toList with
    | [l, sp] => do
      let l ← l.getStr?
      let sp ← intList sp
      pure (l.toList, sp)
    | _ => throw "label must be [name, [span ids]]"

/-- `c09.to_taxa`: successive `to_taxa(labels)` calls on one fresh instance. For each: the raw
accumulated bags (`raw`, insertion order), the specification's raw bags (`spec_raw`: for every taxon
some label translates to and every span that occurs, `rawCount`), and the final result. -/
def toTaxaH : Handler := fun j => do
  let text ← textOf j
  let o ← oracleOf j
  let calls ← getArr j "calls"
  let calls ← calls.toList.mapM labelsOf
  match parseTsv text with
  | .error _ => pure (Json.mkObj [("exc", "ValueError")])
  | .ok rows =>
    let lit := Spec.Taxo.litRows rows
    let rx := Spec.Taxo.rxRows rows
    let rec go (st : State) : List (List (Str × List Int)) → List Json
      | [] => []
      | labels :: rest =>
        let p := accumulate o st [] labels
        let fin := match Dedup.deduplicatedTaxa (sortTaxa p.2) with
          | .ok r => Json.mkObj [("ok", taxaJ r)]
          | .error _ => Json.mkObj [("exc", "ValueError")]
        let trs := labels.map fun ls => (Spec.Taxo.translateSplit o lit rx ls.1, ls.2)
        let keys := (trs.flatMap (·.1)).eraseDups
        let spans := (labels.flatMap (·.2)).eraseDups
        let specRaw := keys.map fun t =>
          (t, (spans.map fun s => (s, Spec.Taxo.rawCountT trs t s)).filter fun e => e.2 != 0)
        Json.mkObj [("raw", taxaJ p.2), ("spec_raw", taxaJ specRaw), ("result", fin)] :: go p.1 rest
    pure (Json.mkObj [("calls", Json.arr (go (init rows) calls).toArray)])

/-- `c09.table_ok`: the executable well-formedness check of `C09_table_wf`, and the number of rows. -/
def tableOkH : Handler := fun j => do
  let text ← textOf j
  pure (Json.mkObj [("ok", Json.bool (Spec.Taxo.tableOk text)),
    ("data_lines", Json.num (JsonNumber.fromNat (rawLines text).length)),
    ("translator_ok", Json.bool Gen.taxonomyCodesOk)])

def handlers : List (String × Handler) :=
  [("c09.table_ok", tableOkH), ("c09.is_literal", isLiteralH), ("c09.parse", parseH), ("c09.run", runH), ("c09.to_taxa", toTaxaH)]

end Driver.C09
