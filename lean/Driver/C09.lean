import Driver.Util
open Lean

namespace Driver.C09

def handlers : List (String × Handler) := []

end Driver.C09
