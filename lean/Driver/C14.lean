import Driver.Util
import Driver.C11
import Paroxy.Model.Collect
import Paroxy.Spec.Collect
open Lean Paroxy Paroxy.DB Paroxy.Collect

namespace Driver.C14
open Driver.C11

/-- What the recorded parser did on one stored source. -/
inductive ParseRes
  | empty
  | labels (ls : List Label)
  | featExc (e : Exc)
  | flatExc (e : Exc)

def getExc (j : Json) : Except String Exc := do
  let n ← getName (← j.getObjVal? "exc")
  let c ← (← j.getObjVal? "caught").getBool?
  pure { name := n, caught := c }

/-- `{"ok": text}` or `{"exc": name, "caught": bool}` -/
def getCleanRes (j : Json) : Except String (Except Exc DB.Name) :=
  match j.getObjVal? "ok" with
  | .ok t => do
    let s ← getName t
    pure (.ok s)
  | .error _ => do
    let e ← getExc j
    pure (.error e)

/-- `{"exc": name, "caught": bool}` | `{"empty": true}` | `{"labels": […]}` | `{"features_exc": {...}}` | `{"flatten_exc": {...}}` -/
def getParseRes (j : Json) : Except String (Except Exc ParseRes) :=
  match j.getObjVal? "labels" with
  | .ok l => do
    let ls ← getLabels l
    pure (.ok (.labels ls))
  | .error _ =>
    match j.getObjVal? "empty" with
    | .ok _ => pure (.ok .empty)
    | .error _ =>
      match j.getObjVal? "features_exc" with
      | .ok fe => do
        let e ← getExc fe
        pure (.ok (.featExc e))
      | .error _ =>
        match j.getObjVal? "flatten_exc" with
        | .ok fe => do
          let e ← getExc fe
          pure (.ok (.flatExc e))
        | .error _ => do
          let e ← getExc j
          pure (.error e)

def lookupD {β : Type} (t : List (DB.Name × β)) (k : DB.Name) (dflt : β) : β :=
  (get? t k).getD dflt

/-- The externals instantiated by the recorded behaviour of the real components:
`clean` : raw text ↦ result, `prepare` : cleaned text ↦ stored source, `parse` : stored source ↦ result. -/
def mkExt (cleanT : List (DB.Name × Except Exc DB.Name)) (prepT : List (DB.Name × DB.Name))
    (parseT : List (DB.Name × Except Exc ParseRes)) : Ext ParseRes :=
  { clean := fun raw => lookupD cleanT raw (.ok raw)
    prepare := fun s => lookupD prepT s s
    parse := fun src => lookupD parseT src (.ok .empty)
    isEmpty := fun t => match t with | .empty => true | _ => false
    flatten := fun _ t => match t with
      | .flatExc e => .error e
      | _ => .ok ()
    features := fun _ t => match t with
      | .labels ls => .ok ls
      | .featExc e => .error e
      | .flatExc _ => .ok []
      | .empty => .ok [] }

def readExt (j : Json) : Except String (Ext ParseRes) := do
  let cleanT ← getDict getCleanRes (← j.getObjVal? "clean")
  let prepT ← getDict getName (← j.getObjVal? "prepare")
  let parseT ← getDict getParseRes (← j.getObjVal? "parse")
  pure (mkExt cleanT prepT parseT)

def jExc (e : Exc) : Json := Json.mkObj [("exc", jName e.name), ("caught", Json.bool e.caught)]

/-- `c14.collect`: files = [[path, raw], …]; taxa = [[path, taxa], …] (recorded taxonomy answers).
Also says at which stage the model aborts. -/
def collectH : Handler := fun j => do
  let X ← readExt j
  let files ← getDict getName (← j.getObjVal? "files")
  let table ← getDict getTaxa (← j.getObjVal? "taxa")
  let stage : String :=
    match parseAll X (cleanAll X files) with
    | .error _ => "parse"
    | .ok _ => "makeDb"
  match collect X (oracle table) files with
  | .error e => pure (Json.mkObj [("exc", jName e.name), ("stage", stage)])
  | .ok db => pure (Json.mkObj [("db", jDb db), ("sqlite", jSqlite db)])

/-- `c14.tag`: `cli_tag.main(source)`; taxa = the recorded answer of the taxonomy on the labels. -/
def tagH : Handler := fun j => do
  let X ← readExt j
  let src ← getName (← j.getObjVal? "source")
  let taxa ← getTaxa (← j.getObjVal? "taxa")
  match tagMain X (fun _ _ => taxa) src with
  | .error e => pure (Json.mkObj [("exc", jName e.name)])
  | .ok r => pure (Json.mkObj [
      ("labels", jPairs (fun (s : List Span3) => Json.arr (s.map fun (x : Span3) =>
          Json.arr #[jInt x.1, jInt x.2.1, jName x.2.2]).toArray)
        (r.1.map fun l => (l.name, l.spans))),
      ("taxa", jNames (r.2.map (·.name)))])

/-- `c14.spec_check`: the property predicate `reportedB` on an implementation output. -/
def specCheck : Handler := fun j => do
  let fs ← getArr j "files"
  let files ← fs.toList.mapM fun f => do
    let p ← getName (← f.getObjVal? "path")
    let v ← (← f.getObjVal? "valid").getBool?
    let e ← (← f.getObjVal? "empty").getBool?
    let n ← match f.getObjVal? "err" with
      | .ok x => getName x
      | .error _ => pure []
    pure ({ path := p, valid := v, empty := e, errName := n } : FileInfo)
  let keys ← getDict getNames (← j.getObjVal? "taxa_keys")
  pure (Json.mkObj [("r", Json.bool (reportedB files keys))])

def handlers : List (String × Handler) :=
  [("c14.collect", collectH), ("c14.tag", tagH), ("c14.spec_check", specCheck)]

end Driver.C14
