import Driver.Util
open Lean

namespace Driver.C14

def handlers : List (String × Handler) := []

end Driver.C14
