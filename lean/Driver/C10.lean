import Driver.Util
open Lean

namespace Driver.C10

def handlers : List (String × Handler) := []

end Driver.C10
