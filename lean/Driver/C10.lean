import Driver.Util
import Paroxy.Model.Dedup
import Paroxy.Spec.Dedup
open Lean Paroxy

namespace Driver.C10

/-- A bag is sent as `[[span_id, count], ...]` (span ids are integers chosen by the harness). -/
def bagOfJson (j : Json) : Except String (Bag Int) := do
  let a ← j.getArr?
  let l ← a.toList.mapM fun e => do
    let p ← intList e
    match p with
    | [s, c] => pure (s, c)
    | _ => throw "bag entry must be [span, count]"
  pure l

def taxaOfJson (j : Json) : Except String (List (Dedup.Name × Bag Int)) := do
  let a ← j.getArr?
  a.toList.mapM fun e => do
    let p ← e.getArr?
    match p.toList with
    | [n, b] => do
      let n ← n.getStr?
      let b ← bagOfJson b
      pure (n.toList, b)
    | _ => throw "taxon must be [name, bag]"

def bagToJson (b : Bag Int) : Json :=
  Json.arr (b.map fun e => Json.arr #[Json.num (JsonNumber.fromInt e.1), Json.num (JsonNumber.fromInt e.2)]).toArray

def taxaToJson (t : List (Dedup.Name × Bag Int)) : Json :=
  Json.arr (t.map fun e => Json.arr #[Json.str (String.ofList e.1), bagToJson e.2]).toArray

/-- `c10.model`: `deduplicated_taxa(taxa)` in the model. -/
def model : Handler := fun j => do
  let t ← j.getObjVal? "taxa"
  let taxa ← taxaOfJson t
  match Dedup.deduplicatedTaxa taxa with
  | .ok r => pure (Json.mkObj [("ok", taxaToJson r)])
  | .error .valueError => pure (Json.mkObj [("exc", "ValueError")])

/-- `c10.spec`: the hypotheses of the theorems and the three clauses of the property evaluated on a
given output (`out`, normally the implementation's). -/
def spec : Handler := fun j => do
  let taxa ← taxaOfJson (← j.getObjVal? "taxa")
  let out ← taxaOfJson (← j.getObjVal? "out")
  pure (Json.mkObj [
    ("hyp_sorted", Json.bool (Spec.Dedup.strictSortedB (taxa.map (·.1)))),
    ("hyp_clean", Json.bool (Spec.Dedup.cleanNamesB (taxa.map (·.1)))),
    ("hyp_bags", Json.bool (Spec.Dedup.goodBagsB taxa)),
    ("out_wf", Json.bool (Spec.Dedup.goodOutB out)),
    ("no_invention", Json.bool (Spec.Dedup.noInventionS taxa out)),
    ("unshared_kept", Json.bool (Spec.Dedup.unsharedKeptS taxa out)),
    ("covered_lost", Json.bool (Spec.Dedup.coveredLostS taxa out))])

/-- `c10.commonpath`: the transcription of `posixpath.commonpath((a, b))`. -/
def commonpath : Handler := fun j => do
  let a ← getStr j "a"
  let b ← getStr j "b"
  match Dedup.commonpath a.toList b.toList with
  | .ok r => pure (Json.mkObj [("ok", Json.str (String.ofList r))])
  | .error .valueError => pure (Json.mkObj [("exc", "ValueError")])

/-- `c10.both`: model output and, when `out` is given (the implementation returned normally), the
hypotheses and clauses evaluated on it — one round trip per case. -/
def both : Handler := fun j => do
  let m ← model j
  match j.getObjVal? "out" with
  | .ok _ => do
    let s ← spec j
    pure (Json.mkObj [("model", m), ("spec", s)])
  | .error _ => pure (Json.mkObj [("model", m)])

def handlers : List (String × Handler) :=
  [("c10.model", model), ("c10.spec", spec), ("c10.both", both), ("c10.commonpath", commonpath)]

end Driver.C10
