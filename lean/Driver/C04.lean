import Driver.Util
import Paroxy.Model.Filter
import Paroxy.Model.Costs
import Paroxy.Gen.CompareSpans
open Lean Paroxy Paroxy.Filter

namespace Driver.C04

/-- The relations as the real filter sees them: generated dictionary and table. -/
def genRelations : Relations :=
  { names := (resolveUpdates (Gen.table.map fun p => (p.1, p.1)) Gen.updates).getD [],
    table := Gen.table }

def codesList (j : Json) : Except String (List Codes) := do
  let l ← strList j
  pure (l.map codesOf)

def spanOf (j : Json) : Except String Span := do
  match ← intList j with
  | [a, b] => pure (a, b)
  | _ => throw "span must be [start, end]"

/-- `[[key, value], …]` (arrays of pairs keep Python's dict order). -/
def pairs (j : Json) (f : Json → Except String α) : Except String (List (Codes × α)) := do
  let a ← j.getArr?
  a.toList.mapM fun kv => do
    match ← kv.getArr? with
    | #[k, v] => do pure (codesOf (← k.getStr?), ← f v)
    | _ => throw "expected [key, value]"

def parseTaxaSpans (j : Json) : Except String TaxaSpans :=
  pairs j fun v => do let a ← v.getArr?; a.toList.mapM spanOf

def parseDB (j : Json) : Except String DB := do
  pure {
    programs := ← pairs (← j.getObjVal? "programs") parseTaxaSpans
    taxa := ← pairs (← j.getObjVal? "taxa") codesList
    importations := ← pairs (← j.getObjVal? "importations") codesList
    exportations := ← pairs (← j.getObjVal? "exportations") codesList }

def parseOracle (j : Json) : Except String Oracle := do
  let t ← pairs (← j.getObjVal? "taxon") codesList
  let p ← pairs (← j.getObjVal? "prog") codesList
  pure {
    matchTaxon := fun pat name => ((dictGet? t pat).getD []).contains name
    matchProg := fun pat name => ((dictGet? p pat).getD []).contains name }

def parseCriterion (j : Json) : Except String Criterion :=
  match j with
  | .str s => pure (.pattern (codesOf s))
  | .arr #[a, b, c] => do pure (.triple (codesOf (← a.getStr?)) (codesOf (← b.getStr?)) (codesOf (← c.getStr?)))
  | _ => throw "criterion must be a string or a triple"

def parseCommand (j : Json) : Except String Filter.Command := do
  let op ← getStr j "operation"
  let data ← getArr j "data"
  pure { operation := codesOf op, data := ← data.toList.mapM parseCriterion }

def sortedStrs (l : List Codes) : Json :=
  let strs := (l.map strOf).toArray.qsort (· < ·)
  -- deduplicate
  let dedup := strs.foldl (fun (acc : Array String) s => if acc.back? == some s then acc else acc.push s) #[]
  Json.arr (dedup.map Json.str)

def stateJson (s : State) : Json :=
  Json.mkObj [("selected", sortedStrs s.selected), ("knowledge", sortedStrs s.knowledge),
    ("hiddenTaxa", sortedStrs s.hiddenTaxa), ("hiddenPrograms", sortedStrs s.hiddenPrograms)]

def errJson : Err → Json
  | .valueError => Json.mkObj [("exc", "ValueError")]
  | .keyError => Json.mkObj [("exc", "KeyError")]

def ratStr (q : Rat) : String := s!"{q.num}/{q.den}"

def parseStrategy (s : String) : Except String Costs.Strategy :=
  if s == "zeno" then pure .zeno else if s == "linear" then pure .linear else throw "strategy"

/-- `flt.run`: the whole `Recommendations(db).run_pipeline(cmds)` on the model: `add_imported_taxa`,
the commands (state after each), then the assessment of the final selection. -/
def run : Handler := fun j => do
  let db ← parseDB (← j.getObjVal? "db")
  let orc ← parseOracle (← j.getObjVal? "oracle")
  let cmds ← (← getArr j "cmds").toList.mapM parseCommand
  let strat ← parseStrategy ((j.getObjValAs? String "strategy").toOption.getD "zeno")
  match addImported db with
  | none => pure (Json.mkObj [("exc", "KeyError"), ("where", "add_imported_taxa")])
  | some progs =>
    let c : Ctx := { orc, programs := progs, taxa := db.taxa, exportations := db.exportations }
    let st0 := initState progs
    -- state after each command
    let rec go (st : State) (cs : List Filter.Command) (acc : Array Json) : Except Err (State × Array Json) :=
      match cs with
      | [] => .ok (st, acc)
      | cmd :: t =>
        match runCommand c genRelations st cmd with
        | .error e => .error e
        | .ok st' => go st' t (acc.push (stateJson st'))
    match go st0 cmds #[] with
    | .error e => pure (errJson e)
    | .ok (st, steps) =>
      let ranking := match Costs.assess strat progs st.knowledge st.selected with
        | none => Json.null
        | some l => Json.arr (l.map fun (q, p) => Json.arr #[Json.str (ratStr q), Json.str (strOf p)]).toArray
      let recs := progs.map fun (p, rec) =>
        Json.arr #[Json.str (strOf p), sortedStrs (rec.map (·.1))]
      pure (Json.mkObj [("final", stateJson st), ("steps", Json.arr steps), ("ranking", ranking),
        ("records", Json.arr recs.toArray)])

/-- `flt.parseOp`: the operation string of a command. -/
def parseOp : Handler := fun j => do
  let s ← getStr j "operation"
  match parseOperation (codesOf s) with
  | none => pure Json.null
  | some (op, q) =>
    let name := match op with | .include => "include" | .exclude => "exclude" | .impart => "impart" | .hide => "hide"
    pure (Json.arr #[Json.str name, Json.bool q])

/-- R3: the literal special case of a taxon pattern: prefix up to a word boundary. -/
def literalMatchTaxon (pat name : Codes) : Bool :=
  pat.isPrefixOf name &&
    (match pat.getLast?, (name.drop pat.length).head? with
     | some a, some b => NP.isWord a != NP.isWord b
     | some a, none => NP.isWord a
     | none, some b => NP.isWord b        -- empty pattern: boundary at position 0
     | none, none => false)

def literal : Handler := fun j => do
  let pat ← getStr j "pattern"
  let names ← strList (← j.getObjVal? "names")
  pure (Json.arr (names.filter (fun n => literalMatchTaxon (codesOf pat) (codesOf n)) |>.map Json.str).toArray)

def handlers : List (String × Handler) :=
  [("flt.run", run), ("flt.parseOp", parseOp), ("flt.literal", literal)]

end Driver.C04
