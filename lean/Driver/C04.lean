import Driver.Util
open Lean

namespace Driver.C04

def handlers : List (String × Handler) := []

end Driver.C04
