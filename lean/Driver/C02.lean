import Driver.Util
open Lean

namespace Driver.C02

def handlers : List (String × Handler) := []

end Driver.C02
