import Driver.Util
import Driver.C12
import Paroxy.Model.Hints
import Paroxy.Model.ParseGlue
open Lean Paroxy Paroxy.Hints Paroxy.Glue

namespace Driver.C02

/-- `c02.spec_valid`: the property predicate `1 ≤ start ≤ end ≤ number of lines of the listing`
(= `Props.C02.validSpanB`, restated here because the driver must not import the proofs) on each
span. -/
def specValid : Handler := fun j => do
  let listing ← getStr j "listing"
  let spans ← (← getArr j "spans").toList.mapM fun sp => do
    match ← intList sp with
    | [s, e] => pure (s, e)
    | _ => throw "span must be [s,e]"
  let n : Int := (lineCount listing.toList : Nat)
  let r := spans.map fun (p : Int × Int) => decide (1 ≤ p.1) && decide (p.1 ≤ p.2) && decide (p.2 ≤ n)
  pure (Json.mkObj [("r", Json.str (bits r)), ("nlines", Json.num (lineCount listing.toList))])

def handlers : List (String × Handler) :=
  [("c02.spec_valid", specValid), ("c02.get_program", C12.getProgramH), ("c02.get_bindings", C12.getBindingsH),
   ("c02.error_span", C12.errorSpanH)]

end Driver.C02
