import Driver.Util
open Lean

namespace Driver.C11

def handlers : List (String × Handler) := []

end Driver.C11
