import Driver.Util
import Paroxy.Model.MakeDb
import Paroxy.Spec.MakeDb
import Paroxy.Model.JsonText
import Paroxy.Model.JsonDb
open Lean Paroxy Paroxy.DB

namespace Driver.C11

def jName (n : DB.Name) : Json := Json.str (strOf n)
def jNames (l : List DB.Name) : Json := Json.arr (l.map jName).toArray
def jPairs {β : Type} (f : β → Json) (d : List (DB.Name × β)) : Json :=
  Json.arr (d.map fun e => Json.arr #[jName e.1, f e.2]).toArray
def jPoor (s : PoorSpan) : Json := Json.arr #[Json.num (JsonNumber.fromInt s.1), Json.num (JsonNumber.fromInt s.2)]
def jPoors (l : List PoorSpan) : Json := Json.arr (l.map jPoor).toArray

def getName (j : Json) : Except String DB.Name := do
  let s ← j.getStr?
  pure (codesOf s)

def getNames (j : Json) : Except String (List DB.Name) := do
  let a ← j.getArr?
  a.toList.mapM getName

def getSpan3 (j : Json) : Except String Span3 := do
  let a ← j.getArr?
  match a.toList with
  | [x, y, p] => do
    let x ← x.getInt?
    let y ← y.getInt?
    let p ← getName p
    pure (x, y, p)
  | [x, y] => do
    let x ← x.getInt?
    let y ← y.getInt?
    pure (x, y, [])
  | _ => throw "span must be [start, end, path]"

def getNamed {β : Type} (f : Json → Except String β) (j : Json) : Except String (DB.Name × β) := do
  let a ← j.getArr?
  match a.toList with
  | [k, v] => do
    let k ← getName k
    let v ← f v
    pure (k, v)
  | _ => throw "expected a [key, value] pair"

def getDict {β : Type} (f : Json → Except String β) (j : Json) : Except String (List (DB.Name × β)) := do
  let a ← j.getArr?
  a.toList.mapM (getNamed f)

def getSpans (j : Json) : Except String (List Span3) := do
  let a ← j.getArr?
  a.toList.mapM getSpan3

def getLabels (j : Json) : Except String (List Label) := do
  let d ← getDict getSpans j
  pure (d.map fun e => { name := e.1, spans := e.2 })

def getTaxa (j : Json) : Except String (List Taxon) := do
  let d ← getDict getSpans j
  pure (d.map fun e => { name := e.1, spans := e.2 })

def getProg (j : Json) : Except String (Prog × List Taxon) := do
  let path ← getName (← j.getObjVal? "path")
  let ts ← getName (← j.getObjVal? "timestamp")
  let src ← getName (← j.getObjVal? "source")
  let labels ← getLabels (← j.getObjVal? "labels")
  let taxa ← getTaxa (← j.getObjVal? "taxa")
  pure ({ path := path, timestamp := ts, source := src, labels := labels }, taxa)

/-- The taxonomy oracle instantiated by the recorded answers of the real `Taxonomy.to_taxa`. -/
def oracle (table : List (DB.Name × List Taxon)) : DB.Name → List Label → List Taxon :=
  fun p _ => (get? table p).getD []

def jRecord (r : Record) : Json :=
  Json.mkObj [("timestamp", jName r.timestamp), ("source", jName r.source),
    ("labels", jPairs jPoors r.labels), ("taxa", jPairs jPoors r.taxa)]

def jDb (db : Db) : Json :=
  Json.mkObj [("programs", jPairs jRecord db.programs), ("labels", jPairs jNames db.labels),
    ("taxa", jPairs jNames db.taxa), ("importations", jPairs jNames db.importations),
    ("exportations", jPairs jNames db.exportations)]

def jInt (i : Int) : Json := Json.num (JsonNumber.fromInt i)

def jSqlite (db : Db) : Json :=
  Json.mkObj [
    ("program", Json.arr ((programRows db).map fun r =>
      Json.arr #[jName r.program, jName r.timestamp, jName r.source]).toArray),
    ("label", Json.arr ((labelRows db).map fun r =>
      Json.arr #[jName r.label, jName r.pre, jName r.suf, jName r.span, jInt r.start, jInt r.stop,
        jName r.program]).toArray),
    ("taxon", Json.arr ((taxonRows db).map fun r =>
      Json.arr #[jName r.taxon, jName r.span, jInt r.start, jInt r.stop, jName r.program]).toArray)]

def jErr : Err → Json
  | .keyError k => Json.mkObj [("exc", "KeyError"), ("key", jName k)]

def readProgs (j : Json) : Except String (List Prog × List (DB.Name × List Taxon)) := do
  let a ← getArr j "progs"
  let ps ← a.toList.mapM getProg
  pure (ps.map (·.1), ps.map fun p => (p.1.path, p.2))

/-- `c11.model`: `TagDatabase(dir)`'s data and SQLite rows from the recorded parser/taxonomy outputs. -/
def model : Handler := fun j => do
  let (progs, table) ← readProgs j
  match makeDb (oracle table) progs with
  | .error e => pure (jErr e)
  | .ok db => pure (Json.mkObj [("db", jDb db), ("sqlite", jSqlite db)])

/-- `c11.spec`: the declarative specification of the same value (Spec/MakeDb.lean). -/
def spec : Handler := fun j => do
  let (progs, table) ← readProgs j
  match specDb (oracle table) progs with
  | none => pure (Json.mkObj [("exc", "unresolved-import")])
  | some db => pure (Json.mkObj [("db", jDb db), ("sqlite", jSqlite db)])

/-- `c11.closure`: `complete_and_collect_importations` on a synthetic dictionary. -/
def closure : Handler := fun j => do
  let d ← getDict getNames (← j.getObjVal? "direct")
  pure (Json.mkObj [("r", jPairs jNames (completeImportations d))])

/-- `c11.spec_closure`: the specification's reachability sets (sorted). -/
def specClosure : Handler := fun j => do
  let d ← getDict getNames (← j.getObjVal? "direct")
  pure (Json.mkObj [("r", jPairs jNames (specImportations d))])

/-- `c11.exportations`: `compute_and_collect_exportations`. -/
def exportationsH : Handler := fun j => do
  let paths ← getNames (← j.getObjVal? "paths")
  let imps ← getDict getNames (← j.getObjVal? "imps")
  match exportations paths imps with
  | .error e => pure (jErr e)
  | .ok r => pure (Json.mkObj [("r", jPairs jNames r)])

def specExportationsH : Handler := fun j => do
  let paths ← getNames (← j.getObjVal? "paths")
  let imps ← getDict getNames (← j.getObjVal? "imps")
  pure (Json.mkObj [("r", jPairs jNames (DB.specExportations paths imps))])

/-- `c11.relabel`: the label names after the relabelling loop of `labelled_programs`, and the
direct importations `compute_direct_importations` derives from them. -/
def relabelH : Handler := fun j => do
  let paths ← getNames (← j.getObjVal? "paths")
  let names ← getNames (← j.getObjVal? "names")
  let internal := internalPaths paths
  let r := names.map (relabelName internal)
  let ls : List Label := r.map fun n => { name := n, spans := [] }
  pure (Json.mkObj [("names", jNames r), ("direct", jNames (directOf paths ls)),
    ("search", Json.arr (names.map fun n => match searchImport? n with
      | some g => jName g | none => Json.null).toArray)])

def preparedH : Handler := fun j => do
  let ls ← getLabels (← j.getObjVal? "labels")
  pure (Json.mkObj [("r", jPairs jPoors (preparedLabels ls))])

def preparedTaxaH : Handler := fun j => do
  let ts ← getTaxa (← j.getObjVal? "labels")
  pure (Json.mkObj [("r", jPairs jPoors (preparedTaxa ts))])

def collectH : Handler := fun j => do
  let occ ← getDict getName (← j.getObjVal? "occ")
  pure (Json.mkObj [("r", jPairs jNames (sortKeys (collect occ)))])

def collectLabelsH : Handler := fun j => do
  let occ ← getDict getName (← j.getObjVal? "occ")
  pure (Json.mkObj [("r", jPairs jNames (sortKeys (collectNew occ)))])

def lineNumbers : Handler := fun j => do
  let s ← getName (← j.getObjVal? "source")
  pure (Json.mkObj [("r", jName (addLineNumbers s))])


/-! ### The JSON text layer (Model/JsonText.lean). Wire encoding of a `J` value (order preserving, code points so
that lone surrogates travel): number | {"s":[code points]} | {"a":[values]} | {"o":[[[code points], value], …]}. -/

def natList (j : Json) : Except String (List Nat) := do
  let a ← j.getArr?
  a.toList.mapM fun x => x.getNat?

partial def getJ (j : Json) : Except String JsonText.J := do
  match j with
  | .num _ => pure (.num (← j.getNat?))
  | _ =>
    match j.getObjVal? "s" with
    | .ok s => pure (.str (← natList s))
    | .error _ =>
      match j.getObjVal? "a" with
      | .ok a => do
        let l ← (← a.getArr?).toList.mapM getJ
        pure (.arr l)
      | .error _ => do
        let o ← (← j.getObjVal? "o").getArr?
        let l ← o.toList.mapM fun kv => do
          match (← kv.getArr?).toList with
          | [k, v] => do pure ((← natList k), (← getJ v))
          | _ => throw "member must be [key, value]"
        pure (.obj l)

def jNats (l : List Nat) : Json := Json.arr (l.map fun n => Json.num (JsonNumber.fromNat n)).toArray

partial def putJ : JsonText.J → Json
  | .num n => Json.num (JsonNumber.fromNat n)
  | .str s => Json.mkObj [("s", jNats s)]
  | .arr l => Json.mkObj [("a", Json.arr (l.map putJ).toArray)]
  | .obj l => Json.mkObj [("o", Json.arr (l.map fun kv => Json.arr #[jNats kv.1, putJ kv.2]).toArray)]

/-- `c11.dumps`: `dumps` = `json.dumps(v, indent=2)`, `text` = what `get_json` returns for the data `v`,
`ok` = the hypothesis of the round-trip theorem, `back` = `loads text == v`. -/
def dumpsH : Handler := fun j => do
  let v ← getJ (← j.getObjVal? "v")
  let text := JsonText.getJsonText v
  pure (Json.mkObj [("dumps", jNats (JsonText.dumps2 v)), ("text", jNats text),
    ("ok", Json.bool (JsonText.J.ok v)), ("back", Json.bool (JsonText.loadsIs text v))])

/-- `c11.db_json`: the text `get_json()` returns for the database `makeDb` computes: `getJsonText (dbToJson db)`
(Model/JsonDb.lean), with the hypotheses of `C11_db_json_roundtrip` (`ok` = `dbOk db`) and its conclusion (`back`). -/
def dbJsonH : Handler := fun j => do
  let (progs, table) ← readProgs j
  match makeDb (oracle table) progs with
  | .error e => pure (jErr e)
  | .ok db =>
    let v := JsonDb.dbToJson db
    let text := JsonText.getJsonText v
    pure (Json.mkObj [("text", jNats text), ("ok", Json.bool (JsonDb.dbOk db)),
      ("back", Json.bool (JsonText.loadsIs text v))])

/-- `c11.compact`: the `regex.sub` of `get_json` on an arbitrary text. -/
def compactH : Handler := fun j => do
  let t ← natList (← j.getObjVal? "t")
  pure (Json.mkObj [("r", jNats (JsonText.compact t))])

/-- `c11.loads`: the model's parser; `v` is null when the text is rejected. -/
def loadsH : Handler := fun j => do
  let t ← natList (← j.getObjVal? "t")
  pure (Json.mkObj [("v", match JsonText.loads t with | some v => putJ v | none => Json.null)])

def handlers : List (String × Handler) :=
  [("c11.model", model), ("c11.spec", spec), ("c11.closure", closure),
   ("c11.spec_closure", specClosure), ("c11.exportations", exportationsH),
   ("c11.spec_exportations", specExportationsH), ("c11.relabel", relabelH),
   ("c11.prepared", preparedH), ("c11.prepared_taxa", preparedTaxaH), ("c11.collect", collectH), ("c11.collect_labels", collectLabelsH), ("c11.line_numbers", lineNumbers),
   ("c11.dumps", dumpsH), ("c11.db_json", dbJsonH), ("c11.compact", compactH), ("c11.loads", loadsH)]

end Driver.C11
