import Driver.Util
import Driver.C08
open Lean

namespace Driver

def allHandlers : List (String × Handler) := C08.handlers

def handleLine (line : String) : String :=
  match Json.parse line with
  | .error e => (jerr s!"parse: {e}").compress
  | .ok j =>
    match j.getObjValAs? String "op" with
    | .error e => (jerr e).compress
    | .ok op =>
      match allHandlers.lookup op with
      | none => (jerr s!"unknown op {op}").compress
      | some h =>
        match h j with
        | .ok r => r.compress
        | .error e => (jerr e).compress

partial def loop (hin hout : IO.FS.Stream) : IO Unit := do
  let line ← hin.getLine
  if line.isEmpty then return ()
  let t := line.trimAscii.toString
  if t.isEmpty then
    loop hin hout
  else
    hout.putStrLn (handleLine t)
    hout.flush
    loop hin hout

end Driver

def main : IO Unit := do
  Driver.loop (← IO.getStdin) (← IO.getStdout)
