import Driver.Util
import Driver.C01
import Driver.C02
import Driver.C03
import Driver.C04
import Driver.C05
import Driver.C06
import Driver.C07
import Driver.C08
import Driver.C09
import Driver.C10
import Driver.C11
import Driver.C12
import Driver.C13
import Driver.C14
import Driver.C15
import Driver.C16
import Driver.C17
import Driver.C18
open Lean

namespace Driver

def allHandlers : List (String × Handler) :=
  List.flatten [
    C01.handlers,
    C02.handlers,
    C03.handlers,
    C04.handlers,
    C05.handlers,
    C06.handlers,
    C07.handlers,
    C08.handlers,
    C09.handlers,
    C10.handlers,
    C11.handlers,
    C12.handlers,
    C13.handlers,
    C14.handlers,
    C15.handlers,
    C16.handlers,
    C17.handlers,
    C18.handlers
  ]

def handleLine (line : String) : String :=
  match Json.parse line with
  | .error e => (jerr s!"parse: {e}").compress
  | .ok j =>
    match j.getObjValAs? String "op" with
    | .error e => (jerr e).compress
    | .ok op =>
      match allHandlers.lookup op with
      | none => (jerr s!"unknown op {op}").compress
      | some h =>
        match h j with
        | .ok r => r.compress
        | .error e => (jerr e).compress

partial def loop (hin hout : IO.FS.Stream) : IO Unit := do
  let line ← hin.getLine
  if line.isEmpty then return ()
  let t := line.trimAscii.toString
  if t.isEmpty then
    loop hin hout
  else
    hout.putStrLn (handleLine t)
    hout.flush
    loop hin hout

end Driver

def main : IO Unit := do
  Driver.loop (← IO.getStdin) (← IO.getStdout)
