import Driver.Util
open Lean

namespace Driver.C12

def handlers : List (String × Handler) := []

end Driver.C12
