import Driver.Util
import Paroxy.Model.Hints
import Paroxy.Model.ParseGlue
import Paroxy.Spec.Hints
open Lean Paroxy Paroxy.Hints Paroxy.Glue

namespace Driver.C12

def str (s : Str) : Json := Json.str (String.ofList s)

def errName : Err → String
  | .valueError => "ValueError"
  | .indexError => "IndexError"

def exc (e : Err) : Json := Json.mkObj [("exc", Json.str (errName e))]

def schedJson (s : Sched) : Json :=
  Json.arr (s.map fun p =>
    Json.arr #[str p.1, Json.arr (p.2.map fun sp => Json.arr #[Json.num sp.1, Json.num sp.2]).toArray]).toArray

def programJson (p : Program) : Json :=
  Json.mkObj [("source", str p.source), ("addition", schedJson p.addition), ("deletion", schedJson p.deletion)]

def beforeName : Before → String
  | .none => "" | .plus => "+" | .minus => "-" | .dots => "..."

/-- The oracle of a request: the non-ASCII characters (other than `…`) that the real `regex` module
calls word characters (`"word"`) and white space (`"space"`), computed by the harness on the input. -/
def oracleOf (j : Json) : CharOracle :=
  let get := fun k => match j.getObjValAs? String k with
    | .ok s => s.toList
    | .error _ => []
  let w := get "word"
  let sp := get "space"
  ⟨fun c => w.contains c, fun c => sp.contains c⟩

/-- Apply `f` (given the oracle of the request) to every string of the array `k` of the request. -/
def mapStrs (k : String) (f : CharOracle → Str → Json) : Handler := fun j => do
  let a ← getArr j k
  let l ← a.toList.mapM fun x => x.getStr?
  let O := oracleOf j
  pure (Json.mkObj [("r", Json.arr (l.map fun s => f O s.toList).toArray)])

/-- `c12.get_program`: `⟦get_program⟧` on each source. -/
def getProgramH : Handler := mapStrs "srcs" fun O s =>
  match (getProgram O) s with
  | .ok p => programJson p
  | .error e => exc e

def centrifugateH : Handler := mapStrs "srcs" fun O s =>
  match (centrifugate O) s with
  | .ok c => Json.mkObj [("r", str c)]
  | .error e => exc e

def collectH : Handler := mapStrs "srcs" fun O s =>
  match (collectHints O) s with
  | .ok (a, d) => Json.mkObj [("addition", schedJson a), ("deletion", schedJson d)]
  | .error e => exc e

def normLineH : Handler := mapStrs "lines" fun O s => str ((normLine O) s)
def trimEndsH : Handler := mapStrs "srcs" fun O s => str ((trimEnds O) s)

def removeHintsH : Handler := mapStrs "srcs" fun O s => str ((removeHints O) s)

def matchLabelH : Handler := mapStrs "toks" fun O s =>
  match (matchLabel O) s with
  | some (b, l, a) => Json.arr #[Json.str (beforeName b), str l, Json.bool a]
  | none => Json.null

def isolatedH : Handler := mapStrs "lines" fun O s =>
  match (isolatedRest O) s with
  | some r => str r
  | none => Json.null

/-- `line.partition("# paroxython: ")` then `.split()`: `null` when the separator is absent. -/
def hintTokensH : Handler := mapStrs "lines" fun O s =>
  match partitionAt m14 s with
  | some p => Json.arr #[str p.1, Json.arr (((splitWs O) p.2).map str).toArray]
  | none => Json.null

/-! ### Specification side: decorated programs -/

def getNatD (j : Json) (k : String) (d : Nat) : Nat :=
  match j.getObjValAs? Nat k with
  | .ok n => n
  | .error _ => d

def getBoolD (j : Json) (k : String) (d : Bool) : Bool :=
  match j.getObjValAs? Bool k with
  | .ok b => b
  | .error _ => d

def parseMark (s : String) : Except String Mark :=
  match s with
  | "one+" => pure (.one false)
  | "one-" => pure (.one true)
  | "opn+" => pure (.opn false)
  | "opn-" => pure (.opn true)
  | "cls" => pure .cls
  | _ => throw s!"unknown mark {s}"

def parseHint (j : Json) : Except String Hint := do
  let m ← parseMark (← getStr j "mark")
  let l ← getStr j "label"
  pure ⟨m, l.toList, { plus := getBoolD j "plus" false, uni := getBoolD j "uni" false, gap := getNatD j "gap" 0 }⟩

def parseMarker (j : Json) : MarkerStyle :=
  match j.getObjVal? "marker" with
  | .ok m =>
    let capsMask := getNatD m "caps" 0
    { sp1 := getNatD m "sp1" 1, caps := fun k => capsMask.testBit k, sp2 := getNatD m "sp2" 0, after := getNatD m "after" 1 }
  | .error _ => {}

def parseLine (j : Json) : Except String (Line × MarkerStyle) :=
  match j.getObjValAs? String "isolated" with
  | .ok l => pure (.isolated (getNatD j "indent" 0) l.toList, parseMarker j)
  | .error _ => do
    let code ← getStr j "code"
    let hs ← (← getArr j "hints").toList.mapM parseHint
    pure (.code { code := code.toList, pad := getNatD j "pad" 1, hints := hs }, parseMarker j)

def allLabels (d : Decorated) : List Str :=
  dedup (((codeLines d).flatMap fun c => c.hints.map (·.label)) ++ wholeLabels d)

def sspanJson (p : SSpan) : Json := Json.arr #[Json.bool p.1, Json.num p.2.1, Json.num p.2.2]

/-- `c12.spec_decorate`: the text of a decorated program (markers spelled as each line says),
whether the hypotheses of C12_roundtrip hold of it, and what its hints say, label by label, on the
normalised program (`normalised`, `events`, `balSpans`, `noTie`). -/
def specDecorate : Handler := fun j => do
  let O := oracleOf j
  let d ← (← getArr j "lines").toList.mapM parseLine
  let plain := d.map Prod.fst
  let nd := normalised d
  let labels := allLabels nd
  let per := labels.map fun L =>
    let ev := events nd L
    Json.mkObj [("label", str L), ("notie", Json.bool (noTie ev)),
      ("spans", match balSpans ev with
        | some r => Json.arr (r.map sspanJson).toArray
        | none => Json.null)]
  let linesOkB := (codeLines plain).all (okCode O) && (wholeLabels plain).all (cleanLabel O) && (looseOk O) plain
  pure (Json.mkObj [("src", str (decorateS d)), ("hygienic", Json.bool (linesOkB && !(codeLines nd).isEmpty)),
    ("lines_ok", Json.bool linesOkB),
    ("base", str ((stripPy O) (joinNL (base nd)))), ("nlines", Json.num (codeLines nd).length), ("labels", Json.arr per.toArray)])

/-- `c12.spec_malformed`: for each source, whether the hint tokens of its centrifugated text are
malformed (`malformedB`) and tie-free (`tieFreeB`). -/
def specMalformed : Handler := mapStrs "srcs" fun O s =>
  match (centrifugate O) ((prepare O) s) with
  | .ok c => Json.mkObj [("malformed", Json.bool ((malformedB O) ((hintToks O) c)))]
  | .error e => exc e

/-! ### Parser glue -/

def parseSched (j : Json) : Except String Sched := do
  let a ← j.getArr?
  a.toList.mapM fun e => do
    let p ← e.getArr?
    match p.toList with
    | [n, l] =>
      let name ← n.getStr?
      let spans ← (← l.getArr?).toList.mapM fun sp => do
        match ← intList sp with
        | [s, e] => pure (s.toNat, e.toNat)
        | _ => throw "span must be [s,e]"
      pure (name.toList, spans)
    | _ => throw "sched entry must be [name, spans]"

def parseOcc (j : Json) : Except String Occ := do
  let p ← j.getArr?
  match p.toList with
  | [n, s, e, path] => pure ((← n.getStr?).toList, (← s.getNat?), (← e.getNat?), (← path.getStr?).toList)
  | _ => throw "occurrence must be [name, s, e, path]"

def parseOccs (j : Json) : Except String (List Occ) := do (← j.getArr?).toList.mapM parseOcc

def labelsJson (ls : Labels) : Json :=
  Json.arr (ls.map fun p => Json.arr #[str p.1,
    Json.arr (p.2.map fun s => Json.arr #[Json.num s.1, Json.num s.2.1, str s.2.2]).toArray]).toArray

/-- `c12.glue`: the stages of `ProgramParser.__call__` on the recorded engine answers. -/
def glueH : Handler := fun j => do
  let del ← parseSched (← j.getObjVal? "deletion")
  let add ← parseSched (← j.getObjVal? "addition")
  let computed ← parseOccs (← j.getObjVal? "computed")
  let derived ← (← getArr j "derived").toList.mapM parseOccs
  let r := parse del add computed derived
  pure (Json.mkObj [("labels", labelsJson r.1), ("left", schedJson r.2)])

/-- `c12.spec_counts`: the multiset C12_deletion_exact names for one stage:
(computed ∸ scheduled deletions) + scheduled additions, per (name, start, end). -/
def specCounts : Handler := fun j => do
  let del ← parseSched (← j.getObjVal? "deletion")
  let add ← parseSched (← j.getObjVal? "addition")
  let computed ← parseOccs (← j.getObjVal? "computed")
  let ks : List (Str × Nat × Nat) :=
    (computed.map fun o => (o.1, o.2.1, o.2.2.1)) ++ add.entries ++ del.entries
  let uniq := ks.foldl (fun acc k => if acc.contains k then acc else acc ++ [k]) []
  let rows := uniq.map fun k =>
    let n := (occCount computed k.1 (k.2.1, k.2.2) - del.count k.1 (k.2.1, k.2.2)) + add.count k.1 (k.2.1, k.2.2)
    let left := del.count k.1 (k.2.1, k.2.2) - occCount computed k.1 (k.2.1, k.2.2)
    Json.arr #[str k.1, Json.num k.2.1, Json.num k.2.2, Json.num n, Json.num left]
  pure (Json.mkObj [("rows", Json.arr rows.toArray), ("keys_nodup", Json.bool ((keys del).eraseDups.length == (keys del).length))])

/-- `c12.get_bindings`: `⟦get_bindings⟧`. -/
def getBindingsH : Handler := fun j => do
  let label ← getStr j "label"
  let pos ← strList (← j.getObjVal? "pos")
  let suffix ← strList (← j.getObjVal? "suffix")
  match pos with
  | [] => throw "POS must not be empty"
  | p0 :: rest =>
    match getBindings label.toList p0.toList (rest.map (·.toList)) (suffix.map (·.toList)) with
    | .ok l => pure (Json.mkObj [("r", Json.arr (l.map fun o =>
        Json.arr #[str o.1, Json.num o.2.1, Json.num o.2.2.1, str o.2.2.2]).toArray)])
    | .error _ => pure (Json.mkObj [("exc", "ValueError")])

/-- `c12.error_span`: the span of the `ast_construction:*` label and the number of lines. -/
def errorSpanH : Handler := mapStrs "srcs" fun O s =>
  Json.arr #[Json.num (errorSpan s).1, Json.num (errorSpan s).2, Json.num (lineCount s)]

def handlers : List (String × Handler) :=
  [("c12.get_program", getProgramH), ("c12.centrifugate", centrifugateH), ("c12.collect", collectH),
   ("c12.remove_hints", removeHintsH), ("c12.match_label", matchLabelH), ("c12.isolated", isolatedH),
   ("c12.hint_tokens", hintTokensH), ("c12.norm_line", normLineH), ("c12.trim_ends", trimEndsH), ("c12.spec_decorate", specDecorate), ("c12.spec_malformed", specMalformed),
   ("c12.glue", glueH), ("c12.spec_counts", specCounts), ("c12.get_bindings", getBindingsH),
   ("c12.error_span", errorSpanH)]

end Driver.C12
