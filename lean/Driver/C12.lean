import Driver.Util
import Paroxy.Model.Hints
open Lean Paroxy Paroxy.Hints

namespace Driver.C12

def str (s : Str) : Json := Json.str (String.ofList s)

def errName : Err → String
  | .valueError => "ValueError"
  | .typeError => "TypeError"
  | .indexError => "IndexError"

def exc (e : Err) : Json := Json.mkObj [("exc", Json.str (errName e))]

def schedJson (s : Sched) : Json :=
  Json.arr (s.map fun p =>
    Json.arr #[str p.1, Json.arr (p.2.map fun sp => Json.arr #[Json.num sp.1, Json.num sp.2]).toArray]).toArray

def programJson (p : Program) : Json :=
  Json.mkObj [("source", str p.source), ("addition", schedJson p.addition), ("deletion", schedJson p.deletion)]

def beforeName : Before → String
  | .none => "" | .plus => "+" | .minus => "-" | .dots => "..."

/-- Apply `f` to every string of the array `k` of the request. -/
def mapStrs (k : String) (f : Str → Json) : Handler := fun j => do
  let a ← getArr j k
  let l ← a.toList.mapM fun x => x.getStr?
  pure (Json.mkObj [("r", Json.arr (l.map fun s => f s.toList).toArray)])

/-- `c12.get_program`: `⟦get_program⟧` on each source. -/
def getProgramH : Handler := mapStrs "srcs" fun s =>
  match getProgram s with
  | .ok p => programJson p
  | .error e => exc e

def centrifugateH : Handler := mapStrs "srcs" fun s =>
  match centrifugate s with
  | .ok c => Json.mkObj [("r", str c)]
  | .error e => exc e

def collectH : Handler := mapStrs "srcs" fun s =>
  match collectHints s with
  | .ok (a, d) => Json.mkObj [("addition", schedJson a), ("deletion", schedJson d)]
  | .error e => exc e

def removeHintsH : Handler := mapStrs "srcs" fun s => str (removeHints s)

def matchLabelH : Handler := mapStrs "toks" fun s =>
  match matchLabel s with
  | some (b, l, a) => Json.arr #[Json.str (beforeName b), str l, Json.bool a]
  | none => Json.null

def isolatedH : Handler := mapStrs "lines" fun s =>
  match isolatedRest s with
  | some r => str r
  | none => Json.null

/-- `line.partition("# paroxython: ")` then `.split()`: `null` when the separator is absent. -/
def hintTokensH : Handler := mapStrs "lines" fun s =>
  match partitionAt m14 s with
  | some p => Json.arr #[str p.1, Json.arr ((splitWs p.2).map str).toArray]
  | none => Json.null

def handlers : List (String × Handler) :=
  [("c12.get_program", getProgramH), ("c12.centrifugate", centrifugateH), ("c12.collect", collectH),
   ("c12.remove_hints", removeHintsH), ("c12.match_label", matchLabelH), ("c12.isolated", isolatedH),
   ("c12.hint_tokens", hintTokensH)]

end Driver.C12
