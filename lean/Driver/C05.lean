import Driver.Util
open Lean

namespace Driver.C05

def handlers : List (String × Handler) := []

end Driver.C05
