import Driver.Util
import Driver.C04
import Paroxy.Model.Report
import Paroxy.Spec.ReportCell
import Paroxy.Spec.ReportText
open Lean Paroxy Paroxy.Filter Paroxy.Costs Paroxy.Report

namespace Driver.C17

def bucketLabel : Bucket → String
  | .zero => "0"
  | .q1 => "in ]0, 0.25["
  | .q2 => "in [0.25, 0.5["
  | .q3 => "in [0.5, 1["
  | .pow lo => s!"in [{lo}, {2 * lo}["
  | .noGroup => "(default: no group)"

def opName : Operation → String
  | .include => "include" | .exclude => "exclude" | .impart => "impart" | .hide => "hide"

def spanJson (s : Span) : Json := Json.arr #[Json.num s.1, Json.num s.2]

/-- `rep.run`: one recommender, 1..n `run_pipeline` calls, then the structured report. -/
def run : Handler := fun j => do
  let db ← C04.parseDB (← j.getObjVal? "db")
  let orc ← C04.parseOracle (← j.getObjVal? "oracle")
  let runs ← (← getArr j "runs").toList.mapM fun r => do
    (← r.getArr?).toList.mapM C04.parseCommand
  let strat ← C04.parseStrategy (← getStr j "strategy")
  let sorting := if (← getStr j "sorting") == "lexicographic" then Sorting.lexicographic else Sorting.byCostAndSloc
  let grouping := (← getStr j "grouping") == "by_cost_bucket"
  let slocs ← C04.pairs (← j.getObjVal? "sloc") fun v => v.getNat?
  match addImported db with
  | none => pure (Json.mkObj [("exc", "KeyError")])
  | some progs =>
    let c : Ctx := { orc, programs := progs, taxa := db.taxa, exportations := db.exportations }
    match recommend c C04.genRelations strat (fun p => (dictGet? slocs p).getD 0) sorting grouping runs with
    | .err e => pure (C04.errJson e)
    | .keyError => pure (Json.mkObj [("exc", "KeyError")])
    | .ok rep =>
          let b := rep.body
          let log := rep.log
          let st := rep.final
          let bj := b.map fun (bk, secs) =>
            Json.mkObj [("label", Json.str (bucketLabel bk)), ("count", Json.num secs.length),
              ("sections", Json.arr (secs.map fun s =>
                Json.mkObj [("path", Json.str (strOf s.path)), ("cost", Json.str (C04.ratStr s.cost)),
                  ("rows", Json.arr (s.rows.map fun r => Json.arr #[Json.str (strOf r.taxon),
                    Json.str (C04.ratStr r.cost), Json.arr (r.spans.map spanJson).toArray]).toArray)]).toArray)]
          let sj := (summary progs.length log).map fun (n, i, op, k) =>
            Json.arr #[Json.num n, Json.num i, Json.str (opName op), Json.num k]
          pure (Json.mkObj [("body", Json.arr bj.toArray), ("summary", Json.arr sj.toArray),
            ("initially", Json.num progs.length), ("stdout", C04.sortedStrs (stdoutSelection st))])

/-- `rep.bucket`: `cost_bucket` of a rational. -/
def bucket : Handler := fun j => do
  let n ← getInt j "num"
  let d ← getInt j "den"
  pure (Json.str (bucketLabel (costBucket ((n : Rat) / (d : Rat)))))

def parseSpans (j : Json) : Except String (List Span) := do
  (← j.getArr?).toList.mapM fun p => do
    match ← intList p with
    | [a, b] => pure (a, b)
    | _ => throw "span: [a, b] expected"

/-- `c17.cell`: the text of the Location cell for (width, spans) — `ReportCell.renderCell`. -/
def cell : Handler := fun j => do
  let w ← getInt j "width"
  let spans ← parseSpans (← j.getObjVal? "spans")
  pure (Json.str (String.ofList (ReportCell.renderCell w.toNat spans)))

/-- `c17.lines`: the model of `textwrap.wrap(s, width, initial_indent=" " * 3)`. -/
def lines : Handler := fun j => do
  let w ← getInt j "width"
  let s ← getStr j "s"
  pure (Json.arr ((ReportCell.wrapLines w.toNat 3 s.toList).map fun l => Json.str (String.ofList l)).toArray)

/-- `c17.parse`: the spec's reading of a cell (`ReportCell.parseCell`); `null` = unreadable. -/
def parse : Handler := fun j => do
  let s ← getStr j "cell"
  match ReportCell.parseCell s.toList with
  | none => pure Json.null
  | some spans => pure (Json.arr (spans.map spanJson).toArray)

/-- `"n/d"` (what `C04.ratStr` writes). -/
def parseRatStr (s : String) : Except String Rat :=
  match s.splitOn "/" with
  | [n, d] =>
    match n.toInt?, d.toNat? with
    | some n, some d => pure ((n : Rat) / ((d : Nat) : Rat))
    | _, _ => throw s!"rational n/d expected: {s}"
  | _ => throw s!"rational n/d expected: {s}"

/-- A structured body in the JSON form `rep.run` writes (`label`, `sections` with `path`, `cost`, `rows`). -/
def parseBodyJson (j : Json) : Except String (List (Bucket × List Section)) := do
  (← j.getArr?).toList.mapM fun g => do
    let label ← getStr g "label"
    let bk ← match ReportText.parseBucket label.toList with
      | some b => pure b
      | none => throw s!"not a bucket label: {label}"
    let secs ← (← getArr g "sections").toList.mapM fun sj => do
      let path ← getStr sj "path"
      let cost ← parseRatStr (← getStr sj "cost")
      let rows ← (← getArr sj "rows").toList.mapM fun rj => do
        match (← rj.getArr?).toList with
        | [t, c, sp] =>
          pure ({ taxon := codesOf (← t.getStr?), cost := ← parseRatStr (← c.getStr?), spans := ← parseSpans sp } : Row)
        | _ => throw "row: [taxon, cost, spans] expected"
      pure ({ path := codesOf path, cost := cost, rows := rows } : Section)
    pure (bk, secs)

def bodyJson (b : List (Bucket × List Section)) : Json :=
  Json.arr (b.map fun (bk, secs) =>
    Json.mkObj [("label", Json.str (bucketLabel bk)), ("count", Json.num secs.length),
      ("sections", Json.arr (secs.map fun s =>
        Json.mkObj [("path", Json.str (strOf s.path)), ("cost", Json.str (C04.ratStr s.cost)),
          ("rows", Json.arr (s.rows.map fun r => Json.arr #[Json.str (strOf r.taxon),
            Json.str (C04.ratStr r.cost), Json.arr (r.spans.map spanJson).toArray]).toArray)]).toArray)]).toArray

/-- `c17.body_text`: the lines `ReportText.renderBody` writes for a structured body (cost texts: `showFloat`,
`rowCostText zeno`), with the two hygiene hypotheses of `C17_text_roundtrip` evaluated on it. -/
def bodyText : Handler := fun j => do
  let b ← parseBodyJson (← j.getObjVal? "body")
  let w ← getInt j "width"
  let zeno := (← getStr j "strategy") == "zeno"
  let ls := ReportText.renderBody ReportText.showFloat (ReportText.rowCostText zeno) w.toNat b
  pure (Json.mkObj [("lines", Json.arr (ls.map fun l => Json.str (String.ofList l)).toArray),
    ("ok_body", Json.bool (ReportText.okBody b)),
    ("costs_ok", Json.bool (ReportText.costsOK ReportText.showFloat (ReportText.rowCostText zeno) ReportText.readDecimal b))])

/-- `c17.body_parse`: the spec's reading of body lines, or of the body text (`ReportText.parseBodyStrict readDecimal`,
after `ReportText.splitLines` for a text); `null` = unreadable. -/
def bodyParse : Handler := fun j => do
  let ls ← match j.getObjVal? "text" with
    | .ok t => pure (ReportText.splitLines (← t.getStr?).toList)      -- the text itself: `split("\n")` of the spec
    | .error _ => pure ((← strList (← j.getObjVal? "lines")).map String.toList)
  match ReportText.parseBodyStrict ReportText.readDecimal ls with
  | none => pure Json.null
  | some b => pure (bodyJson b)

def handlers : List (String × Handler) :=
  [("rep.run", run), ("rep.bucket", bucket), ("c17.cell", cell), ("c17.lines", lines), ("c17.parse", parse),
   ("c17.body_text", bodyText), ("c17.body_parse", bodyParse)]

end Driver.C17
