import Driver.Util
open Lean

namespace Driver.C17

def handlers : List (String × Handler) := []

end Driver.C17
