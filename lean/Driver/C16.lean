import Driver.Util
import Paroxy.Model.NormalizePredicate
import Paroxy.Spec.NormalizePredicate
import Paroxy.Gen.CompareSpans
open Lean Paroxy Paroxy.Spec Paroxy.NP Paroxy.Spec.NP

namespace Driver.C16

/-- The dictionary of the generated table (same definition as `Paroxy.NP.names` in the proofs). -/
def names : List (Codes × Codes) :=
  (resolveUpdates (Gen.table.map fun p => (p.1, p.1)) Gen.updates).getD []

def model : Handler := fun j => do
  let s ← getStr j "s"
  match normalize names (codesOf s) with
  | some (k, neg) => pure (Json.mkObj [("key", Json.str (strOf k)), ("neg", Json.bool neg)])
  | none => pure (Json.mkObj [("exc", "ValueError")])

def optNat (j : Json) : Except String (Option Nat) :=
  match j with
  | .null => pure none
  | _ => do let n ← j.getNat?; pure (some n)

def parseStyle (j : Json) : Except String FormulaStyle := do
  let up ← getArr j "up"
  let idx ← getArr j "idx"
  let ops ← getArr j "ops"
  let junk ← getArr j "junk"
  if up.size != 4 || idx.size != 4 || ops.size != 3 || junk.size != 8 then throw "bad style arity"
  let opd (i : Nat) : Except String OperandStyle := do
    let u ← up[i]!.getBool?
    let d ← optNat idx[i]!
    pure { upper := u, index := d }
  let ops' ← ops.toList.mapM fun o => do
    let s ← o.getStr?
    pure (if s == "a" then OpStyle.ascii else OpStyle.canonical)
  let js ← junk.toList.mapM fun x => do let s ← x.getStr?; pure (codesOf s)
  match ops', js with
  | [p1, p2, p3], [j0, j1, j2, j3, j4, j5, j6, j7] =>
    pure { s1 := ← opd 0, s2 := ← opd 1, s3 := ← opd 2, s4 := ← opd 3, p1, p2, p3,
           j0, j1, j2, j3, j4, j5, j6, j7 }
  | _, _ => throw "bad style"

/-- `c16.render`: the specification's rendering of a formula spelling of a key. -/
def render : Handler := fun j => do
  let key ← getStr j "key"
  let st ← parseStyle (← j.getObjVal? "style")
  match parseKey (codesOf key) with
  | none => throw "not a key"
  | some k =>
    pure (Json.mkObj [("s", Json.str (strOf (renderFormula k st))), ("junkOk", Json.bool st.junkOk),
      ("balanced", Json.bool k.balanced)])

def abbrevName : Abbrev → String
  | .p1 => "p1" | .p2 => "p2" | .p3 => "p3" | .both => "both" | .identXY => "identXY" | .identYX => "identYX"

/-- `c16.renderAbbrev`: the specification's rendering of the abbreviated spelling `abbrev` of a key
under a style; `applies` = whether the key has that abbreviation. -/
def renderAbbrevH : Handler := fun j => do
  let key ← getStr j "key"
  let an ← getStr j "abbrev"
  let st ← parseStyle (← j.getObjVal? "style")
  match parseKey (codesOf key), allAbbrevKinds.find? (fun a => abbrevName a == an) with
  | some k, some a =>
    pure (Json.mkObj [("s", Json.str (strOf (renderAbbrev k a st))), ("junkOk", Json.bool st.junkOk),
      ("applies", Json.bool (a.applies k && k.balanced))])
  | _, _ => throw "not a key / not an abbreviation"

def renderNameH : Handler := fun j => do
  let name ← getStr j "name"
  let mask ← getArr j "mask"
  let m ← mask.toList.mapM fun b => b.getBool?
  pure (Json.mkObj [("s", Json.str (strOf (renderName (codesOf name) m)))])

def tables : Handler := fun _ => do
  let decos := decorations.map fun (a, b, n) => Json.arr #[Json.str (strOf a), Json.str (strOf b), Json.bool n]
  let abbr := abbreviations.map fun (s, k) => Json.arr #[Json.str (strOf s), Json.str (strOf k.codes)]
  let al := aliases.map fun (n, k) => Json.arr #[Json.str (strOf n), Json.str (strOf k.codes)]
  let keys := allKeys.map fun k => Json.str (strOf k.codes)
  let pairs := abbrevPairs.map fun (a, k) =>
    Json.arr #[Json.str (abbrevName a), Json.str (strOf k.codes), Json.str (strOf (abbrevCodes a k))]
  pure (Json.mkObj [("decorations", Json.arr decos.toArray), ("abbreviations", Json.arr abbr.toArray),
    ("abbrevPairs", Json.arr pairs.toArray),
    ("aliases", Json.arr al.toArray), ("keys", Json.arr keys.toArray)])

/-- `c16.spaced`: the specification's rendering of a body text `x` (a formula, an abbreviated formula or a
name, already rendered by the ops above) under a SPACED decoration (round 11, B3): outer white space, an
optional `!` + white space, prefix words each followed by its white space, suffix words each preceded by
its white space. Returns the text, whether the decoration is admissible (`ok`), whether what surrounds
the body is a decoration text in the sense of `C16_formula_spaced` / `C16_abbrev_spaced` (`decoOk`), the
flag of the property's clause on the text (`carries` = `Spec.NP.carriesNeg`) and the flag the decoration
carries by construction (`neg` = `Spaced.neg`). -/
def spacedH : Handler := fun j => do
  let x ← getStr j "x"
  let outerL ← getStr j "outerL"
  let outerR ← getStr j "outerR"
  let bang ← match j.getObjVal? "bang" with
    | .ok (.str w) => pure (some (codesOf w))
    | _ => pure none
  let word (e : Json) : Except String SpWord := do
    let a ← e.getArr?
    if a.size != 2 then throw "bad word"
    let w ← a[0]!.getStr?
    let s ← a[1]!.getStr?
    pure { word := codesOf w, ws := codesOf s }
  let pre ← (← getArr j "pre").toList.mapM word
  let post ← (← getArr j "post").toList.mapM word
  let d : Spaced := { outerL := codesOf outerL, bang, pre, post, outerR := codesOf outerR }
  let t := renderSpaced d (codesOf x)
  pure (Json.mkObj [("s", Json.str (strOf t)), ("ok", Json.bool d.ok),
    ("decoOk", Json.bool (d.before.all decoChar && d.after.all decoChar)),
    ("carries", Json.bool (carriesNeg t)), ("neg", Json.bool d.neg)])

def handlers : List (String × Handler) :=
  [("c16.model", model), ("c16.render", render), ("c16.renderAbbrev", renderAbbrevH), ("c16.renderName", renderNameH),
   ("c16.tables", tables), ("c16.spaced", spacedH)]

end Driver.C16
