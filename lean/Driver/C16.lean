import Driver.Util
open Lean

namespace Driver.C16

def handlers : List (String × Handler) := []

end Driver.C16
