import Driver.Util
open Lean

namespace Driver.C03

def handlers : List (String × Handler) := []

end Driver.C03
