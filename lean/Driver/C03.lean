import Driver.Util
import Driver.C11
import Paroxy.Model.Process
open Lean Paroxy Paroxy.DB Paroxy.Proc

namespace Driver.C03
open Driver.C11

/-- One distinct program text with the recorded behaviour of the engines on it (from a fresh parser
and a fresh taxonomy). -/
structure Rec where
  parsed : Parsed
  lines : Nat
  regex : Except Proc.Exc (List Label)
  /-- non-empty answers of SQLite, by query id -/
  answers : List (DB.Name × List Label)
  /-- final labels (names, in output order) — key of `assemble` -/
  outNames : List DB.Name
  taxa : List Taxon

def getRec (j : Json) : Except String Rec := do
  let kind ← getStr j "parsed"
  let lines ← (← j.getObjVal? "lines").getNat?
  let parsed ← match kind with
    | "invalid" => do
      let e ← getName (← j.getObjVal? "err")
      pure (Parsed.invalid e)
    | "empty" => pure Parsed.empty
    | _ => do
      let r ← getNames (← j.getObjVal? "reprs")
      pure (Parsed.tree r)
  let regex ← match j.getObjVal? "regex_exc" with
    | .ok (Json.str e) => pure (Except.error ({ name := codesOf e } : Proc.Exc))
    | _ => do
      let ls ← getLabels (← j.getObjVal? "labels0")
      pure (Except.ok ls)
  let answers ← getDict getLabels (← j.getObjVal? "answers")
  let outNames ← getNames (← j.getObjVal? "out_names")
  let taxa ← getTaxa (← j.getObjVal? "taxa")
  pure { parsed, lines, regex, answers, outNames, taxa }

def isPrefix (a b : List Label) : Bool := a.length ≤ b.length && b.take a.length == a

/-- The engines instantiated by the recorded answers. `derive` finds the program from the contents of
`t` (which always begins with that program's regex labels). -/
def mkEngines (queries : List (DB.Name × List DB.Name)) (recs : List Rec)
    (taxonLike : List DB.Name) (compiled : List (DB.Name × List DB.Name)) : Engines :=
  { queries := queries
    derive := fun q rows _ =>
      let cands := recs.filter fun r => match r.regex with
        | .ok l0 => isPrefix l0 rows
        | .error _ => false
      let best := cands.foldl (fun (acc : Option Rec) r => match acc with
        | none => some r
        | some a =>
          let la := match a.regex with | .ok l => l.length | .error _ => 0
          let lr := match r.regex with | .ok l => l.length | .error _ => 0
          if lr > la then some r else some a) none
      match best with
      | some r => (get? r.answers q).getD []
      | none => []
    looksLikeTaxon := fun l => taxonLike.contains l
    compiled := fun l => (get? compiled l).getD []
    assemble := fun rs =>
      let names := rs.map (·.1.name)
      match recs.find? (fun r => r.outNames == names) with
      | some r => r.taxa
      | none => [] }

def progOfRec (r : Rec) : Program :=
  { parsed := r.parsed, lines := r.lines, regexLabels := fun _ => r.regex }

def tableNames (s : SqlState) : List DB.Name :=
  (match s.t with | some _ => [[116]] | none => []) ++ s.physical.map fun e => [116, 95] ++ e.1

/-- The list of tables after each `read` of the loop (state observable inside a call). -/
def readTrace (E : Engines) (S : State) (p : Program) : List (List DB.Name) :=
  match p.parsed with
  | .tree reprs =>
    match p.regexLabels (HashState.reset.callAll reprs).2 with
    | .error _ => []
    | .ok labels0 =>
      match S.sql.create labels0 with
      | .error _ => []
      | .ok s1 =>
        (List.range E.queries.length).map fun k =>
          -- state after the `ensure` of query k (0-based): run k queries, then ensure the (k+1)-th
          let (s2, _) := queryLoop E s1 (E.queries.take k) labels0
          match E.queries[k]? with
          | some (_, pre) => match s2.ensure pre with
            | .ok s3 => tableNames s3
            | .error _ => tableNames s2
          | none => tableNames s2
  | _ => []

def jLabels (ls : List Label) : Json :=
  jPairs (fun (s : List Span3) => Json.arr (s.map fun (x : Span3) =>
    Json.arr #[jInt x.1, jInt x.2.1, jName x.2.2]).toArray) (ls.map fun l => (l.name, l.spans))

/-- `c03.run`: a sequence of programs through ONE process state; per step the outputs and the state
observables. -/
def runH : Handler := fun j => do
  let queries ← getDict getNames (← j.getObjVal? "queries")
  let literal ← getDict getNames (← j.getObjVal? "literal")
  let taxonLike ← getNames (← j.getObjVal? "taxon_like")
  let compiled ← getDict getNames (← j.getObjVal? "compiled")
  let recsJ ← getArr j "programs"
  let recs ← recsJ.toList.mapM getRec
  let seqJ ← getArr j "sequence"
  let seq ← seqJ.toList.mapM fun x => x.getNat?
  let trace ← (← j.getObjVal? "trace").getBool?
  let E := mkEngines queries recs taxonLike compiled
  let rec go (S : State) (is : List Nat) (acc : List Json) : List Json :=
    match is with
    | [] => acc.reverse
    | i :: rest =>
      match recs[i]? with
      | none => acc.reverse
      | some r =>
        let p := progOfRec r
        let tr := if trace then readTrace E S p else []
        let (S', out) := step E S p
        let outJ := match out with
          | .error e => Json.mkObj [("exc", jName e.name)]
          | .ok (ls, ts) => Json.mkObj [("labels", jLabels ls), ("taxa", jNames (ts.map (·.name)))]
        let touched := match out with
          | .ok (ls, _) => (ls.filterMap fun l => match get? S'.taxo.literal l.name with
              | some v => some (l.name, v)
              | none => none)
          | .error _ => []
        let stepJ := Json.mkObj [("out", outJ), ("hash_i", Json.num (JsonNumber.fromNat S'.hash.i)),
          ("tables", jNames (tableNames S'.sql)),
          ("read_trace", Json.arr (tr.map jNames).toArray),
          ("memo_size", Json.num (JsonNumber.fromNat S'.taxo.memo.length)),
          ("literal_touched", jPairs jNames touched)]
        go S' rest (stepJ :: acc)
  pure (Json.mkObj [("steps", Json.arr (go (init literal) seq []).toArray)])

def handlers : List (String × Handler) := [("c03.run", runH)]

end Driver.C03
