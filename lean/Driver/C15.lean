import Driver.Util
open Lean

namespace Driver.C15

def handlers : List (String × Handler) := []

end Driver.C15
