import Driver.Util
import Paroxy.Model.FlatAst
import Paroxy.Spec.FlatAst
import Paroxy.Spec.FlatTweaks
import Paroxy.Spec.FlatDump
open Lean Paroxy.Flat

namespace Driver.C15

def kindOfString : String → Except String Kind
  | "str" => pure .str
  | "bytes" => pure .bytes
  | "nameconst" => pure .nameConst
  | "ellipsis" => pure .ellipsis
  | "num" => pure .num
  | k => throw s!"unknown scalar kind {k}"

/-- JSON tree format (harness/flat_export.py):
`["n", ty, isExpr, repr, lineno|null, [[name, val], …]]`, `["l", [val, …]]`, `["s", repr, kind]`. -/
partial def parseVal (j : Json) : Except String Val := do
  let a ← j.getArr?
  let tag ← (a[0]?.getD Json.null).getStr?
  match tag with
  | "n" =>
    let ty ← (a[1]?.getD Json.null).getStr?
    let e ← (a[2]?.getD Json.null).getBool?
    let r ← (a[3]?.getD Json.null).getStr?
    let ln ← match a[4]?.getD Json.null with
      | Json.null => pure none
      | x => do
        let n ← x.getNat?
        pure (some n)
    let fs ← (a[5]?.getD Json.null).getArr?
    let fields ← fs.toList.mapM fun f => do
      let p ← f.getArr?
      let n ← (p[0]?.getD Json.null).getStr?
      let v ← parseVal (p[1]?.getD Json.null)
      pure (n.toList, v)
    pure (.node ty.toList e r.toList ln fields)
  | "l" =>
    let xs ← (a[1]?.getD Json.null).getArr?
    let items ← xs.toList.mapM parseVal
    pure (.list false items)
  | "s" =>
    let r ← (a[1]?.getD Json.null).getStr?
    let k ← (a[2]?.getD Json.null).getStr?
    pure (.scalar r.toList (← kindOfString k))
  | t => throw s!"unknown tree tag {t}"

def linesJson (ls : List Str) : Json := Json.arr (ls.map fun l => Json.str (String.ofList l)).toArray

def getTree (j : Json) : Except String Val := do
  let t ← j.getObjVal? "tree"
  parseVal t

def getLines (j : Json) : Except String (List Str) := do
  let a ← getArr j "lines"
  a.toList.mapM fun x => do
    let s ← x.getStr?
    pure s.toList

/-- `c15.flatten`: the model of `flatten_ast` (code as written). -/
def flatten : Handler := fun j => do
  let t ← getTree j
  let cfg := match j.getObjValAs? String "cfg" with
    | .ok "spec" => specCfg
    | _ => implCfg
  pure (Json.mkObj [("lines", linesJson (flattenAst cfg HashState.reset t).1)])

/-- `c15.dump`: the raw dump before post-processing. -/
def dump : Handler := fun j => do
  let t ← getTree j
  pure (Json.mkObj [("lines", linesJson (dumpS [] [] (prep implCfg t) HashState.reset).1)])

/-- `c15.spec`: the flat AST the property describes. -/
def spec : Handler := fun j => do
  let t ← getTree j
  let t1 := prep implCfg t
  pure (Json.mkObj [("lines", linesJson (specFlatten t)),
    ("wf_unquote", Json.bool (wfUnquote t1)), ("wf_kinds", Json.bool (wfKinds t1)),
    ("wf_posonly", Json.bool (wfPosonly [] t1)), ("wf_alias", Json.bool (wfAlias [] t1)),
    ("wf_stages4", Json.bool (wfStages4 t1)), ("wf_stages6", Json.bool (wfStages6 t1)),
    ("wf_tweak", Json.bool (wfTweak t1)),
    ("repr_is_dumpNoCtx", Json.bool (reprsAreDumps t)),
    ("stage6_eq_tweak", Json.bool (dumpP id [] [] (stage6 t1) == dumpP id [] [] (tweak [] t1)))])

/-- `c15.seq`: a sequence of flattenings threading the factory state (indices into `trees`). -/
def seq : Handler := fun j => do
  let ts ← getArr j "trees"
  let trees ← ts.toList.mapM parseVal
  let order ← (← j.getObjVal? "order") |> intList
  let sel := order.filterMap fun i => trees[i.toNat]?
  let r := flattenSeq implCfg HashState.reset sel
  pure (Json.mkObj [("out", Json.arr (r.1.map linesJson).toArray), ("counter", Json.num (r.2.i : Nat))])

/-- `c15.pass`: one line-level pass on arbitrary lines (validation of the R2 transcriptions). -/
def pass : Handler := fun j => do
  let name ← getStr j "name"
  let ls ← getLines j
  let f ← match name with
    | "suppress_kinds" => pure suppressKinds
    | "suppress_alias_pos" => pure suppressAliasPos
    | "suppress_posonlyargs" => pure suppressPosonlyargs
    | "backport_all_constants" => pure backportAllConstants
    | "simplify_negative_literals" => pure simplifyNegativeLiterals
    | "unquote" => pure unquote
    | "post_process" => pure postProcess
    | n => throw s!"unknown pass {n}"
  pure (Json.mkObj [("lines", linesJson (f ls))])

/-- `c15.wf_dump`: the hypothesis of `C15_dump_injective` / `C15_hash_iff` on a tree (with the offending name or
terminal repr when it fails), and, over all pairs of its first `cap` expression nodes, the agreement of "same hashed
text" with `sameExpr` (proved: `C15_dump_iff`) and of `sameExpr` with `sameUpToCtx` (real trees only). -/
def wfDumpOp : Handler := fun j => do
  let t ← getTree j
  let cap := match j.getObjValAs? Nat "cap" with
    | .ok n => n
    | _ => 120
  let es := (exprNodes t).take cap
  let st := pairStats es
  pure (Json.mkObj [("wf_dump", Json.bool (wfDump t)), ("conforms", Json.bool (conforms (schemaOf t) t)),
    ("schema_types", Json.num ((schemaOf t).length : Nat)),
    ("witness", match wfDumpWitness t with
      | some w => Json.str (String.ofList w)
      | none => Json.null),
    ("exprs", Json.num (es.length : Nat)), ("pairs_same_text", Json.num (st.1 : Nat)),
    ("pairs_text_vs_sameExpr", Json.num (st.2.1 : Nat)), ("pairs_sameExpr_vs_sameUpToCtx", Json.num (st.2.2 : Nat))])

/-- `c15.same_expr`: the two relations and the two dump texts for a pair of trees. -/
def sameExprOp : Handler := fun j => do
  let a ← parseVal (← j.getObjVal? "a")
  let b ← parseVal (← j.getObjVal? "b")
  pure (Json.mkObj [("same_expr", Json.bool (sameExpr a b)), ("same_up_to_ctx", Json.bool (sameUpToCtx a b)),
    ("wf_a", Json.bool (wfDump a)), ("wf_b", Json.bool (wfDump b)),
    ("dump_a", Json.str (String.ofList (dumpNoCtx a))), ("dump_b", Json.str (String.ofList (dumpNoCtx b)))])

def handlers : List (String × Handler) :=
  [("c15.flatten", flatten), ("c15.dump", dump), ("c15.spec", spec), ("c15.seq", seq), ("c15.pass", pass),
   ("c15.wf_dump", wfDumpOp), ("c15.same_expr", sameExprOp)]

end Driver.C15
