import Driver.Util
import Driver.C04
import Paroxy.Model.Costs
open Lean Paroxy Paroxy.Filter Paroxy.Costs

namespace Driver.C07

/-- `cost.taxon`: pure `taxon_cost`. -/
def taxon : Handler := fun j => do
  let strat ← C04.parseStrategy (← getStr j "strategy")
  let K ← C04.codesList (← j.getObjVal? "knowledge")
  let ts ← C04.codesList (← j.getObjVal? "taxa")
  pure (Json.arr (ts.map fun t => Json.str (C04.ratStr (taxonCost strat K t))).toArray)

def parseOp (j : Json) : Except String AOp := do
  let kind ← getStr j "kind"
  if kind == "set" then pure (.setKnowledge (← C04.codesList (← j.getObjVal? "knowledge")))
  else if kind == "taxon" then pure (.taxonCost (codesOf (← getStr j "taxon")))
  else if kind == "assess" then pure (.assess (← C04.codesList (← j.getObjVal? "selected")))
  else throw "unknown assessor op"

def outJson : AOut → Json
  | .unit => Json.null
  | .cost v => Json.str (C04.ratStr v)
  | .ranking none => Json.mkObj [("exc", "KeyError")]
  | .ranking (some l) => Json.arr (l.map fun (q, p) => Json.arr #[Json.str (C04.ratStr q), Json.str (strOf p)]).toArray

/-- `cost.history`: a sequence of operations on ONE assessor (memoised state machine), together with
the pure recomputation under the knowledge current at each step (`spec`). -/
def history : Handler := fun j => do
  let strat ← C04.parseStrategy (← getStr j "strategy")
  let progs ← C04.pairs (← j.getObjVal? "programs") C04.parseTaxaSpans
  let ops ← (← getArr j "ops").toList.mapM parseOp
  let K0 ← C04.codesList (← j.getObjVal? "knowledge0")
  let rec go (s : AState) (ops : List AOp) (acc : Array Json) (accSpec : Array Json) : Array Json × Array Json :=
    match ops with
    | [] => (acc, accSpec)
    | op :: t =>
      let (s', out) := astep strat progs s op
      let pure_ := match op with
        | .setKnowledge _ => AOut.unit
        | .taxonCost t => .cost (taxonCost strat s.knowledge t)
        | .assess sel => .ranking (assess strat progs s.knowledge sel)
      go s' t (acc.push (outJson out)) (accSpec.push (outJson pure_))
  let (m, sp) := go { knowledge := K0, memo := [] } ops #[] #[]
  pure (Json.mkObj [("model", Json.arr m), ("spec", Json.arr sp)])

def handlers : List (String × Handler) := [("cost.taxon", taxon), ("cost.history", history)]

end Driver.C07
