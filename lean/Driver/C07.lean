import Driver.Util
open Lean

namespace Driver.C07

def handlers : List (String × Handler) := []

end Driver.C07
