import Driver.Util
import Driver.C04
import Paroxy.Model.Costs
import Paroxy.Model.CostsShared
open Lean Paroxy Paroxy.Filter Paroxy.Costs

namespace Driver.C07

/-- `cost.taxon`: pure `taxon_cost`. -/
def taxon : Handler := fun j => do
  let strat ← C04.parseStrategy (← getStr j "strategy")
  let K ← C04.codesList (← j.getObjVal? "knowledge")
  let ts ← C04.codesList (← j.getObjVal? "taxa")
  pure (Json.arr (ts.map fun t => Json.str (C04.ratStr (taxonCost strat K t))).toArray)

def parseOp (j : Json) : Except String AOp := do
  let kind ← getStr j "kind"
  if kind == "set" then pure (.setKnowledge (← C04.codesList (← j.getObjVal? "knowledge")))
  else if kind == "taxon" then pure (.taxonCost (codesOf (← getStr j "taxon")))
  else if kind == "assess" then pure (.assess (← C04.codesList (← j.getObjVal? "selected")))
  else throw "unknown assessor op"

def outJson : AOut → Json
  | .unit => Json.null
  | .cost v => Json.str (C04.ratStr v)
  | .ranking none => Json.mkObj [("exc", "KeyError")]
  | .ranking (some l) => Json.arr (l.map fun (q, p) => Json.arr #[Json.str (C04.ratStr q), Json.str (strOf p)]).toArray

/-- `cost.history`: a sequence of operations on ONE assessor (memoised state machine), together with
the pure recomputation under the knowledge current at each step (`spec`). -/
def history : Handler := fun j => do
  let strat ← C04.parseStrategy (← getStr j "strategy")
  let progs ← C04.pairs (← j.getObjVal? "programs") C04.parseTaxaSpans
  let ops ← (← getArr j "ops").toList.mapM parseOp
  let K0 ← C04.codesList (← j.getObjVal? "knowledge0")
  let rec go (s : AState) (ops : List AOp) (acc : Array Json) (accSpec : Array Json) : Array Json × Array Json :=
    match ops with
    | [] => (acc, accSpec)
    | op :: t =>
      let (s', out) := astep strat progs s op
      let pure_ := match op with
        | .setKnowledge _ => AOut.unit
        | .taxonCost t => .cost (taxonCost strat s.knowledge t)
        | .assess sel => .ranking (assess strat progs s.knowledge sel)
      go s' t (acc.push (outJson out)) (accSpec.push (outJson pure_))
  let (m, sp) := go { knowledge := K0, memo := [] } ops #[] #[]
  pure (Json.mkObj [("model", Json.arr m), ("spec", Json.arr sp)])

def parseSOp (j : Json) : Except String SOp := do
  let kind ← getStr j "kind"
  if kind == "mutate" then
    pure (.mutateKnowledge (← getInt j "addr").toNat (← C04.codesList (← j.getObjVal? "add"))
      (← C04.codesList (← j.getObjVal? "del")))
  else if kind == "set" then pure (.setKnowledge (← getInt j "addr").toNat)
  else if kind == "clear" then pure .foreignClear
  else if kind == "taxon" then pure (.taxonCost (codesOf (← getStr j "taxon")))
  else if kind == "assess" then pure (.assess (← C04.codesList (← j.getObjVal? "selected")))
  else throw "unknown shared-assessor op"

/-- `cost.shared`: a sequence of operations on the assessor machine WITH the heap of knowledge set
objects (`SState`): `model` = the memoised machine, `snap` = the snapshot machine
(`C07_shared_stale_characterised`: equal), `spec` = the pure recomputation under the knowledge read at
each step, `knowledge` = that knowledge, `disciplined_prefix` = the length of the longest prefix of the
history that follows the `run_pipeline` discipline (`disciplined`; up to there `model = spec` by
`C07_shared_disciplined_sound`). -/
def shared : Handler := fun j => do
  let strat ← C04.parseStrategy (← getStr j "strategy")
  let progs ← C04.pairs (← j.getObjVal? "programs") C04.parseTaxaSpans
  let ops ← (← getArr j "ops").toList.mapM parseSOp
  let heap0 : Heap ← (← getArr j "heap0").toList.mapM fun e => do
    let a ← e.getArrVal? 0
    let k ← e.getArrVal? 1
    pure ((← a.getInt?).toNat, ← C04.codesList k)
  let ptr0 := (← getInt j "ptr0").toNat
  let m := srun strat progs { heap := heap0, ptr := ptr0, memo := [] } ops
  let g := grun strat progs { heap := heap0, ptr := ptr0, snap := [] } ops
  let outs (l : List (List Codes × SOp × AOut)) : Json := Json.arr (l.map fun e => outJson e.2.2).toArray
  let spec := Json.arr (m.map fun e => outJson (pureOutS strat progs e.1 e.2.1)).toArray
  let kn := Json.arr (m.map fun e => C04.sortedStrs e.1).toArray
  let n := ops.length
  let pref := ((List.range (n + 1)).filter fun k => disciplined ptr0 false (ops.take k)).foldl max 0
  pure (Json.mkObj [("model", outs m), ("snap", outs g), ("spec", spec), ("knowledge", kn),
    ("disciplined_prefix", Json.num (pref : Nat))])

def handlers : List (String × Handler) :=
  [("cost.taxon", taxon), ("cost.history", history), ("cost.shared", shared)]

end Driver.C07
