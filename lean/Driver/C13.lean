import Driver.Util
open Lean

namespace Driver.C13

def handlers : List (String × Handler) := []

end Driver.C13
