import Driver.Util
import Paroxy.Model.Cleanup
import Paroxy.Spec.Cleanup
open Lean Paroxy Paroxy.Cleanup

namespace Driver.C13

def txt (t : Text) : Json := Json.str (String.ofList t)

def kindOf : String → Kind
  | "COMMENT" => .comment
  | "STRING" => .string
  | "NEWLINE" => .newline
  | "NL" => .nl
  | "INDENT" => .indent
  | "DEDENT" => .dedent
  | "FSTRING_MIDDLE" => .fstringMiddle
  | _ => .other

/-- A token is sent as `[kindName, string, srow, scol, erow, ecol]`. -/
def tokenOf (j : Json) : Except String Token := do
  let a ← j.getArr?
  match a.toList with
  | [k, s, sr, sc, er, ec] =>
    pure ⟨kindOf (← k.getStr?), (← s.getStr?).toList, ← sr.getInt?, ← sc.getInt?, ← er.getInt?, ← ec.getInt?⟩
  | _ => throw "token must be [kind, string, srow, scol, erow, ecol]"

def tokensOf (j : Json) : Except String (List Token) := do
  let a ← getArr j "tokens"
  a.toList.mapM tokenOf

def passes : List (String × (Text → Text)) :=
  [("first_comments", suppressFirstComments),
   ("double_braces", doubleBraces),
   ("tabs", expandTabs),
   ("blank_lines", suppressBlankLines), ("useless_pass", suppressUselessPass),
   ("strip", strip), ("finish", finish),
   ("normalize", fun t => (normalizeComment t).1)]

/-- `c13.model.pass`: one text pass of the model. `texts` is a list, answers in order. -/
def modelPass : Handler := fun j => do
  let name ← getStr j "name"
  let ts ← strList (← j.getObjVal? "texts")
  match passes.lookup name with
  | none => throw s!"unknown pass {name}"
  | some f =>
    if name == "normalize" then
      pure (Json.mkObj [("r", Json.arr (ts.map fun t =>
        let r := normalizeComment t.toList
        Json.arr #[txt r.1, Json.num (r.2 : Nat)]).toArray)])
    else
      pure (Json.mkObj [("r", Json.arr (ts.map fun t => txt (f t.toList)).toArray)])

/-- The parser oracle as sent by the harness: `null`, or a list of `[lineno, end_lineno, isGuard]`. -/
def rangesOf (j : Json) : Except String (Option (List IfStmt)) :=
  match j with
  | Json.null => pure none
  | _ => do
    let a ← j.getArr?
    let rs ← a.toList.mapM fun x => do
      let l ← intList x
      match l with
      | [p, q, g] => pure (⟨p.toNat, q.toNat, g != 0⟩ : IfStmt)
      | _ => throw "range must be [lineno, end_lineno, isGuard]"
    pure (some rs)

/-- The statement oracle of `suppress_sys_path_injection` as sent by the harness: `null`, or a list of
`[lineno, end_lineno, col_offset == 0]` for ALL the top-level statements. -/
def stmtsOf (j : Json) : Except String (Option (List Stmt)) :=
  match j with
  | Json.null => pure none
  | _ => do
    let a ← j.getArr?
    let rs ← a.toList.mapM fun x => do
      let l ← intList x
      match l with
      | [p, q, c] => pure (⟨p.toNat, q.toNat, c != 0⟩ : Stmt)
      | _ => throw "statement must be [lineno, end_lineno, col0]"
    pure (some rs)

/-- `RangesOk` as a Bool (what the theorem `C13_injection_statements` / `C13_main_guard` assumes of the
parser's answer). -/
def rangesOkB : (pos n : Nat) → List IfStmt → Bool
  | _, _, [] => true
  | pos, n, r :: rest =>
    decide (pos < r.lineno) && decide (r.lineno ≤ r.endLineno) && decide (r.endLineno ≤ pos + n) &&
      rangesOkB r.endLineno (n - (r.endLineno - pos)) rest

/-- `c13.model.sys_path`: `cases` = list of `{text, stmts}`; answers `model` = suppress_sys_path_injection
with the oracle `stmts`, `spec` = the lines outside the injection statements (`keepOutsideGuards` on
`injectionMarks`), `rangesOk` = the hypothesis of the theorem holds for this oracle answer. -/
def modelSysPath : Handler := fun j => do
  let cs ← getArr j "cases"
  let rs ← cs.toList.mapM fun c => do
    let t := (← c.getObjValAs? String "text").toList
    let ss ← stmtsOf (c.getObjValD "stmts")
    let ls := splitNl t
    let (spec, ok) := match ss with
      | some ss => (joinNl (Spec.keepOutsideGuards 0 ls (Spec.injectionMarks ls ss)),
                    rangesOkB 0 ls.length (Spec.injectionMarks ls ss))
      | none => (t, true)
    pure (Json.mkObj [("model", txt (suppressSysPath ss t)), ("spec", txt spec), ("rangesOk", Json.bool ok)])
  pure (Json.mkObj [("r", Json.arr rs.toArray)])

/-- `c13.model.guard`: `cases` = list of `{text, ifs, ifs1, stmts2}`; answers `[suppress_main_guard(text)
with oracle ifs, preprocess(text) with oracles ifs1 (asked about the text after suppress_first_comments)
and stmts2 (all the top-level statements of the text after suppress_main_guard), keepOutsideGuards spec]`. -/
def modelGuard : Handler := fun j => do
  let cs ← getArr j "cases"
  let rs ← cs.toList.mapM fun c => do
    let t := (← c.getObjValAs? String "text").toList
    let ifs ← rangesOf (c.getObjValD "ifs")
    let ifs1 ← rangesOf (c.getObjValD "ifs1")
    let stmts2 ← stmtsOf (c.getObjValD "stmts2")
    let spec := match ifs with
      | some rs => joinNl (Spec.keepOutsideGuards 0 (splitNl t) rs)
      | none => t
    pure (Json.mkObj [("guard", txt (suppressMainGuard ifs t)),
      ("preprocess", txt (preprocess (fun _ => ifs1) (fun _ => stmts2) t)),
      ("first_comments", txt (suppressFirstComments t)), ("spec", txt spec)])
  pure (Json.mkObj [("r", Json.arr rs.toArray)])

def pieceJson : Piece → Json
  | .dropped => Json.arr #["dropped", ""]
  | .hint s => Json.arr #["hint", txt s]
  | .pass => Json.arr #["pass", "pass"]
  | .verbatim s => Json.arr #["verbatim", txt s]

def loopJson (ts : List Token) (detail : Bool) : Json :=
  let base := [("joined", txt (loopText ts)), ("final", txt (postprocess ts)), ("raises", Json.null)]
  if detail then
    Json.mkObj (base ++ [("emits", Json.arr ((loop ts).map fun e =>
      Json.arr #[Json.num (e.pad : Nat), pieceJson e.piece]).toArray)])
  else Json.mkObj base

/-- `c13.model.loop`: the token loop and what follows it, on recorded token lists
(`cases`: a list of token lists, answered in order by `r`; or a single `tokens`, with details). -/
def modelLoop : Handler := fun j => do
  match j.getObjVal? "cases" with
  | .ok cs =>
    let a ← cs.getArr?
    let rs ← a.toList.mapM fun c => do
      let ts ← (← c.getArr?).toList.mapM tokenOf
      pure (loopJson ts false)
    pure (Json.mkObj [("r", Json.arr rs.toArray)])
  | .error _ =>
    let ts ← tokensOf j
    pure (loopJson ts true)

/-- `c13.spec.loop`: the declarative reading of the loop, token by token:
for each token `[isComment, isHintComment, isString, atStatementStart, docstringLike]`. -/
def specLoop : Handler := fun j => do
  let ts ← tokensOf j
  let n := ts.length
  let rows := (List.range n).map fun i =>
    let pre := ts.take i
    let t := ts.getD i default
    Json.arr #[Json.bool (t.kind == .comment), Json.bool (t.kind == .comment && isHint t.str),
      Json.bool (t.kind == .string), Json.bool (Spec.atStmtStartB pre),
      Json.bool (Spec.docStmtB ts i)]
  pure (Json.mkObj [("rows", Json.arr rows.toArray)])

/-- `c13.spec.text`: the text-level predicates of the property evaluated on any text
(the implementation's output): `noBlankLine`, and the fixed-point tests of the two final passes. -/
def specText : Handler := fun j => do
  let ts ← strList (← j.getObjVal? "texts")
  pure (Json.mkObj [("r", Json.arr (ts.map fun s =>
    let t := s.toList
    Json.mkObj [("noBlankLine", Json.bool (Spec.noBlankLineB t)),
      ("blankFix", Json.bool (suppressBlankLines t == t)),
      ("passFix", Json.bool (suppressUselessPass t == t)),
      ("hintLines", Json.arr ((splitNl t).filter Spec.isHintLine |>.map txt).toArray),
      ("markerLines", Json.arr ((splitNl t).filter Spec.startsWithMarker |>.map txt).toArray)]).toArray)])

def handlers : List (String × Handler) :=
  [("c13.model.pass", modelPass), ("c13.model.loop", modelLoop), ("c13.model.guard", modelGuard),
   ("c13.model.sys_path", modelSysPath),
   ("c13.spec.loop", specLoop), ("c13.spec.text", specText)]

end Driver.C13
