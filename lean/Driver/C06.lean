import Driver.Util
open Lean

namespace Driver.C06

def handlers : List (String × Handler) := []

end Driver.C06
