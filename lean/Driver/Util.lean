import Lean.Data.Json
open Lean

namespace Driver

def jerr (msg : String) : Json := Json.mkObj [("error", Json.str msg)]

def getStr (j : Json) (k : String) : Except String String := j.getObjValAs? String k
def getInt (j : Json) (k : String) : Except String Int := j.getObjValAs? Int k
def getArr (j : Json) (k : String) : Except String (Array Json) := do
  let v ← j.getObjVal? k
  v.getArr?

def intList (j : Json) : Except String (List Int) := do
  let a ← j.getArr?
  a.toList.mapM fun x => x.getInt?

def strList (j : Json) : Except String (List String) := do
  let a ← j.getArr?
  a.toList.mapM fun x => x.getStr?

def bits (l : List Bool) : String := String.ofList (l.map fun b => if b then '1' else '0')

abbrev Handler := Json → Except String Json

end Driver
