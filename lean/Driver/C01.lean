import Driver.Util
open Lean

namespace Driver.C01

def handlers : List (String × Handler) := []

end Driver.C01
