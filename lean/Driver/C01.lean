import Driver.Util
import Driver.C15
import Paroxy.Model.NodeFeature
import Paroxy.Spec.NodeFeature
import Paroxy.Model.WholeSpan
import Paroxy.Spec.FlatTweaks
open Lean Paroxy.Flat

namespace Driver.C01

def strJ (s : Str) : Json := Json.str (String.ofList s)

def matchJson (m : Str × List Str) : Json :=
  Json.mkObj [("suffix", strJ m.1), ("pos", Json.arr (m.2.map strJ).toArray)]

/-- `c01.matches`: the hand matcher of the `node` pattern on arbitrary lines (one attempt per line). -/
def matchesH : Handler := fun j => do
  let ls ← C15.getLines j
  pure (Json.mkObj [("matches", Json.arr ((nodeMatches ls).map matchJson).toArray)])

def bindingJson (b : Str × SpanP) : Json :=
  Json.arr #[strJ b.1, Json.num (b.2.start : Nat), Json.num (b.2.stop : Nat), strJ b.2.path]

/-- `c01.bindings`: matcher + `get_bindings` + `pos_to_span`; `{"exc": "ValueError"}` when a captured
position does not have the form `<int>:<path>`. -/
def bindings : Handler := fun j => do
  let ls ← C15.getLines j
  match nodeBindings? ls with
  | some bs => pure (Json.mkObj [("bindings", Json.arr (bs.map bindingJson).toArray)])
  | none => pure (Json.mkObj [("exc", "ValueError")])

/-- `c01.model`: the whole model pipeline on a tree: flatten (code as written) then `node` bindings. -/
def model : Handler := fun j => do
  let t ← C15.getTree j
  let ls := (flattenAst implCfg HashState.reset t).1
  match nodeBindings? ls with
  | some bs => pure (Json.mkObj [("bindings", Json.arr (bs.map bindingJson).toArray)])
  | none => pure (Json.mkObj [("exc", "ValueError")])

/-- `c01.spec`: what the property says — one `(type, line)` per node of the tweaked tree that carries
a line number, in pre-order; and the list of positioned type names. -/
def spec : Handler := fun j => do
  let t ← C15.getTree j
  let t' := tweak [] (prep specCfg t)
  let ps := positionedNodes t'
  pure (Json.mkObj [("nodes", Json.arr (ps.map fun p => Json.arr #[strJ p.1, Json.num (p.2 : Nat)]).toArray),
    ("starts", Json.arr ((nodeStartsSpec [] [] t').map fun p => Json.arr #[strJ p.1, Json.num (p.2 : Nat)]).toArray),
    ("last_desc_mono", Json.bool (lastDescMono [] [] t')),
    ("wf", Json.bool (treeOk t')),
    ("wf_pipeline", Json.bool (wfStages6 (prep implCfg t) && wfTweak (prep implCfg t) &&
      treeOk (tweak [] (prep implCfg t))))])

/-- `c01.whole`: the hand matcher of the `whole_span` pattern and its bindings. -/
def whole : Handler := fun j => do
  let ls ← C15.getLines j
  let m := match wholeSpanMatch? ls with
    | some (pos, sfx) => Json.mkObj [("pos", Json.arr (pos.map strJ).toArray), ("suffix", Json.arr (sfx.map strJ).toArray)]
    | none => Json.null
  let b := match wholeSpanBindings? ls with
    | some bs => Json.mkObj [("bindings", Json.arr (bs.map bindingJson).toArray)]
    | none => Json.mkObj [("exc", "ValueError")]
  pure (Json.mkObj [("match", m), ("bindings", b)])

/-- `c01.tree_span`: the hypotheses of the C02 span theorems evaluated on the (tweaked) tree, and the
first / last positioned line in dump order. -/
def treeSpan : Handler := fun j => do
  let t ← C15.getTree j
  let t' := tweak [] (prep specCfg t)
  let ps := positionedNodes t'
  let first := match ps.head? with
    | some p => Json.num (p.2 : Nat)
    | none => Json.null
  let last := match ps.getLast? with
    | some p => Json.num (p.2 : Nat)
    | none => Json.null
  pure (Json.mkObj [("wf2", Json.bool (treeOk2 t')), ("wf3", Json.bool (treeOk3 t')),
    ("monotone", Json.bool (namesOkTree t' && lastDescMono [] [] t')),
    ("monotone_preorder", Json.bool (decide (PreorderMonotone (entries [] [] t')))),
    ("first", first), ("last", last), ("count", Json.num (ps.length : Nat))])

def handlers : List (String × Handler) :=
  [("c01.matches", matchesH), ("c01.bindings", bindings), ("c01.model", model), ("c01.spec", spec), ("c01.whole", whole), ("c01.tree_span", treeSpan)]

end Driver.C01
