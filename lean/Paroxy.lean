import Paroxy.Props.C08
import Paroxy.Props.C15
