import Paroxy.Props.C08
import Paroxy.Props.C15
import Paroxy.Props.C01
