import Paroxy.Props.C08
import Paroxy.Props.C12
import Paroxy.Props.C02
