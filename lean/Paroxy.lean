import Paroxy.Props.C08
