import Paroxy.Props.C08
import Paroxy.Props.C13
import Paroxy.Props.C18
