import Paroxy.Props.C08
import Paroxy.Props.C09
import Paroxy.Props.C10
