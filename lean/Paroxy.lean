import Paroxy.Props.C08
import Paroxy.Props.C11
import Paroxy.Props.C14
import Paroxy.Props.C03
