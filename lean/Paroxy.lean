import Paroxy.Props.C04
import Paroxy.Props.C05
import Paroxy.Props.C06
import Paroxy.Props.C07
import Paroxy.Props.C08
import Paroxy.Props.C16
import Paroxy.Props.C17
