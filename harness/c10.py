"""C10 — an occurrence is counted at its most specific taxa only.

Proof: lean/Paroxy/Props/C10.lean (model = Model/Bag.lean + Model/Dedup.lean).
Tie: behavioural correspondence. `paroxython.map_taxonomy.deduplicated_taxa` (and `Taxonomy.to_taxa`
for the sorting step) is run next to the driver's `c10.model` on the same lists of taxa; on every
case whose input satisfies the theorems' hypotheses the three clauses of the property are evaluated
by the driver (`c10.spec`, the Bool forms proved equivalent to the clauses) on the IMPLEMENTATION's
output, so a disagreement is turned into "violates the property on x" or "model merely stricter".
"""
import itertools
import json
import random
import re
from collections import Counter
from pathlib import Path

from . import core

PID = "C10"
LOOKS = re.compile(r"\w+/[^\n]+")  # `looks_like_a_taxon` on names without newline
# sorted for the code-point order; '!' '+' '-' '.' all sort before '/': "a!", "a+/k", "a-b/x"
# sit between "a" and its descendants, "a/y-z" between "a/y" and "a/y/z"; other roots; "a/yz" and
# "a/y-z" are SIBLINGS of "a/y" whose last segment extends "y" (string prefix, not path prefix).
POOL = ["a", "a!", "a+/k", "a-b/x", "a/y", "a/y-z", "a/y/z", "a/yz", "b/a"]
EDGES = ["a", "a-b", "a!", "b", "a.b", "ab", "a+", "x", "#", "a,b", "Z"]
WORD_ROOTS = ["a", "b", "ab", "x", "Z", "flow"]  # roots matching \w+: the names look like taxa
UNCLEAN_EDGES = EDGES + ["", ".", "..", " "]
# edges whose first character lies at the end of the Basic Multilingual Plane or beyond it (taxon names are arbitrary
# text: `notation/set/𝔽_2`): a scan of the sorted names bounded by a sentinel such as P + "/\uffff" stops before them
# (seed C10-m)
WIDE_EDGES = ["\U0001d53d_2", "\uffff", "\uffffz", "\U0001f600", "\U00010000", "\ufffd", "\ud7ff", "é", "~", "\x7f"]


def canon(r):
    if "ok" in r:
        return {"ok": [[n, sorted([int(k), int(v)] for k, v in b)] for n, b in r["ok"]]}
    return r


class Impl:
    def __init__(self):
        core.import_repo()
        import importlib

        self.mt = importlib.import_module("paroxython.map_taxonomy")
        ut = importlib.import_module("paroxython.user_types")
        self.Taxon, self.Label, self.Span = ut.Taxon, ut.Label, ut.Span

    def dedup(self, taxa):
        try:
            out = self.mt.deduplicated_taxa([self.Taxon(n, Counter(dict(map(tuple, b)))) for n, b in taxa])
        except Exception as exc:  # noqa
            return {"exc": type(exc).__name__}
        return canon({"ok": [[t.name, list(t.spans.items())] for t in out]})

    def labels_for(self, taxa):
        """A taxonomy and a label list whose accumulation is exactly `taxa` — a deterministic function
        of `taxa` (so that shrinking and replaying see the same labels): one literal row per taxon
        name; a taxon whose name looks like a taxon (`word/...`) is, more often than not, ALSO hinted
        under its own name, its spans split between the translated label and the hint; the labels
        come in a shuffled order (hint before or after its translated namesake, descendants before
        ancestors), and `to_taxa` must accumulate and sort."""
        rng = random.Random("c10-labels-" + json.dumps(taxa))
        rows, labels = ["Taxa\tLabels"], []
        for i, (n, b) in enumerate(taxa):
            spans = [s for s, c in b for _ in range(c)]
            rows.append(f"{n}\tlab_{i}")
            if LOOKS.fullmatch(n) and rng.random() < 0.6:
                rng.shuffle(spans)
                k = rng.randint(0, len(spans))
                labels.append([f"lab_{i}", spans[:k]])
                labels.append([n, spans[k:]])
            else:
                labels.append([f"lab_{i}", spans])
        rng.shuffle(labels)
        return rows, labels

    def to_taxa(self, scratch, taxa, idx):
        """The same input through Taxonomy.to_taxa (see `labels_for`)."""
        path = Path(scratch) / f"c10-taxonomy-{idx}.tsv"
        rows, labels = self.labels_for(taxa)
        path.write_text("\n".join(rows) + "\n", encoding="utf-8")
        labels = [self.Label(L, [self.Span(s, s, "p") for s in sp]) for L, sp in labels]
        try:
            out = self.mt.Taxonomy(path).to_taxa(labels)
        except Exception as exc:  # noqa
            return {"exc": type(exc).__name__}
        finally:
            path.unlink()
        return canon({"ok": [[t.name, [[k.start, v] for k, v in t.spans.items()]] for t in out]})


def _default_to_taxa(self, labels):
    """`Taxonomy().to_taxa(labels)` on the DEFAULT table: (what it feeds to deduplicated_taxa, its
    result). labels = [[name, [span ids]]]."""
    mk = lambda: [self.Label(L, [self.Span(s, s, "p") for s in sp]) for L, sp in labels]
    can = lambda taxa: canon({"ok": [[t.name, [[k.start, v] for k, v in t.spans.items()]] for t in taxa]})
    saved = self.mt.deduplicated_taxa
    try:
        self.mt.deduplicated_taxa = lambda taxa: taxa
        raw = can(self.mt.Taxonomy().to_taxa(mk()))["ok"]
    finally:
        self.mt.deduplicated_taxa = saved
    try:
        out = can(self.mt.Taxonomy().to_taxa(mk()))
    except Exception as exc:  # noqa
        out = {"exc": type(exc).__name__}
    return raw, out


Impl.default_to_taxa = _default_to_taxa


def default_label_lists(rng, n):
    """Label lists for the default table producing `flow/exception/catch/` (trailing slash: the
    optional group of the row does not take part), its sibling `flow/exception/catch/ValueError`,
    and — through taxon-like labels — their ancestors."""
    pool = ["try_except:Foo", "try_except:ValueError", "try_except:None", "try_except", "try_except:KeyError",
            "try_raise:Foo", "try_raise:ValueError", "flow/exception/catch", "flow/exception", "flow/exception/raise",
            "flow/exception/catch/", "addition_operator", "operator/arithmetic", "operator/arithmetic/addition"]
    out = [[["try_except:Foo", [3]], ["try_except:ValueError", [3, 5]], ["flow/exception/catch", [3, 3]]],
           [["try_except:Foo", [1]], ["try_except:ValueError", [1]]]]
    for _ in range(n):
        out.append([[rng.choice(pool), [rng.randint(0, 3) for _ in range(rng.randint(0, 3))]]
                    for _ in range(rng.randint(1, 8))])
    return out


def random_trailing(rng):
    """Clean names, some of them followed by one trailing `/` (next to the same name without it,
    or alone), sorted."""
    t = random_clean(rng, 7, 4, 3, 3, word_roots=rng.random() < 0.5)
    out = {n: b for n, b in t}
    for n, b in t:
        r = rng.random()
        if r < 0.35:
            out[n + "/"] = [[s, rng.randint(1, 3)] for s in rng.sample(range(3), rng.randint(1, 3))]
        elif r < 0.5:
            out[n + "/"] = out.pop(n)
    return [[n, out[n]] for n in sorted(out)]


def nontrivial(taxa):
    """Some taxon shares a span with a more specific one: deduplication has something to do."""
    for n, b in taxa:
        sn = {s for s, _ in b}
        for d, bd in taxa:
            if d.startswith(n + "/") and sn & {s for s, _ in bd}:
                return True
    return False


HYPS = ("hyp_sorted", "hyp_clean", "hyp_bags")
CLAUSES = ("out_wf", "no_invention", "unshared_kept", "covered_lost")


def safe_batch(drv, reqs, budget=16000):
    """core.Driver.batch writes a whole chunk before reading: keep each chunk well below the pipe
    buffer (requests and answers have similar sizes here)."""
    out, chunk, size = [], [], 0
    for r in reqs:
        n = len(json.dumps(r)) * 2 + 200
        if chunk and size + n > budget:
            out += drv.batch(chunk)
            chunk, size = [], 0
        chunk.append(r)
        size += n
    if chunk:
        out += drv.batch(chunk)
    return out


class Checker:
    def __init__(self, ctx, drv, impl):
        self.ctx, self.drv, self.impl = ctx, drv, impl
        self.violation_found = False

    def violates(self, taxa, runner=None):
        """Does the implementation contradict the property on this input (hypotheses included)?"""
        a = (runner or self.impl.dedup)(taxa)
        if "ok" in a:
            sp = self.drv.call("c10.spec", taxa=taxa, out=a["ok"])
            bad = all(sp[h] for h in HYPS) and not all(sp[c] for c in CLAUSES)
        else:
            sp = self.drv.call("c10.spec", taxa=taxa, out=[])
            bad = all(sp[h] for h in HYPS)  # C10_model_clean: no exception on such inputs
        return bad, a, sp

    def shrink(self, taxa, runner=None):
        taxa = [[n, [list(x) for x in b]] for n, b in taxa]
        changed = True
        while changed:
            changed = False
            for i in range(len(taxa)):
                cand = taxa[:i] + taxa[i + 1:]
                if self.violates(cand, runner)[0]:
                    taxa, changed = cand, True
                    break
            if changed:
                continue
            for i, (n, b) in enumerate(taxa):
                for k in range(len(b)):
                    if len(b) > 1:
                        cand = taxa[:i] + [[n, b[:k] + b[k + 1:]]] + taxa[i + 1:]
                        if self.violates(cand, runner)[0]:
                            taxa, changed = cand, True
                            break
                    if b[k][1] > 1:
                        cand = taxa[:i] + [[n, b[:k] + [[b[k][0], b[k][1] - 1]] + b[k + 1:]]] + taxa[i + 1:]
                        if self.violates(cand, runner)[0]:
                            taxa, changed = cand, True
                            break
                if changed:
                    break
        return taxa

    def batch(self, stream, cases, runner=None, via="deduplicated_taxa"):
        ctx = self.ctx
        impls = [(runner or self.impl.dedup)(t) for t in cases]
        reqs = []
        for t, a in zip(cases, impls):
            r = {"op": "c10.both", "taxa": t}
            if "ok" in a:
                r["out"] = a["ok"]
            reqs.append(r)
        ress = safe_batch(self.drv, reqs)
        for t, a, r in zip(cases, impls, ress):
            m = canon(r["model"])
            sp = r.get("spec")
            key = json.dumps(t)
            ctx.count(stream, key, nontrivial=nontrivial(t))
            ctx.dist(f"{stream}:names={min(len(t), 9)}{'+' if len(t) > 9 else ''}")
            ctx.dist(f"{stream}:impl={'exc:' + a['exc'] if 'exc' in a else 'ok'}")
            hyp = None
            if sp is not None:
                hyp = all(sp[h] for h in HYPS)
                ctx.dist(f"{stream}:hypotheses={'hold' if hyp else 'fail'}")
                if len(t) >= 2 and len(a["ok"]) < len(t):
                    ctx.dist(f"{stream}:some-taxon-eliminated")
            if a != m:
                ctx.cov["disagreements_checked"] += 1
                bad, a2, sp2 = self.violates(t, runner)
                if bad and not self.violation_found:
                    small = self.shrink(t, runner)
                    _, a3, sp3 = self.violates(small, runner)
                    m3 = canon(self.drv.call("c10.model", taxa=small))
                    self.violation_found = True
                    ctx.violations.append({
                        "what": f"{via} contradicts the property on a sorted clean input",
                        "signature": None,
                        "replay": {
                            "kind": "c10-case", "via": via, "stream": stream, "taxa": small,
                            **({"to_taxa_rows_and_labels": self.impl.labels_for(small)} if via == "Taxonomy.to_taxa" else {}),
                            "impl": a3, "model": m3, "spec_on_impl_output": sp3,
                            "failed_clauses": [c for c in CLAUSES if "ok" in a3 and not sp3[c]] or ["raises"],
                            "original_case": t,
                            "how": "taxa = [[name, [[span_id, count], ...]], ...] -> deduplicated_taxa([Taxon(name, Counter(bag))...])",
                        },
                    })
                elif not all(sp2[h] for h in HYPS):
                    # outside the theorems' hypotheses (unclean names, unsorted, non-positive counts):
                    # recorded, the property claims nothing there
                    ctx.dist(f"{stream}:disagreement-outside-hypotheses")
                    if len(ctx.notes) < 10:
                        ctx.notes.append(f"{stream}: outside the hypotheses, impl != model (recorded only): taxa={t} impl={a} model={m}")
                elif not bad:
                    ctx.broken.append(f"corr:{stream}")
                    if len(ctx.notes) < 10:
                        ctx.notes.append(f"{stream}: impl != model, property not contradicted: taxa={t} impl={a} model={m}")
            elif sp is not None and hyp and not all(sp[c] for c in CLAUSES):
                # impossible while the theorems check: model output = impl output satisfies the clauses
                ctx.broken.append(f"spec-vs-theorem:{stream}")
                if len(ctx.notes) < 10:
                    ctx.notes.append(f"{stream}: clause false on the model's own output: taxa={t} spec={sp}")
        return impls, ress


def bags_one_span(k):
    for counts in itertools.product((1, 2), repeat=k):
        yield [[[0, c]] for c in counts]


BAGS2 = [b for b in ([[0, c0]] * (c0 > 0) + [[1, c1]] * (c1 > 0)
                     for c0 in (0, 1, 2) for c1 in (0, 1, 2)) if b]


def random_clean(rng, max_names, max_depth, max_count, n_spans, word_roots=False):
    k = rng.randint(0, max_names)
    names = set()
    roots = rng.sample(WORD_ROOTS if word_roots else EDGES, rng.randint(1, 3))
    edges = EDGES[:7] + (WIDE_EDGES if rng.random() < 0.3 else [])
    while len(names) < k:
        depth = rng.randint(1, max_depth)
        parts = [rng.choice(roots)] + [rng.choice(edges) for _ in range(depth - 1)]
        name = "/".join(parts)
        names.add(name)
        if rng.random() < 0.5 and len(names) < k and names:
            base = rng.choice(sorted(names))
            names.add(base + "/" + rng.choice(edges))
    out = []
    for n in sorted(names):
        spans = rng.sample(range(n_spans), rng.randint(1, n_spans))
        out.append([n, [[s, rng.randint(1, max_count)] for s in spans]])
    return out


def random_unclean(rng):
    k = rng.randint(0, 6)
    out = []
    for _ in range(k):
        depth = rng.randint(1, 4)
        n = "/".join(rng.choice(UNCLEAN_EDGES) for _ in range(depth))
        r = rng.random()
        if r < 0.12:
            n = "/" + n
        elif r < 0.2:
            n = n + "/"
        spans = rng.sample(range(3), rng.randint(0, 3))
        out.append([n, [[s, rng.randint(-1, 3)] for s in spans]])
    r = rng.random()
    if r < 0.5:
        out.sort()
    elif r < 0.6 and out:
        out.append([out[0][0], [[0, 1]]])  # a duplicated name
    return out


def run(ctx):
    core.prove(ctx)
    impl = Impl()
    drv = core.Driver()
    quick = ctx.tier == "quick"
    try:
        ck = Checker(ctx, drv, impl)
        ctx.cov["rule"] = (
            "a case = a list of (taxon name, {span: count}); it is non-trivial when some taxon shares a span with a "
            "more specific one (the deduplication has something to subtract); distinct = distinct canonical input. "
            "bx1: ALL subsets of the 9-name pool × one span × counts 1..2 (3^9 = 19683, exhaustive); "
            "bx2: all subsets of ≤3 (quick) / ≤4 (thorough) names × every non-empty bag over 2 spans × counts ≤ 2 "
            "(exhaustive); random deeper pools (several roots, punctuation sorting before '/', depth ≤ 5, counts ≤ 3, "
            "3 spans); the same inputs through Taxonomy.to_taxa (sorting step, hints named like a translated taxon); names with "
            "one trailing '/' (allowed by the hypotheses); label lists through the DEFAULT table producing "
            "flow/exception/catch/; an unclean/unsorted stream outside the "
            "theorems' hypotheses (model must still agree, clauses not required)"
        )
        # 0. corpus
        cdir = core.VERIF / "corpus" / "c10"
        corpus = []
        if cdir.is_dir():
            for p in sorted(cdir.glob("*.json")):
                corpus.append(json.loads(p.read_text(encoding="utf-8"))["taxa"])
        corpus.append([["a", [[7, 1]]], ["a-b/x", [[7, 1]]], ["a/y", [[7, 1]]]])
        corpus.append([["g", [[0, 5]]], ["g/p", [[0, 1]]], ["g/p/x", [[0, 2]]], ["g/p/y", [[1, 1]]]])
        corpus.append([["flow/loop/for", [[3, 1]]], ["flow/loop/for_each", [[3, 1]]]])
        corpus.append([["a/b", [[0, 2], [1, 1]]], ["a/bc", [[0, 1]]], ["a/bc/d", [[1, 1]]]])
        ck.batch("corpus", corpus)
        # 1. bounded-exhaustive, one span
        cases = []
        for k in range(len(POOL) + 1):
            for sub in itertools.combinations(POOL, k):
                for bags in bags_one_span(k):
                    cases.append([[n, b] for n, b in zip(sub, bags)])
        ck.batch("bx1-all-subsets-one-span", cases)
        ctx.cov["bx1_cases"] = len(cases)
        # 2. bounded-exhaustive, two spans
        kmax = 3 if quick else 4
        cases = []
        for k in range(1, kmax + 1):
            for sub in itertools.combinations(POOL, k):
                for bags in itertools.product(BAGS2, repeat=k):
                    cases.append([[n, b] for n, b in zip(sub, bags)])
                if len(cases) > 50000:
                    ck.batch("bx2-two-spans", cases)
                    cases = []
        ck.batch("bx2-two-spans", cases)
        ctx.cov["exhaustive"] = True
        # 3. random deeper pools
        n_rand = 4000 if quick else 80000
        cases = [random_clean(ctx.rng, 10, 5, 3, 3) for _ in range(n_rand)]
        ck.batch("random-clean", cases)
        # 4. through Taxonomy.to_taxa (unsorted accumulation order, sorted by the method)
        n_tt = 150 if quick else 3000
        scratch = ctx.scratch_dir()
        tt_cases = [
            # a regular label translated into T and a hint literally named T, a prefix of T present
            [["flow/loop", [[5, 1], [20, 1]]], ["flow/loop/while", [[5, 1], [20, 1]]]],
            [["flow/loop", [[5, 1]]], ["flow/loop/while", [[5, 2], [20, 1]]], ["flow/loop/while/x", [[20, 1]]]],
            [["a/b", [[0, 2], [1, 1]]], ["a/b/c", [[0, 1], [1, 1], [2, 3]]]],
        ]
        for i in range(n_tt):
            tt_cases.append(random_clean(ctx.rng, 7, 4, 3, 3, word_roots=(i % 2 == 0)))
        counter = itertools.count()

        def via_to_taxa(t):
            return impl.to_taxa(scratch, t, next(counter))

        # the model is fed the sorted raw bags; to_taxa gets shuffled labels (hints included) and must
        # accumulate and sort them itself
        ck.batch("to_taxa", [t for t in tt_cases if all(" " not in n and "\t" not in n for n, _ in t)],
                 runner=via_to_taxa, via="Taxonomy.to_taxa")
        hinted = sum(1 for t in tt_cases for L, _ in impl.labels_for(t)[1] if not L.startswith("lab_"))
        ctx.cov["to_taxa_hint_labels_colliding_with_a_translation"] = hinted
        # 4b. names with ONE trailing '/' (inside the weakened hypotheses: the clauses are evaluated)
        n_tr = 1500 if quick else 30000
        ck.batch("trailing-slash", [
            [["flow/exception/catch", [[3, 2]]], ["flow/exception/catch/", [[3, 1]]],
             ["flow/exception/catch/ValueError", [[3, 1], [5, 1]]]],
            [["a", [[0, 1]]], ["a/", [[0, 1]]]], [["a/", [[0, 1]]], ["a/b", [[0, 1]]]],
        ] + [random_trailing(ctx.rng) for _ in range(n_tr)])
        # 4c. through the DEFAULT table: `try_except:Foo` -> `flow/exception/catch/`
        lists = default_label_lists(ctx.rng, 40 if quick else 1500)
        pre = {}
        cases = []
        for labels in lists:
            raw, out = impl.default_to_taxa(labels)
            pre[json.dumps(raw)] = out
            cases.append(raw)
            if any(n.endswith("/") for n, _ in raw):
                ctx.dist("default-to_taxa:has-trailing-slash-taxon")
        ck.batch("default-to_taxa", cases, runner=lambda t: pre.get(json.dumps(t)) or impl.dedup(t),
                 via="Taxonomy().to_taxa (default table), input = what it feeds to deduplicated_taxa")
        # 5. unclean / unsorted / non-positive counts: outside the hypotheses, model must agree
        n_un = 3000 if quick else 40000
        ck.batch("unclean", [random_unclean(ctx.rng) for _ in range(n_un)])
        # 6. commonpath transcription, pairwise on an adversarial name pool
        names = sorted({"/".join(p) for d in (1, 2, 3) for p in itertools.product(["a", "a-", "b", "", "."], repeat=d)}
                       | {"/a", "/", "//a", "/a/b", "a/"})
        reqs, exp = [], []
        # the transcription is of the standard library's function, whatever map_taxonomy imports
        from posixpath import commonpath as cp
        for x in names:
            for y in names:
                reqs.append({"op": "c10.commonpath", "a": x, "b": y})
                try:
                    exp.append({"ok": cp((x, y))})
                except ValueError:
                    exp.append({"exc": "ValueError"})
        got = safe_batch(drv, reqs)
        for q, e, g in zip(reqs, exp, got):
            ctx.count("commonpath", (q["a"], q["b"]), nontrivial=q["a"] != q["b"])
            if e != g:
                ctx.broken.append("corr:commonpath")
                if len(ctx.notes) < 10:
                    ctx.notes.append(f"commonpath({q['a']!r},{q['b']!r}): impl {e} model {g}")
        # samples
        for t in (corpus[-2], corpus[-1], random_clean(ctx.rng, 6, 3, 2, 2)):
            a = impl.dedup(t)
            r = drv.call("c10.both", taxa=t, **({"out": a["ok"]} if "ok" in a else {}))
            ctx.sample({"taxa": t, "impl": a, "model": canon(r["model"]), "spec_on_impl_output": r.get("spec")})
    finally:
        drv.close()
    ctx.cov["proved"] = [
        "C10_model_clean: on strictly sorted clean names commonpath never raises and the test is 'proper segment-prefix'",
        "C10_no_invention, C10_unshared_kept, C10_covered_lost: the three clauses, for every strictly sorted list of clean "
        "names (any roots, any characters) with positive-count bags",
        "C10_names_kept_in_order; C10_exec_forms (the Bool forms run by the driver are equivalent to the clauses)",
        "C10_to_taxa: sorted(acc.items()) of Taxonomy.to_taxa is strictly sorted with positive dict bags, so the clauses hold "
        "of to_taxa's result whenever the taxon names are admissible",
    ]
    ctx.cov["exercised_only"] = [
        "agreement of the Python function with the model (differential testing)",
        "behaviour on unclean names (a//b, a/./b, /a), unsorted lists, non-positive counts: model = implementation there, "
        "but the clauses are not claimed",
    ]
    ctx.cov["trusted_base"] = core.BASE_TRUST + [
        "the transcription of CPython 3.12 collections.Counter (__sub__ with both loops, subtract, __iadd__/_keep_positive) "
        "in Model/Bag.lean and of posixpath.commonpath in Model/Dedup.lean, validated differentially on every run",
        "dict insertion order of Counters is not observed (bags are compared as sorted item lists)",
    ]
    ctx.assumptions += [
        "theorem hypotheses: names strictly increasing in code-point order (sorted keys of a dict), no empty or '.' segment "
        "except one trailing '/', "
        "bags with distinct keys and positive counts (what Counter.update produces); checked by the driver on every case",
        "spans are opaque hashable keys (the harness numbers them)",
    ]
    if not ctx.violations and (not ctx.proofs_ok or ctx.broken):
        ctx.violations.append({
            "no_input": True,
            "what": "a proof or the correspondence no longer checks and no input contradicting the property was found",
            "replay": {
                "kind": "no-failing-input-found", "no_longer_checks": sorted(set(ctx.broken)),
                "build_errors": ctx.cov.get("build_errors"), "notes": ctx.notes[:10],
                "searched": "corpus, bx1, bx2, random-clean, to_taxa streams with the three clauses evaluated on the implementation's output",
            },
        })
    return core.finish(ctx)


def replay(ctx, path):
    obj = json.loads(Path(path).read_text(encoding="utf-8"))
    taxa = obj["taxa"]
    impl = Impl()
    drv = core.Driver()
    try:
        if obj.get("via") == "Taxonomy.to_taxa":
            a = impl.to_taxa(ctx.scratch_dir(), taxa, 0)
        else:
            a = impl.dedup(taxa)
        m = canon(drv.call("c10.model", taxa=taxa))
        sp = drv.call("c10.spec", taxa=taxa, out=a.get("ok", []))
    finally:
        drv.close()
    print("input :", json.dumps(taxa))
    print("impl  :", json.dumps(a))
    print("model :", json.dumps(m))
    print("spec  :", json.dumps(sp), "(hypotheses and clauses evaluated on the implementation's output)")
    bad = all(sp[h] for h in HYPS) and ("exc" in a or not all(sp[c] for c in CLAUSES))
    print("VIOLATION reproduced" if bad else "no violation on this input")
    return 1 if bad else 0
