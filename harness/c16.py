"""C16 — predicate spellings normalise to the intended relation or are rejected.

Theorems (lean/Paroxy/Props/C16.lean) are about the hand-written model NP.normalize fed with the
*generated* name dictionary; this harness ties the model to normalize_predicate.py by running both
on the same strings, and checks the property directly on the implementation for every spelling the
specification (Spec/NormalizePredicate.lean, rendered by the driver) produces.
"""
import contextlib
import io
import itertools
import json

from . import core

JUNK_POOL = [" ", "(", ")", "1", "2", "0", "_", ",", "\t", ".", "-", "+", "*", "/", "[", "]", ">", "'", '"', "#", "  ",
             "\n", "\r", "\x0b", "\x0c", "\x00", "\x07", "\x1b", "\x7f", "@", "~", "\\"]
# 0x1c-0x1f are white space for str.strip() but not for the regex module's \s: the model has ONE notion of white space
# (9-13, 32), so these four separators stay outside the alphabet of the arbitrary stream (they are exercised as junk, where
# both readings agree, and in the implementation-only Unicode stream)
MODEL_ALPHABET = [chr(c) for c in range(0, 128) if not 0x1C <= c <= 0x1F] + ["≤", "…"]


# round 11, B3: the model's white-space characters, and the shapes of SPACED decorations rendered by the driver's
# Spec.renderSpaced (`c16.spaced`): (label, leading `!`?, prefix words, suffix words); every word is followed (prefix) or
# preceded (suffix) by 1-4 white-space characters of every kind, `!` by 0-4, and 0-4 surround the whole spelling
WS = [" ", "\t", "\n", "\r", "\x0b", "\x0c"]
SPACED_SHAPES = [
    ("!X", True, [], []), ("not X", False, ["not"], []), ("X not", False, [], ["not"]), ("is X", False, ["is"], []),
    ("X is", False, [], ["is"]), ("is not X", False, ["is", "not"], []), ("not is X", False, ["not", "is"], []),
    ("is X not", False, ["is"], ["not"]), ("X is not", False, [], ["is", "not"]), ("! is X", True, ["is"], []),
    ("! X is", True, [], ["is"]), ("not X not", False, ["not"], ["not"]), ("X", False, [], []),
]


def rand_case(rng, w):
    return "".join(ch.upper() if rng.random() < 0.3 else ch for ch in w)


def rand_ws(rng, lo=1):
    return "".join(rng.choice(WS) for _ in range(rng.randrange(lo, 5)))


def spaced_req(rng, x, shape, fixed=None):
    """One `c16.spaced` request; `fixed` = a single white-space character used at every position (bounded-exhaustive part)."""
    _, bang, pre, post = shape
    g = (lambda lo=1: fixed) if fixed is not None else (lambda lo=1: rand_ws(rng, lo))
    return {"op": "c16.spaced", "x": x, "outerL": g(0), "outerR": g(0), "bang": g(0) if bang else None,
            "pre": [[rand_case(rng, w), g()] for w in pre], "post": [[rand_case(rng, w), g()] for w in post]}


def real_call(np_mod, cs, s):
    """-> ("ok", key, neg) | ("exc", ExceptionName)"""
    with contextlib.redirect_stderr(io.StringIO()), contextlib.redirect_stdout(io.StringIO()):
        try:
            f, neg = np_mod.normalize_predicate(s)
        except Exception as exc:  # noqa
            return ("exc", type(exc).__name__)
    key = None
    for k in cs:
        if len(k) == 7 and cs[k] is f:
            key = k
            break
    if key is None:
        for k in cs:
            if cs[k] is f:
                key = f"<alias {k}>"
                break
        else:
            key = "<unknown function>"
    return ("ok", key, bool(neg))


def stated_negation(s):
    """The property's own words: negated exactly when the string carries `!` (leading, the manual's prefix), `not ` or ` not`
    (any white space). None where the words leave room (a `!` elsewhere than in front)."""
    import re
    t = s.lower().strip()
    if t.startswith("!") or re.search(r"not\s", t) or re.search(r"\snot", t):
        return True
    return None if "!" in t else False


def model_out(r):
    if "exc" in r:
        return ("exc", r["exc"])
    return ("ok", r["key"], bool(r["neg"]))


def run(ctx):
    core.prove(ctx)
    core.import_repo()
    import importlib

    np_mod = importlib.import_module("paroxython.normalize_predicate")
    cs = importlib.import_module("paroxython.compare_spans").compare_spans
    drv = core.Driver()
    rng = ctx.rng
    try:
        T = drv.call("c16.tables")
        keys = T["keys"]
        decorations = [(a, b, n) for a, b, n in T["decorations"]]
        aliases = T["aliases"]
        abbreviations = T["abbreviations"]
        cases = []  # (stream, string, expected or None, trivial?)

        # 1. canonical keys, names, abbreviations, under every decoration
        for k in keys:
            for pre, post, neg in decorations:
                cases.append(("keys×decorations", pre + k + post, ("ok", k, neg), pre == "" and post == ""))
        for n, k in aliases:
            masks = [[], [True] * len(n), [True], [i % 2 == 0 for i in range(len(n))]]
            masks.append([rng.random() < 0.5 for _ in n])
            for m in masks:
                s = drv.call("c16.renderName", name=n, mask=m)["s"]
                for pre, post, neg in decorations:
                    if n == "is" and (pre.strip().lower() in ("is", "!is", "! is", "is not") or post.strip().lower().startswith("is")):
                        continue  # "is is": the manual ignores `is` except when it is the whole string
                    cases.append(("names×case×decorations", pre + s + post, ("ok", k, neg), False))
        for s, k in abbreviations:
            for pre, post, neg in decorations:
                cases.append(("abbreviations×decorations", pre + s + post, ("ok", k, neg), False))

        # 1b. "adding the word not" (manual): the word may be separated by any ASCII white space, `!` may be surrounded by it
        ws_markers = [("not\t", ""), ("not\n", ""), ("not  ", ""), ("not \t ", ""), ("NOT\t", ""), ("", "\tnot"), ("", "\nnot"),
                      ("", "  not"), ("", " \t NOT"), ("is not\t", ""), ("\t!", ""), ("!\t", ""), ("  !", ""), (" ! ", ""), ("\n!\n", "")]
        for k in keys:
            for pre, post in rng.sample(ws_markers, 4):
                cases.append(("keys×white-space variants of the negation markers", pre + k + post, ("ok", k, True), False))

        # 2. formula spellings with junk (the theorem C16_formula quantifies over all of them)
        n_styles = 3 if ctx.tier == "quick" else 200
        reqs, meta = [], []
        for k in keys:
            for ops in itertools.product("ca", repeat=3):
                for _ in range(n_styles if ops != ("c", "c", "c") else n_styles + 1):
                    junk = []
                    for i in range(8):
                        ln = rng.choice([0, 0, 1, 1, 2, 3])
                        junk.append("".join(rng.choice(JUNK_POOL) for _ in range(ln)))
                    style = {
                        "up": [rng.random() < 0.4 for _ in range(4)],
                        "idx": [rng.choice([None, None, 1, 2, rng.randrange(10)]) for _ in range(4)],
                        "ops": list(ops),
                        "junk": junk,
                    }
                    reqs.append({"op": "c16.render", "key": k, "style": style})
                    meta.append((k, style))
        rendered = drv.batch(reqs)
        formula_meta, formula_rendered = meta, rendered
        for (k, style), r in zip(meta, rendered):
            assert r["junkOk"] and r["balanced"], (k, style)
            pre, post, neg = rng.choice(decorations)
            # the theorems (C16_formula_decorated…) cover ANY junk next to a decoration, control characters included:
            # so does the correspondence (one case in five keeps the former restriction to blank junk, for the density
            # of plainly readable spellings)
            if rng.random() < 0.2 and ((pre and style["junk"][0].strip(" ") != "") or (post and style["junk"][7].strip(" ") != "")):
                pre, post, neg = "", "", False
            cases.append(("formula×junk×ops×index×case×decoration", pre + r["s"] + post, ("ok", k, neg), False))
            ctx.dist("formula:deco=" + repr((pre, post)))

        # 2b. decorated ABBREVIATED spellings (round 10, E3; theorems C16_abbrev_formula … C16_abbrev_decorated quantify over
        # all of them): each of the 60 (abbreviation, key) pairs of Spec.abbrevPairs (58 single-letter forms + `x=y` + `y=x`)
        # × every decoration of the specification × random admissible styles (junk, case, index digits, `<=`/`==`), rendered by
        # the driver's Spec.renderAbbrev; expected = the pair's key and the decoration's negation flag
        abbrev_pairs = [(a, k, bare) for a, k, bare in T["abbrevPairs"]]
        assert len(abbrev_pairs) == 60 and len({b for _, _, b in abbrev_pairs}) == 60, "abbrevPairs: 58 + 2 distinct bare forms"
        n_ab = 1 if ctx.tier == "quick" else 25
        reqs, meta = [], []
        for a, k, bare in abbrev_pairs:
            for deco in decorations + [None] * 4:
                for _ in range(n_ab):
                    junk = []
                    for i in range(8):
                        ln = rng.choice([0, 0, 1, 1, 2, 3])
                        junk.append("".join(rng.choice(JUNK_POOL) for _ in range(ln)))
                    style = {
                        "up": [rng.random() < 0.4 for _ in range(4)],
                        "idx": [rng.choice([None, None, 1, 2, rng.randrange(10)]) for _ in range(4)],
                        "ops": [rng.choice("ca") for _ in range(3)],
                        "junk": junk,
                    }
                    reqs.append({"op": "c16.renderAbbrev", "key": k, "abbrev": a, "style": style})
                    meta.append((a, k, bare, deco))
        rendered = drv.batch(reqs)
        abbrev_meta, abbrev_rendered = [(a, k, bare, deco) for a, k, bare, deco in meta], rendered
        for (a, k, bare, deco), r in zip(meta, rendered):
            assert r["junkOk"] and r["applies"], (a, k)
            if deco is None:  # white-space variants of the markers: theorem-backed since round 11 (C16_abbrev_spaced)
                pre, post = rng.choice(ws_markers)
                neg = True
                stream = "abbreviation×junk×ops×index×case×white-space variants of the negation markers"
            else:
                pre, post, neg = deco
                stream = "abbreviation×junk×ops×index×case×decoration"
            s_ab = pre + r["s"] + post
            if stated_negation(s_ab) is not neg:  # the decoration's flag IS the property's "carries `!`, `not ` or ` not`"
                ctx.broken.append("spec:abbreviation decoration flag ≠ stated negation")
                ctx.notes.append({"spec-flag-disagreement": s_ab, "flag": neg, "stated": stated_negation(s_ab)})
            cases.append((stream, s_ab, ("ok", k, neg), False))
            ctx.dist("abbrev:kind=" + a)
            ctx.dist("abbrev:deco=" + repr((pre, post)))

        # 2c. SPACED decorations (round 11, B3; theorems C16_formula_spaced / C16_abbrev_spaced quantify over ALL decoration
        # texts: any white space, any number of the words `not` / `is` in any case, `!`; C16_names_spaced / _bang for names):
        # formula spellings, abbreviated spellings and names under every shape of SPACED_SHAPES, the white space next to each
        # word / marker being 1-4 characters of every model kind (bounded-exhaustive: each single character at every position
        # of every shape; then random). The text, the admissibility of the decoration, the flag of the property's clause
        # (Spec.carriesNeg) and the flag the decoration carries by construction (Spaced.neg) all come from the driver.
        n_sp = 1200 if ctx.tier == "quick" else 60000
        formula_pool = [(k, r["s"]) for (k, _), r in zip(formula_meta, formula_rendered)]
        abbrev_pool = [(k, r["s"]) for (_, k, _, _), r in zip(abbrev_meta, abbrev_rendered)]
        name_pool = []
        for n, k in aliases:
            for m in ([], [True] * len(n), [rng.random() < 0.5 for _ in n]):
                name_pool.append((n, k, drv.call("c16.renderName", name=n, mask=m)["s"]))
        reqs, meta = [], []
        for shape in SPACED_SHAPES:
            for c in WS:  # bounded-exhaustive: one character of each kind at every position of the shape
                for kind, (k, x) in (("formula", formula_pool[0]), ("formula", rng.choice(formula_pool)),
                                     ("abbrev", abbrev_pool[0]), ("abbrev", rng.choice(abbrev_pool))):
                    reqs.append(spaced_req(rng, x, shape, fixed=c))
                    meta.append((kind, k, None, shape, "bx"))
                for n, k, x in (name_pool[0], rng.choice(name_pool)):
                    reqs.append(spaced_req(rng, x, shape, fixed=c))
                    meta.append(("name", k, n, shape, "bx"))
        for _ in range(n_sp):
            shape = rng.choice(SPACED_SHAPES)
            k, x = rng.choice(formula_pool)
            reqs.append(spaced_req(rng, x, shape))
            meta.append(("formula", k, None, shape, "random"))
        for _ in range(n_sp // 2):
            shape = rng.choice(SPACED_SHAPES)
            k, x = rng.choice(abbrev_pool)
            reqs.append(spaced_req(rng, x, shape))
            meta.append(("abbrev", k, None, shape, "random"))
        for _ in range(n_sp // 2):
            shape = rng.choice(SPACED_SHAPES)
            n, k, x = rng.choice(name_pool)
            reqs.append(spaced_req(rng, x, shape))
            meta.append(("name", k, n, shape, "random"))
        for (kind, k, n, shape, how), q, r in zip(meta, reqs, drv.batch(reqs)):
            assert r["ok"] and r["decoOk"], q
            s_sp = r["s"]
            if r["carries"] is not r["neg"]:  # the clause of the property on the text IS the flag the decoration carries (spaced_flag)
                ctx.broken.append("spec:Spaced.neg ≠ carriesNeg")
                ctx.notes.append({"spec-flag-disagreement": s_sp, "neg": r["neg"], "carries": r["carries"]})
            if stated_negation(s_sp) is not None and stated_negation(s_sp) is not r["carries"]:
                ctx.broken.append("spec:carriesNeg ≠ stated negation")
                ctx.notes.append({"spec-flag-disagreement": s_sp, "stated": stated_negation(s_sp), "carries": r["carries"]})
            ctx.dist("spaced:shape=" + shape[0])
            for c in set("".join([q["outerL"], q["outerR"], q["bang"] or ""] + [w[1] for w in q["pre"] + q["post"]])):
                ctx.dist("spaced:ws=" + repr(c))
            if kind in ("formula", "abbrev"):
                stream = ("formula" if kind == "formula" else "abbreviation") + "×junk×ops×index×case×SPACED decoration (any white space)"
                cases.append((stream, s_sp, ("ok", k, r["carries"]), False))
            else:
                # names: the code tolerates extra white space only AFTER the literal space of `not `, BEFORE the one of ` not`
                # and after `!` (C16_names_spaced, _suffix, _bang); every other spaced name is compared with the model only
                # (C16_names_spaced_limits: `not\tafter`, `is  after` … are ValueErrors — finding B3)
                backed = ((shape[0] == "!X") or (shape[0] == "not X" and q["pre"][0][1].startswith(" "))
                          or (shape[0] == "X not" and q["post"][0][1].endswith(" ")))  # C16_names_spaced_suffix
                stream = "names×case×SPACED decoration (" + ("theorem-backed" if backed else "differential only") + ")"
                cases.append((stream, s_sp, ("ok", k, True) if backed else None, False))

        # 3. arbitrary strings over the model alphabet, and mutated spellings
        n_arb = 4000 if ctx.tier == "quick" else 400000
        toks = ["x", "y", "<", "=", "≤", "<=", "==", " ", "not", "is", "!", "x1", "y2", "(", ")", "after", "in", "n", "X", "Y", "\t", "_", "is ", " not"]
        for i in range(n_arb):
            mode = i % 4
            if mode == 0:
                s = "".join(rng.choice(toks) for _ in range(rng.randrange(0, 10)))
            elif mode == 1:
                s = "".join(rng.choice(MODEL_ALPHABET) for _ in range(rng.randrange(0, 12)))
            elif mode == 2:  # mutate a good spelling
                base = list(rng.choice(cases)[1])
                for _ in range(rng.randrange(1, 3)):
                    op = rng.randrange(3)
                    pos = rng.randrange(len(base) + 1)
                    if op == 0 and base:
                        del base[min(pos, len(base) - 1)]
                    elif op == 1:
                        base.insert(pos, rng.choice(MODEL_ALPHABET))
                    elif base:
                        base[min(pos, len(base) - 1)] = rng.choice(toks)
                s = "".join(base)
            else:
                n, _ = rng.choice(aliases)
                s = rng.choice(["", " ", "is ", "not ", "!", "isnot "]) + n + rng.choice(["", " ", " is", " not", "_not", "s"])
            cases.append(("arbitrary+mutated (model alphabet)", s, None, False))

        # run: model in batch, implementation in-process
        models = drv.batch([{"op": "c16.model", "s": s} for _, s, _, _ in cases])
        ctx.cov["rule"] = (
            "spelling streams: every key/name/abbreviation × every decoration of the specification, formula spellings of all "
            "162 keys × 8 operator-style triples with random junk/indices/case rendered by the driver's Spec.renderFormula; "
            "abbreviated spellings: the 60 (abbreviation, key) pairs of Spec.abbrevPairs (58 single-letter forms, x=y, y=x) × the 18 "
            "decorations (+ white-space variants of the markers) × random junk/indices/case/operator styles rendered by the driver's "
            "Spec.renderAbbrev; "
            "SPACED decorations (round 11): formula spellings, abbreviated spellings and names under 13 shapes of decoration (`!`, "
            "`not`, `is` and their combinations, prefix and suffix) rendered by the driver's Spec.renderSpaced, the white space next to "
            "each word / marker being each single model white-space character (space, tab, LF, CR, VT, FF) at every position, then 1-4 "
            "random ones; expected key and flag (Spec.carriesNeg) from the driver; "
            "arbitrary stream: random and mutated strings over the model alphabet. A case is non-trivial when it is not a bare "
            "canonical key (some rewriting, decoration or junk applied); distinct = distinct strings."
        )
        n_dis = 0
        n_ab_samples = 0
        for (stream, s, expected, trivial), m in zip(cases, models):
            real = real_call(np_mod, cs, s)
            mo = model_out(m)
            ctx.count(stream, s, nontrivial=not trivial)
            ctx.dist("outcome:" + (real[0] if real[0] == "exc" else "key"))
            if expected is not None and real != expected:
                n_dis += 1
                ctx.violations.append({
                    "what": f"tolerated spelling {s!r} of {expected[1]!r} resolves to {real}",
                    "replay": {"kind": "spelling", "stream": stream, "input": s, "expected": expected, "impl": real, "model": mo},
                })
            elif real[0] == "exc" and real[1] != "ValueError":
                n_dis += 1
                ctx.violations.append({
                    "what": f"normalize_predicate({s!r}) raises {real[1]} (only ValueError is allowed)",
                    "replay": {"kind": "exception", "input": s, "impl": real, "model": mo},
                })
            elif real[0] == "ok" and real[1] not in keys:
                n_dis += 1
                ctx.violations.append({
                    "what": f"normalize_predicate({s!r}) returns something that is not one of the 162 table entries",
                    "replay": {"kind": "not-a-table-entry", "input": s, "impl": real, "model": mo},
                })
            elif real[0] == "ok" and stated_negation(s) is not None and real[2] != stated_negation(s):
                n_dis += 1  # (seeded change C16-j: `not ` right after a non-blank character no longer detected)
                ctx.violations.append({
                    "what": f"normalize_predicate({s!r}) is reported negated={real[2]} whereas it "
                            f"{'carries' if stated_negation(s) else 'carries neither'} `!`, `not ` or ` not`",
                    "replay": {"kind": "negation", "input": s, "impl": real, "model": mo, "stated": stated_negation(s)},
                })
            elif real != mo:
                n_dis += 1
                ctx.broken.append(f"corr:{stream}")
                if len(ctx.notes) < 10:
                    ctx.notes.append({"corr-disagreement": s, "impl": real, "model": mo})
            if stream.startswith("formula") and len(ctx.cov["samples"]) < 3 and rng.random() < 0.01:
                ctx.sample({"input": s, "expected": expected, "impl": real, "model": mo})
            if stream.startswith("abbreviation×junk") and n_ab_samples < 3 and rng.random() < 0.01:
                n_ab_samples += 1
                ctx.sample({"input": s, "expected": expected, "impl": real, "model": mo})
        ctx.sample({"input": "  Is NOT  y1 < x1 == (X2) <= y2 ", "impl": real_call(np_mod, cs, "  Is NOT  y1 < x1 == (X2) <= y2 "),
                    "model": model_out(drv.call("c16.model", s="  Is NOT  y1 < x1 == (X2) <= y2 "))})
        ctx.sample({"input": "x>y", "impl": real_call(np_mod, cs, "x>y"), "model": model_out(drv.call("c16.model", s="x>y"))})

        # 4. implementation-only Unicode stream: no exception other than ValueError
        n_uni = 2000 if ctx.tier == "quick" else 200000
        pool = ["İ", "K", "ß", " ", " ", "\x1c", "\x85", "Ｘ", "ｙ", "≦", "＝", "​", "é", "𝑥", "퟿", "\x00", "x", "y", "<", "=", "≤", " ", "not", "is", "!"]
        for _ in range(n_uni):
            s = "".join(rng.choice(pool) for _ in range(rng.randrange(0, 9)))
            real = real_call(np_mod, cs, s)
            ctx.count("unicode (implementation only)", s, nontrivial=True)
            if (real[0] == "exc" and real[1] != "ValueError") or (real[0] == "ok" and real[1] not in keys):
                ctx.violations.append({
                    "what": f"normalize_predicate({s!r}) -> {real}",
                    "replay": {"kind": "unicode", "input": s, "impl": real},
                })
        ctx.cov["disagreements_checked"] = n_dis
    finally:
        drv.close()
    ctx.broken = sorted(set(ctx.broken))
    ctx.cov["trusted_base"] = core.BASE_TRUST + [
        "hand-written model NP.normalize of normalize_predicate.py (Model/NormalizePredicate.lean): lower/strip/\\s/\\b are modelled on "
        "ASCII + '≤' '…' only; its agreement with the Python on the model alphabet is established by this differential run",
        "the name dictionary is the translator-generated table (see C08)",
        "Spec/NormalizePredicate.lean: the grammar of tolerated spellings (formula styles, case masks, decorations, abbreviations, "
        "renderAbbrev/Abbrev.applies: which letters an abbreviation keeps)",
    ]
    ctx.cov["proved"] = [
        "C16_total", "C16_canonical", "C16_names", "C16_abbrev",
        "C16_formula (all junk strings, all 162 keys, all operand/operator styles)", "C16_formula_bang",
        "C16_formula_not_prefix / _not_prefix_spaces / _not_suffix / _is_prefix / _is_suffix / _is_not / "
        "_is_prefix_not_suffix / _is_not_suffix / _not_is / _bang_is / _bang_is_suffix (every formula spelling, unbounded junk, "
        "any case of `not`/`is`, any outer whitespace; no side condition on the adjacent junk is needed)",
        "C16_formula_decorated (each of the 18 decorations of Spec.NP.decorations around every formula spelling)",
        "C16_abbrev_all, C16_abbrev_covers (the 58 + 2 bare abbreviations; they are the undecorated Spec.renderAbbrev)",
        "C16_abbrev_expands (the code's expansion step sends the salvaged abbreviated spelling to the key, as the full spelling)",
        "C16_abbrev_formula / _bang / _not_prefix / _not_suffix / _is_prefix / _is_suffix / _is_not / _is_prefix_not_suffix / "
        "_is_not_suffix / _not_is / _bang_is / _bang_is_suffix / _decorated (every abbreviated spelling of every key that has one: "
        "unbounded junk, either case, index digits, `<=`/`==`, any case of `not`/`is`, any outer whitespace)",
        "C16_formula_spaced / C16_abbrev_spaced (round 11, B3: every formula / abbreviated spelling between ANY two decoration texts — "
        "strings over the model's white space, `!` and the letters of `not` / `is` in either case, unbounded: any white space of any "
        "length next to each word or marker, any number of words — resolves to its key and is negated exactly when the stripped "
        "lower-cased text starts with `!`, carries `not`+white space or white space+`not` (Spec.carriesNeg))",
        "C16_formula_spaced_render / C16_abbrev_spaced_render (every admissible Spaced decoration — outer white space, optional `!` + any "
        "white space, any number of prefix words each followed by an arbitrary non-empty white-space string, suffix words each preceded "
        "by one — around every formula / abbreviated spelling: the key, and the flag Spaced.neg the decoration carries by construction: "
        "`!`, a prefix `not<ws>` or a suffix `<ws>not`); C16_formula_spaced_not_prefix / _not_suffix / _is_prefix / _is_suffix (the "
        "single-space theorems with ANY non-empty white-space string next to the word)",
        "C16_names_spaced / C16_names_spaced_suffix / C16_names_spaced_bang (19 names, every case: any white space after the literal "
        "space of `not `, before the literal space of a trailing ` not`, and after `!`); "
        "C16_names_spaced_limits (kernel-checked witnesses of what the code rejects around names: `not\\tafter`, `after\\tnot`, "
        "`is  after`, `after  is` are ValueErrors, while the same decorations are accepted around `x<y`)",
        "C16_name_case / C16_name_mask (19 names, every case mask, any outer whitespace)",
        "C16_name_decorated (19 names x 12 lower-case decorations, every case of every letter, any outer whitespace)",
        "C16_name_spec_decorated (19 names x the 18 decorations of Spec.NP.decorations x every case mask)",
    ]
    ctx.cov["exercised_only"] = [
        "spaced NAME spellings outside C16_names_spaced / _suffix / _bang: combinations with `is` (`is not  after`: accepted) are "
        "compared with the model only; the spaced NAME spellings the code rejects (any white space other than the literal space next to "
        "`not`, more than the single space next to `is`: ValueError in code and model alike, witnesses in C16_names_spaced_limits — "
        "finding B3, reported, not a violation of a theorem)",
        "Unicode beyond the model alphabet (implementation-only stream: no exception other than ValueError)",
    ]
    ctx.assumptions += ["model alphabet: ASCII 0x09-0x0D, 0x20-0x7E, '≤', '…'"]
    if not ctx.violations and (not ctx.proofs_ok or ctx.broken):
        ctx.violations.append({
            "no_input": True,
            "what": "proof or correspondence no longer checks",
            "replay": {"kind": "no-failing-input-found", "no_longer_checks": ctx.broken, "notes": ctx.notes[:10],
                       "build_errors": ctx.cov.get("build_errors"),
                       "searched": "all specification spellings + arbitrary/mutated strings: the implementation satisfied the property on each"},
        })
    return core.finish(ctx)


def replay(ctx, path):
    core.import_repo()
    import importlib

    np_mod = importlib.import_module("paroxython.normalize_predicate")
    cs = importlib.import_module("paroxython.compare_spans").compare_spans
    obj = json.load(open(path, encoding="utf-8"))
    s = obj.get("input", "")
    drv = core.Driver()
    print("input   :", repr(s))
    print("impl    :", real_call(np_mod, cs, s))
    print("model   :", model_out(drv.call("c16.model", s=s)))
    print("expected:", obj.get("expected"))
    drv.close()
    return 0
