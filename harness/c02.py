"""C02 — every reported span is a valid line range of the stored listing (partial).

Proved (Props/C02.lean) and tied by correspondence here: the spans scheduled by hints
(`get_program`), the span of the `ast_construction:*` label, `get_bindings` / `pos_to_span`.
Exercised only (the property predicate `c02.spec_valid` evaluated on everything the real entry
points print or store, no theorem): the 171 other regex features, the SQL-derived spans, CPython's
line numbers, `meta/program` — through `paroxython.cli_tag.main` (`tag`) and
`paroxython.make_db.TagDatabase` (`collect`, both cleanup strategies) on generated programs and on
/repo/examples.
"""
import ast as pyast
import json
import re
import shutil
from pathlib import Path

from . import core
from . import c12 as H

SIG_FS = ("C02:hint span outside the stored listing: a separator 0x1c-0x1f (white space for str.strip, not for the regex "
          "\\s) is all that precedes a hint comment on the first/last line")
SIG_ASYNC = "C02:decorated async def (AsyncFunctionDef missing from the body-last reordering): start > end"
SIG_LONE = "C02:no meta/program for a program whose flat AST has a single _pos line (lone pass / import)"
SIG_EMPTYPROG = "C02:comment-only program: ast_construction:EmptyProgramError on 0-0 while the stored source is not empty"
SIG_POSSTR = "C02:string literal containing `_pos=`: a feature regex captures a position inside the literal (span outside the listing)"
SIG_HINTPATH = ("C02:label added by a hint (empty path) under the name of a feature that nesting SQL queries select from "
                "(function:, loop:, ...): derived spans with start > end")
SIG_DECOSCOPE = ("C02:comprehension inside a decorator: the scope of its variable mixes the `def` line of the decorated "
                 "function with the decorator line (start > end)")
PREREQ = set()  # names of the tables the SQL queries of spec.md select from (filled by run)


def parse_spans(cell):
    out = []
    for piece in cell.split(","):
        piece = piece.strip()
        if not piece:
            continue
        m = re.fullmatch(r"(-?\d+)(?:-(-?\d+))?", piece)
        if not m:
            out.append(None)
            continue
        s = int(m.group(1))
        e = int(m.group(2)) if m.group(2) is not None else s
        out.append([s, e])
    return out


def parse_table(md):
    rows = []
    for line in md.split("\n")[2:]:
        m = re.fullmatch(r"\| `(.*)` \| (.*) \|", line)
        if m:
            rows.append((m.group(1), parse_spans(m.group(2))))
    return rows


def parsable(source):
    try:
        tree = pyast.parse(source)
    except (SyntaxError, ValueError):
        return None
    return tree if tree.body else None


def positioned_nodes(tree):
    return sum(1 for n in pyast.walk(tree) if hasattr(n, "lineno") and not isinstance(n, pyast.alias)
               and not isinstance(n, (pyast.expr_context,)))


def classify_program(stored, raw):
    """Narrow signatures of the known findings, from the (minimised) failing program."""
    lines = raw.split("\n")
    # the open finding first, then the repaired ones (a fixed entry suppresses nothing, but a harmless feature of a
    # repaired finding must not mask the open one)
    for m in re.finditer(r"(?i)#\s*paroxython\s*:\s*(.*)", raw):
        for tok in m.group(1).split():
            if not tok.startswith(("-", "...", "…")) and tok.lstrip("+").split(":")[0].rstrip(".…") in PREREQ:
                return SIG_HINTPATH
    if re.search(r"(?m)^\s*@.*\bfor\b.+\bin\b", stored):  # repaired (8ca25b9)
        return SIG_DECOSCOPE
    if any(0x1C <= ord(ch) <= 0x1F for ch in raw):  # repaired (80f9da8)
        return SIG_FS
    if re.search(r"(?m)^\s*@.*\n\s*async\s+def\b", stored):  # repaired (d0d94f6)
        return SIG_ASYNC
    if "_pos=" in stored:  # repaired (b1d74a8)
        return SIG_POSSTR
    return None


# ------------------------------------------------------------------------------ proved part: streams

def stream_hint_spans(ctx, impl, drv):
    """get_program on layouts and decorated programs: impl == model, and the property predicate on
    every scheduled span of the implementation."""
    srcs = []
    kinds = H.layouts(3, 1, H.POOL[:9])
    import itertools
    for k in (1, 2, 3):
        for t in itertools.product(kinds, repeat=k):
            srcs.append("\n".join(t))
    if ctx.tier == "quick" and len(srcs) > 8000:
        srcs = ctx.rng.sample(srcs, 8000)
    n = 1200 if ctx.tier == "quick" else 20000
    for _ in range(n):
        rng = ctx.rng
        base = H.gen_base(rng, 1, 5) if rng.random() < 0.9 else [rng.choice(H.CODE) for _ in range(rng.randint(1, 5))]
        layout = H.gen_decorated(rng, base, labels=H.LABELS[:8] + ["été", "变量", "λ"])
        lead, trail = rng.choice([0, 0, 0, 1, 2]), rng.choice([0, 0, 0, 1, 2])
        spec = drv.call("c12.spec_decorate", lines=layout)
        blank = lambda: rng.choice(["", "", " ", "\t", "   "])  # noqa: E731
        src = "".join(blank() + "\n" for _ in range(lead)) + spec["src"] + "".join("\n" + blank() for _ in range(trail))
        if rng.random() < 0.25:  # a hint alone on a line outside the blank / whitespace-only end lines
            src = ("# paroxython: outer\n" + src) if rng.random() < 0.5 else (src + "\n# paroxython: outer")
        if rng.random() < 0.1:
            ls = src.split("\n")
            ls.insert(rng.randrange(len(ls) + 1), rng.choice(["# paroxython: ", "   # paroxython:  ", "# paroxython:"]))
            src = "\n".join(ls)
        srcs.append(src)
    # whitespace-only lines (not only empty ones) between a hint alone on a line and the code, at both ends
    for ws in (" ", "\t", "  ", " \t ", "\x0c"):
        for code in ("x = 1", "x = 1 # paroxython: bar", "if x:\n    y = 2 # paroxython: -bar"):
            srcs += ["# paroxython: foo\n" + ws + "\n" + code, code + "\n" + ws + "\n# paroxython: foo",
                     "# paroxython: foo\n" + ws + "\n" + ws + "\n" + code + "\n" + ws + "\n  # paroxython: baz\n",
                     ws + "\n# paroxython: foo\n" + ws + "\n" + code + "\n" + ws]
    for fs in ("\x1c", "\x1f"):  # the separators str.strip() treats as white space and the regex \\s does not
        srcs += [fs + " # paroxython: foo\nx = 1 # paroxython: bar", "x = 1 # paroxython: bar\n" + fs + "# paroxython: foo",
                 fs + "x = 1 # paroxython: bar", "y\n" + fs + " # paroxython: a... ...a\nx = 1 # paroxython: bar"]
    # hint comments glued to the code with hints alone on a line (F45); empty hint comments at the end of a line or alone (F46)
    for glued in ("x = 1#paroxython:a", "x = 1# paroxython : a... ...a", "if x:#Paroxython:-a"):
        srcs += [glued + "\n# paroxython: b\ny = 2\n", "# paroxython: b\n" + glued + "\n    y = 2", "y = 2\n" + glued + "\n    # paroxython: b",
                 glued + "\n# paroxython: b"]
    for empty in ("# paroxython:", "#paroxython:", "# paroxython:   ", "# Paroxython :"):
        srcs += ["x = 1\ny = 2 " + empty + "\n", "x = 1\ny = 2 " + empty, "x = 1 " + empty + "\ny = 2 # paroxython: a", empty + "\nx = 1 # paroxython: a",
                 "x = 1 # paroxython: a\n" + empty, "x = 1" + empty + "\n# paroxython: b\ny = 2" + empty]
    srcs = [s for s in dict.fromkeys(srcs) if impl.admissible(s)]
    res = drv.call("c02.get_program", srcs=srcs)["r"]
    bad_corr = 0
    viol = {}
    for s, m in zip(srcs, res):
        g = impl.get_program(s)
        m = H.canon_model_program(m)
        ctx.count("hint-spans", s, nontrivial=H.MARK in s)
        if g != m:
            bad_corr += 1
            if bad_corr <= 2:
                ctx.cov["disagreements_checked"] += 1
                ctx.broken.append("corr:hint-spans")
                ctx.notes.append({"stream": "hint-spans", "src": s, "impl": g, "model": m})
        if "exc" in g or g["source"] == "":
            ctx.dist("hint-spans:no-schedule-or-empty-source")
            continue
        spans = [sp for d in (g["addition"], g["deletion"]) for v in d.values() for sp in v]
        if not spans:
            continue
        ok = drv.call("c02.spec_valid", listing=g["source"], spans=spans)
        ctx.dist("hint-spans:checked", len(spans))
        if "0" in ok["r"]:
            sig = classify_program(g["source"], s)
            viol.setdefault(sig, []).append(s)
    for sig, cases in viol.items():
        ctx.dist(f"hint-spans:invalid[{sig and sig[4:40]}]", len(cases))

        def fails(t, sig=sig):
            g = impl.get_program(t)
            if "exc" in g or g["source"] == "":
                return False
            spans = [sp for d in (g["addition"], g["deletion"]) for v in d.values() for sp in v]
            return bool(spans) and "0" in drv.call("c02.spec_valid", listing=g["source"], spans=spans)["r"] \
                and classify_program(g["source"], t) == sig

        small = H.shrink(min(cases, key=len), fails)
        g = impl.get_program(small)
        spans = [sp for d in (g["addition"], g["deletion"]) for v in d.values() for sp in v]
        ok = drv.call("c02.spec_valid", listing=g["source"], spans=spans)
        ctx.violations.append({
            "what": "a span scheduled by a hint is not a valid line range of the stored source",
            "signature": sig,
            "replay": {"kind": "hint-span", "src": small, "impl": g,
                       "model": H.canon_model_program(drv.call("c02.get_program", srcs=[small])["r"][0]),
                       "spec": {"nlines": ok["nlines"], "valid": ok["r"], "spans": spans},
                       "how": "get_program(src).addition/.deletion vs .source"},
        })


GARBAGE = ["x = (1,", "def f(:", "x = 1\n  y = 2", "'abc", "x = \"\"\"abc", "1 +", "if x", "\x00", "print 'a'", "a = 1\n\n\nb = (",
           "class A\n    pass", "return", "# only a comment", "# a\n\n# b", "", "x = 1;;", "\tx = 1\n        y = 2", "lambda: (yield)", "x = 0777", "f(**k, *a)"]


def stream_error_span(ctx, impl, drv):
    n = 150 if ctx.tier == "quick" else 3000
    parser = impl.pp.ProgramParser()
    srcs = []
    for _ in range(n):
        rng = ctx.rng
        g = rng.choice(GARBAGE)
        pre = "\n".join(rng.choice(H.CODE[:4]) for _ in range(rng.randint(0, 3)))
        src = (pre + "\n" if pre else "") + g + "\n" * rng.choice([0, 0, 1, 2])
        srcs.append(src)
    srcs = list(dict.fromkeys(srcs))
    model = drv.call("c02.error_span", srcs=srcs)["r"]
    for src, m in zip(srcs, model):
        prog = impl.ut.Program(labels=[], taxa=[], addition={}, deletion={}, source=impl.ut.Source(src))
        try:
            labels = H.quiet(parser, prog)
        except Exception as e:  # noqa
            ctx.dist(f"error-span:parser-exception:{type(e).__name__}")
            parser = impl.pp.ProgramParser()
            continue
        if not (len(labels) == 1 and labels[0].name.startswith("ast_construction:")):
            ctx.dist("error-span:parsable")
            continue
        sp = labels[0].spans[0]
        ctx.count("error-span", src, nontrivial=True)
        ctx.dist(f"error-span:{labels[0].name}")
        if [sp.start, sp.end] != m[:2]:
            ctx.cov["disagreements_checked"] += 1
            ok = drv.call("c02.spec_valid", listing=src, spans=[[sp.start, sp.end]])
            if "0" in ok["r"]:
                ctx.violations.append({"what": "the span of the ast_construction label is not a valid range of the source",
                                       "signature": None,
                                       "replay": {"kind": "error-span", "src": src, "impl": [sp.start, sp.end], "model": m,
                                                  "spec": ok}})
            else:
                ctx.broken.append("corr:error-span")
                ctx.notes.append({"stream": "error-span", "src": src, "impl": [sp.start, sp.end], "model": m})
        elif m[1] != m[2]:
            ctx.broken.append("model:errorSpan-vs-lineCount")


def stream_bindings(ctx, impl, drv):
    n = 600 if ctx.tier == "quick" else 20000
    for _ in range(n):
        rng = ctx.rng
        npos = rng.randint(1, 5)

        def pos():
            r = rng.random()
            line = str(rng.randint(1, 40))
            path = "-".join(str(rng.randint(0, 9)) for _ in range(rng.randint(0, 4))) + "-"
            if r < 0.85:
                return f"{line}:{path}"
            return rng.choice([f"{line}", f"{line}:{path}:x", f"x:{path}", f":{path}", f"{line}:", "", f"{line}:a:b"])

        caps = {"POS": [pos() for _ in range(npos)]}
        r = rng.random()
        if r < 0.3:
            pass
        elif r < 0.4:
            caps["SUFFIX"] = []
        elif r < 0.7:
            caps["SUFFIX"] = [rng.choice(["a", "b", "x:y", ""]) for _ in range(npos)]
        else:
            caps["SUFFIX"] = [rng.choice(["a", "b", "x:y", ""]) for _ in range(rng.randint(1, 4))]
        label = rng.choice(["for", "node", "literal", "a_b"])
        try:
            real = {"r": [[nm, sp.start, sp.end, sp.path] for nm, sp in impl.pp.get_bindings(label, caps)]}
        except ValueError:
            real = {"exc": "ValueError"}
        except Exception as e:  # noqa
            real = {"exc": f"Other({type(e).__name__})"}
        m = drv.call("c02.get_bindings", label=label, pos=caps["POS"], suffix=caps.get("SUFFIX", []))
        ctx.count("get_bindings", (label, json.dumps(caps, sort_keys=True)), nontrivial=True)
        ctx.dist("get_bindings:" + ("exc" if "exc" in real else "ok"))
        if real != m:
            ctx.cov["disagreements_checked"] += 1
            unordered = [b for b in real.get("r", []) if b[1] > b[2]]
            if unordered:  # the property itself (C02_binding_ordered): start <= end
                ctx.violations.append({"what": "get_bindings yields a span with start > end",
                                       "signature": None,
                                       "replay": {"kind": "binding", "label": label, "captures": caps, "impl": real, "model": m,
                                                  "spec": "start <= end (the ordered pair of the captured lines)"}})
            else:
                ctx.broken.append("corr:get_bindings")
                ctx.notes.append({"stream": "get_bindings", "input": [label, caps], "impl": real, "model": m})
            break
        if "r" in real:  # the theorem's reading: start / end are the lines of the first / last (or paired) POS
            first, last = caps["POS"][0].split(":")[0], caps["POS"][-1].split(":")[0]
            paired = bool(caps.get("SUFFIX")) and len(caps["SUFFIX"]) == len(caps["POS"])
            for k, (nm, s, e, path) in enumerate(real["r"]):
                exp = (int(caps["POS"][k].split(":")[0]),) * 2 if paired else tuple(sorted((int(first), int(last))))
                if (s, e) != exp:
                    ctx.violations.append({"what": "get_bindings: span is not the ordered pair of the lines of the first and last POS",
                                           "signature": None,
                                           "replay": {"kind": "binding", "label": label, "captures": caps, "impl": real, "model": m,
                                                      "spec": list(exp)}})


# --------------------------------------------------------------------- exercised-only part: tag/collect

STMTS = [
    ["x = 1"], ["y = x + 1"], ["print(x)"], ["import os"], ["from m import a, b"], ["pass"],
    ["for i in range(3):", "    print(i)"], ["while x:", "    x -= 1", "else:", "    pass"],
    ["if x:", "    y = 2", "elif y:", "    y = 3", "else:", "    y = 4"],
    ["def f(a, b=1):", "    return a + b"], ["class A(B):", "    def m(self):", "        return self.x"],
    ["try:", "    f()", "except E as e:", "    raise", "finally:", "    g()"],
    ["with open(p) as h:", "    s = h.read()"], ["@dec", "def g():", "    pass"],
    ["@dec", "async def h():", "    await k()"], ["async def k():", "    pass"],
    ["z = [i * i for i in range(10) if i % 2]"], ["t = (", "    1,", "    2,", ")"],
    ["s = '''a", "b'''"], ["lambda q: q"], ["assert x, 'm'"], ["print(\"_pos=7:1-\")"], ["@dec([q for q in range(3)])", "def g2():", "    pass"],
    ["# type: ignore"], ["w = []  # type: list"], ["def g3(a):  # type: ignore", "    return a"],
    ["def g4(a):", "    # type: (int) -> int", "    return a"], ["# type: some prose, not a type"],
    ["print(x)  # type: prose after a call"], ["v = 1  # type: ignore"], ["x = b\"it's\""], ["d = {k: v for k, v in p}"],
    ["def r(n):", "    if n < 2:", "        return n", "    return r(n - 1) + r(n - 2)"],
    ["global_v: int = 3"], ["del x"], ["x = y = 0"], ["a, b = b, a"],
    # shapes the SQL queries of spec.md derive labels from (closures, nested and recursive functions, generators, nested
    # loops, accumulations); drawn twice in one program they are HOMONYMOUS, which is what the grouping keys of those
    # queries must survive (seeded change C02-j: `closure` grouped by names instead of rowid, span 8-6)
    ["def mk(n):", "    def add(x):", "        return x + n", "    return add"],
    ["if D:", "    def deco(f):", "        def wrapper(*a):", "            return f(*a)", "        return wrapper", "else:",
     "    def deco(f):", "        def wrapper(*a):", "            print(a)", "            return f(*a)", "        return wrapper"],
    ["def gen(n):", "    for i in range(n):", "        yield i"],
    ["for i in range(3):", "    for j in range(i):", "        print(i, j)"],
    ["acc = 0", "for e in seq:", "    acc += e"], ["res = []", "for e in seq:", "    if e:", "        res.append(e)"],
    ["class A:", "    def m(self):", "        return 1", "class A:", "    def m(self):", "        return self.m()"],
    ["def f(a):", "    return a", "def f(a, b):", "    return f(a)"],
    ["def out():", "    def inn():", "        def inn2():", "            return out", "        return inn2", "    return inn"],
]


def gen_program(rng, real_programs):
    r = rng.random()
    if real_programs and r < 0.35:
        lines = list(rng.choice(real_programs))
        if len(lines) > 60:
            return None
    elif r < 0.45:
        lines = list(rng.choice([["pass"], ["import os"], ["x"], ["# only a comment"], ["'''doc'''"], ["x = (1,"], [""],
                                 ["@d", "async def f():", "    pass"], ["def f(:"]]))
    else:
        lines = []
        drawn = []
        for _ in range(rng.randint(1, 5)):
            drawn.append(rng.choice(drawn) if drawn and rng.random() < 0.2 else rng.choice(STMTS))  # homonyms
            lines += drawn[-1]
            if rng.random() < 0.15:
                lines.append("")
            if rng.random() < 0.1:
                lines.append("# a comment")
    # hints: trailing, isolated, multi-line, anywhere including the first line
    nb = [i for i, l in enumerate(lines) if l.strip() and not l.strip().startswith("#")]
    if nb and rng.random() < 0.6:
        for _ in range(rng.randint(1, 3)):
            k = rng.random()
            L = rng.choice(["foo", "meta/topic/fun", "flow/conditional", "bar:baz", "bar:baz", "foo", "été", "变量", "λ:x",
                            rng.choice(["function:g", "loop:for", "if", "scope:v"])])
            if k < 0.5:
                i = rng.choice(nb)
                tok = f"{rng.choice(['', '+', '-'])}{L}"
                lines[i] += (" " + tok) if "# paroxython:" in lines[i] else f" # paroxython: {tok}"
            elif k < 0.75:
                i, j = sorted((rng.choice(nb), rng.choice(nb)))
                if "# paroxython:" in lines[i] or "# paroxython:" in lines[j]:
                    continue
                L2 = L + str(rng.randint(0, 99))
                if i == j:
                    lines[i] += f" # paroxython: {L2}... ...{L2}"
                else:
                    lines[i] += f" # paroxython: {L2}..."
                    lines[j] += f" # paroxython: ...{L2}"
            else:
                lines.insert(rng.choice([0, 0, len(lines), rng.randint(0, len(lines))]), "# paroxython: " + L)
    text = "\n".join(lines)
    text = "\n" * rng.choice([0, 0, 0, 0, 1, 2]) + text + "\n" * rng.choice([0, 1, 1, 1, 2])
    return text


def as_file_bytes(rng, raw):
    """The bytes of a program file as editors and platforms write them: LF, CRLF, CR-only (classic Mac), mixed line
    ends, a stray CR inside a comment, a UTF-8 byte order mark, a PEP 263 coding cookie. Returns (variant, bytes)."""
    variant = rng.choice(["lf"] * 5 + ["crlf", "crlf", "cr", "cr", "mixed", "stray-cr", "bom", "bom+crlf", "cookie", "cookie+cr"])
    text = raw
    if variant in ("crlf", "bom+crlf"):
        text = text.replace("\n", "\r\n")
    elif variant in ("cr", "cookie+cr"):
        text = text.replace("\n", "\r")
    elif variant == "mixed":
        text = "".join(ch if ch != "\n" else rng.choice(["\n", "\r\n", "\r"]) for ch in text)
    elif variant == "stray-cr":
        lines = text.split("\n")
        k = rng.randrange(len(lines))
        if "paroxython" not in lines[k].lower() and "'" not in lines[k] and '"' not in lines[k]:
            lines[k] += "  # a\rb"
        text = "\n".join(lines)
    if variant.startswith("cookie"):
        nl = "\r" if variant == "cookie+cr" else "\n"
        text = "# -*- coding: latin-1 -*-" + nl + text
    data = text.encode("utf-8")
    if variant.startswith("bom"):
        data = b"\xef\xbb\xbf" + data
    return variant, data


def check_spans(ctx, drv, entry, stored, named_spans, raw, viol):
    """Evaluate the property predicate on every (name, span) of one program."""
    if stored == "":
        ctx.dist(f"{entry}:empty-stored-source")
        return
    flat = [(nm, sp) for nm, sps in named_spans for sp in sps]
    if any(sp is None for _, sp in flat):
        viol.append((None, entry, raw, stored, [nm for nm, sp in flat if sp is None][:3], "unparsable span"))
        return
    if not flat:
        return
    ok = drv.call("c02.spec_valid", listing=stored, spans=[sp for _, sp in flat])
    ctx.count(entry, None, n=len(flat))
    ctx.dist(f"{entry}:spans", len(flat))
    if "0" in ok["r"]:
        bad = [(nm, sp) for (nm, sp), b in zip(flat, ok["r"]) if b == "0"]
        if all(nm.endswith("EmptyProgramError") for nm, _ in bad):
            sig = None  # repaired (F28): a recurrence is an unknown violation
        else:
            sig = classify_program(stored, raw)
        viol.append((sig, entry, raw, stored, bad[:4], f"nlines={ok['nlines']}"))


def check_meta_program(ctx, entry, stored, taxa_names, raw, viol):
    tree = parsable(stored)
    if tree is None:
        return
    k = sum(1 for t in taxa_names if t == "meta/program")
    ctx.dist(f"{entry}:meta/program={k}")
    if k != 1:
        sig = SIG_LONE if positioned_nodes(tree) <= 1 or (len(tree.body) == 1 and isinstance(
            tree.body[0], (pyast.Import, pyast.ImportFrom, pyast.Pass, pyast.Break, pyast.Continue, pyast.Global,
                           pyast.Nonlocal))) else None
        viol.append((sig, entry, raw, stored, [("meta/program", k)], "parsable program"))


def stream_tag_collect(ctx, impl, drv, real_programs):
    from paroxython import cli_tag
    from paroxython.make_db import TagDatabase

    n = 300 if ctx.tier == "quick" else 2500
    PREREQ.update(re.findall(r"(?:FROM|JOIN) t_(\w+)", "\n".join(impl.pp.ProgramParser().queries.values())))
    # two shapes reported on the unchanged code (findings F29, F30), always exercised
    programs = ["x = 1\ndef f(): # paroxython: function:a\n    return x\ndef h(): # paroxython: function:b\n    yield x\n",
                "x = 1\nprint(\"_pos=99:x\")\n",
                "@decorator([x for x in range(3)])\ndef f():\n    pass\n",  # F34
                # comments that LOOK like type comments (mypy idioms and prose): comments, not code
                "# type: ignore\nx = 1\ny = 2\n",
                "def f(a):  # type: ignore\n    return a\nz = f(1)  # type: int\n",
                "x = 1\n# type: this is prose\ny = 2\nprint(x)  # type: prose here\n",
                "def g(a):\n    # type: (int) -> int\n    return a\nx = []  # type: list\n# type: ignore\n"]
    while len(programs) < n:
        t = gen_program(ctx.rng, real_programs)
        if t is not None and impl.admissible(t):
            programs.append(t)
    viol = []
    crashes = {}
    # ---- tag
    for i, raw in enumerate(programs):
        g = impl.get_program(raw)
        if "exc" in g:
            ctx.dist(f"tag:get_program:{g['exc']}")
            continue
        stored = g["source"]
        for tags in (("Label", "Taxon") if i % 2 == 0 else ("Taxon",)):
            try:
                md = H.quiet(cli_tag.main, impl.ut.Source(raw), tags)
            except Exception as e:  # noqa
                crashes.setdefault(("tag", type(e).__name__), []).append(raw)
                break
            rows = parse_table(md)
            ctx.count(f"tag:{tags}", raw, nontrivial=True)
            check_spans(ctx, drv, f"tag:{tags}", stored, rows, raw, viol)
            if tags == "Taxon":
                check_meta_program(ctx, "tag", stored, [nm for nm, sps in rows for _ in sps], raw, viol)
            if "# type:" in raw and "paroxython" not in raw.lower():
                # a comment is not code: the same program with the comment reworded must get the same spans
                # (in particular meta/program must still span the statements of the program)
                try:
                    ref = parse_table(H.quiet(cli_tag.main, impl.ut.Source(raw.replace("# type:", "# typo:")), tags))
                except Exception:  # noqa
                    ref = None
                ctx.dist("tag:type-comment-programs")
                if ref is not None and ref != rows:
                    diff = [[a, b] for a, b in zip(rows, ref) if a != b][:4] or [[rows[-3:], ref[-3:]]]
                    viol.append((None, f"tag:{tags}", raw, stored, diff,
                                 "spans of the same program with `# type:` reworded `# typo:` (a comment is not code)"))
    # ---- collect, both strategies, batches
    root = ctx.scratch_dir()
    B = 25
    for strategy in ("full", "none"):
        for b in range(0, len(programs), B):
            batch = programs[b:b + B]
            d = root / f"{strategy}-{b}"
            d.mkdir()
            for k, raw in enumerate(batch):
                variant, data = as_file_bytes(ctx.rng, raw) if raw.isascii() else ("lf", raw.encode("utf-8"))
                ctx.dist(f"collect:file-bytes:{variant}")
                (d / f"p{k:03d}.py").write_bytes(data)
            todo = [d]
            while todo:
                cur = todo.pop()
                files = sorted(cur.glob("*.py"))
                try:
                    db = H.quiet(TagDatabase, cur, ignore_timestamps=True, cleanup_strategy=strategy)
                except Exception as e:  # noqa  (one bad file aborts the run: C14's concern; isolate it)
                    if len(files) <= 1:
                        if files:
                            crashes.setdefault((f"collect:{strategy}", type(e).__name__), []).append(files[0].read_text())
                        continue
                    half = len(files) // 2
                    for part, fs in (("a", files[:half]), ("b", files[half:])):
                        sub = cur / part
                        sub.mkdir()
                        for f in fs:
                            shutil.move(str(f), str(sub / f.name))
                        todo.append(sub)
                    continue
                for path, info in db.programs_infos.items():
                    raw = (cur / path).read_bytes().decode("utf-8", "replace")  # the bytes as written (CR kept)
                    stored = info["source"]
                    ctx.count(f"collect:{strategy}", (strategy, raw), nontrivial=True)
                    named = [(nm, [[s[0], s[1]] for s in spans]) for nm, spans in info["labels"].items()]
                    check_spans(ctx, drv, f"collect:{strategy}:labels", stored, named, raw, viol)
                    named_t = [(nm, [[s[0], s[1]] for s in spans]) for nm, spans in info["taxa"].items()]
                    check_spans(ctx, drv, f"collect:{strategy}:taxa", stored, named_t, raw, viol)
                    check_meta_program(ctx, f"collect:{strategy}", stored,
                                       [nm for nm, sps in named_t for _ in sps], raw, viol)
            shutil.rmtree(d, ignore_errors=True)
    # ---- verdicts: one (smallest) replay per signature
    by_sig = {}
    for v in viol:
        by_sig.setdefault(v[0], []).append(v)
    for sig, vs in by_sig.items():
        ctx.dist(f"exercised:violations[{sig and sig[4:44]}]", len(vs))
        v = min(vs, key=lambda x: len(x[2]))
        ctx.violations.append({
            "what": "a printed/stored span is not a valid line range of the stored source, or meta/program does not occur exactly once",
            "signature": sig,
            "replay": {"kind": "exercised", "entry": v[1], "src": v[2], "stored": v[3], "impl": v[4], "spec": v[5],
                       "how": "cli_tag.main(src, 'Label'|'Taxon') / TagDatabase(dir, cleanup_strategy=...)"},
        })
    for (entry, exc), raws in crashes.items():
        ctx.dist(f"{entry}:exception:{exc}", len(raws))
    ctx.cov["crashes_seen_not_judged_here"] = {f"{k[0]}:{k[1]}": min(v, key=len)[:300] for k, v in crashes.items()}


# ---------------------------------------------------------------------------------- layout twins

# Statements with several physical layouts of the SAME syntax tree (line breaks inside brackets, backslash
# continuations); `{i}` is replaced by a small integer to vary the programs.
TWIN_STMTS = [
    ['print("hello", "world{i}")', 'print(\n    "hello",\n    "world{i}",\n)', 'print("hello",\n      "world{i}")'],
    ["t{i} = [1, 2, 3]", "t{i} = [\n    1,\n    2,\n    3,\n]", "t{i} = [1,\n      2, 3]"],
    ["x{i} = a + b * 2", "x{i} = (a +\n      b * 2)", "x{i} = a + \\\n    b * 2", "x{i} = (\n    a\n    + b * 2\n)"],
    ["def f{i}(a, b=1):\n    return a + b", "def f{i}(\n    a,\n    b=1,\n):\n    return a + b",
     "def f{i}(a,\n       b=1):\n    return (a +\n            b)"],
    ["d{i} = {'k': 1, 'v': [2, 3]}", "d{i} = {\n    'k': 1,\n    'v': [\n        2,\n        3,\n    ],\n}"],
    ["for i in range(3):\n    s = f{i}(i, i)", "for i in range(\n    3\n):\n    s = f{i}(\n        i,\n        i,\n    )"],
    ["if a and b:\n    y = 1\nelse:\n    y = 2", "if (a and\n        b):\n    y = 1\nelse:\n    y = 2",
     "if a \\\n        and b:\n    y = 1\nelse:\n    y = 2"],
    ["z = [q * q for q in t if q % 2]", "z = [\n    q * q\n    for q in t\n    if q % 2\n]"],
    ["import os", "import os"], ["y = 0", "y = 0"],
]


# names of labels the parser computes for the statements above (and two it does not): a hint adding one of them puts
# a second entry of that name beside the computed one
TWIN_ADDITIONS = ["assignment", "node:Assign", "node:Name", "literal:Num", "node:Call", "node:List", "external_free_call:print",
                  "node:Expr", "binary_operator:Add", "node:FunctionDef", "node:For", "node:If", "import:os", "foo",
                  "flow/conditional", "var/assignment/explicit", "single_assignment:y"]


def gen_twins(rng, strategy):
    """2-4 files holding the same program (same syntax tree, same hints) with different physical layouts."""
    k = rng.randint(1, 4)
    stmts = [rng.choice(TWIN_STMTS) for _ in range(k)]
    nums = [rng.randint(0, 9) for _ in range(k)]
    hint = rng.choice([None, None, (rng.randrange(k), rng.choice(["foo", "-node:Name", "flow/conditional"]))])
    n = rng.randint(2, 4)
    own_hints = rng.random() < 0.5
    texts = []
    for t in range(n):
        parts = []
        for j, (alts, i) in enumerate(zip(stmts, nums)):
            # the first twin takes the longest layout half of the time: the memo, if any, is then filled by a long or a short one
            alt = rng.choice(alts) if t or rng.random() < 0.5 else max(alts, key=lambda a: a.count("\n"))
            text = alt.replace("{i}", str(i))
            if hint and hint[0] == j:  # the same hint on the first line of the statement in every twin
                lines = text.split("\n")
                if not lines[0].rstrip().endswith("\\"):
                    lines[0] += " # paroxython: " + hint[1]
                    text = "\n".join(lines)
            if strategy == "none":  # blank lines and comments only survive without cleaning
                if rng.random() < 0.4:
                    parts.append(rng.choice(["", "# a comment", "\n", "# c\n"]))
            parts.append(text)
        whole = "\n".join(parts)
        if own_hints and (t == 0 or rng.random() < 0.4):
            # hints of this twin ONLY (the others keep theirs or have none): additions named like labels the parser
            # computes for these statements, on any line of this layout — the last line of the longest layout is a
            # line the shorter twins do not have (seed C02-k: the matches of the regex features memoised per flat
            # AST, and the memoised span list extended in place by the additions of the first twin)
            lines = whole.split("\n")
            for _ in range(rng.randint(1, 2)):
                cands = [q for q, l in enumerate(lines) if l.strip() and not l.rstrip().endswith("\\") and "paroxython" not in l]
                if not cands:
                    break
                q = cands[-1] if rng.random() < 0.6 else rng.choice(cands)
                lines[q] += " # paroxython: " + rng.choice(TWIN_ADDITIONS)
            whole = "\n".join(lines)
        texts.append(whole + rng.choice(["\n", "\n", ""]))
    if len(set(texts)) < 2:
        return None
    names = [f"twin_{chr(97 + i)}.py" for i in range(n)]
    if rng.random() < 0.5:  # both sort orders: the longest layout first or last
        names.reverse()
    return dict(zip(names, texts))


def collect_dir(impl, root, name, files, strategy):
    from paroxython.make_db import TagDatabase

    d = root / name
    d.mkdir()
    for fn, text in files.items():
        (d / fn).write_text(text, encoding="utf-8")
    try:
        db = H.quiet(TagDatabase, d, ignore_timestamps=True, cleanup_strategy=strategy)
        out = {path: {"source": info["source"],
                      "labels": {nm: [[x[0], x[1]] for x in sp] for nm, sp in info["labels"].items()},
                      "taxa": {nm: [[x[0], x[1]] for x in sp] for nm, sp in info["taxa"].items()}}
               for path, info in db.programs_infos.items()}
    except Exception as e:  # noqa
        out = {"exc": type(e).__name__}
    shutil.rmtree(d, ignore_errors=True)
    return out


def stream_layout_twins(ctx, impl, drv):
    """Directories of programs that differ only by their physical layout: every stored span must be a valid line
    range of THAT program's stored source, and must be what the program gets when it is collected alone."""
    n = 40 if ctx.tier == "quick" else 400
    root = ctx.scratch_dir()
    done = 0
    k = 0
    reported = 0
    found = []
    while done < n and k < 5 * n:
        k += 1
        strategy = ("full", "none")[k % 2]
        files = gen_twins(ctx.rng, strategy)
        if files is None:
            continue
        together = collect_dir(impl, root, f"twins-{k}", files, strategy)
        if "exc" in together:
            ctx.dist(f"twins:collect-exception:{together['exc']}")
            continue
        done += 1
        ctx.dist(f"twins:{strategy}:files={len(files)}")
        for path, info in together.items():
            ctx.count(f"twins:{strategy}", (strategy, files[path]), nontrivial=True)
            bad = None
            if info["source"]:
                named = [(nm, sp) for kind in ("labels", "taxa") for nm, sps in info[kind].items() for sp in sps]
                ok = drv.call("c02.spec_valid", listing=info["source"], spans=[sp for _, sp in named])
                ctx.count(f"twins:{strategy}:spans", None, n=len(named))
                inv = [(nm, sp) for (nm, sp), b in zip(named, ok["r"]) if b == "0"]
                if inv:
                    bad = {"invalid": inv[:6], "nlines": ok["nlines"]}
            alone = None
            if bad is None and (ctx.tier != "quick" or done % 2 == 0):
                alone = collect_dir(impl, root, f"alone-{k}-{path[:-3]}", {path: files[path]}, strategy)
                if "exc" not in alone and alone.get(path) != info:
                    a = alone[path]
                    diff = [[kind, nm, info[kind].get(nm), a[kind].get(nm)] for kind in ("labels", "taxa")
                            for nm in sorted(set(info[kind]) | set(a[kind])) if info[kind].get(nm) != a[kind].get(nm)]
                    bad = {"differs_from_alone": diff[:6], "nlines": len(info["source"].split("\n"))}
            if bad is not None and reported < 12:
                reported += 1
                found.append({
                    "what": "in a directory of programs that differ only by their layout, a program is stored with spans that "
                            "are not valid line ranges of its own stored source (or not those it gets when collected alone)",
                    "signature": None,
                    "replay": {"kind": "layout-twins", "directory": files, "cleanup_strategy": strategy, "program": path,
                               "stored": info["source"], "impl": bad,
                               "spec": "1 <= start <= end <= nlines of the program's own stored source; same spans as alone",
                               "how": "TagDatabase(directory, ignore_timestamps=True, cleanup_strategy=...)"},
                })
    # the out-of-range spans (C02 proper) first, then the differences with the program collected alone
    found.sort(key=lambda v: ("invalid" not in v["replay"]["impl"], len(json.dumps(v["replay"]["directory"]))))
    ctx.violations.extend(found[:2])


def run(ctx):
    core.prove(ctx)
    impl = H.Impl()
    drv = H.OracleDriver(impl)
    import time
    walls = ctx.cov.setdefault("stream_wall_s", {"prove": round(ctx.elapsed(), 1)})
    try:
        real = H.load_real_programs(impl)
        for name, f in [("hint-spans", lambda: stream_hint_spans(ctx, impl, drv)),
                        ("error-span", lambda: stream_error_span(ctx, impl, drv)),
                        ("bindings", lambda: stream_bindings(ctx, impl, drv)),
                        ("tag-collect", lambda: stream_tag_collect(ctx, impl, drv, real)),
                        ("layout-twins", lambda: stream_layout_twins(ctx, impl, drv)),
                        ("tree-model", lambda: __import__("harness.c02_tree", fromlist=["stream"]).stream(ctx, drv))]:
            t = time.time()
            f()
            walls[name] = round(time.time() - t, 1)
    finally:
        drv.close()
    ctx.cov["rule"] = (
        "hint-spans: every text of <= 3 lines over blank / code / code+hint / isolated-hint lines (9-token pool; sampled in "
        "the quick tier) + random decorated programs with 0-2 leading/trailing blank lines and empty hint comments; "
        "error-span: unparsable texts; get_bindings: random captures incl. malformed POS; tag/collect: generated programs "
        "(statement grammar incl. decorated async def, lone pass/import, comment-only, unparsable) and /repo/examples "
        "programs, hinted anywhere incl. the first line, with/without trailing newline, through cli_tag.main (Label and "
        "Taxon) and TagDatabase (cleanup full and none). Distinct non-trivial = distinct input text (hint streams: containing "
        "a marker); tag/collect evaluations count every printed/stored span evaluated."
    )
    ctx.cov["trusted_base"] = core.BASE_TRUST + [
        "the model of get_program / get_bindings / the error span (Model/Hints.lean, Model/ParseGlue.lean), tied by the "
        "correspondence streams of C12 and of this check",
        "NOT modelled (exercised only): CPython's parser and line numbers, the `regex` engine on the 171 other features, "
        "SQLite, the Markdown/TagDatabase output layers (parsed back by the harness)",
    ]
    ctx.assumptions += [
        "C02_hint_spans_partial: hygienic decorated program (first line not blank nor indented, last line not blank, no "
        "trailing white space, hint-free code lines) — the complement is finding 7",
        "C02_binding_span: POS captures are `line:path` with a decimal line (any other shape raises ValueError in the "
        "implementation and in the model)",
    ]
    ctx.cov["proved"] = [t.split(".")[-1] for t in ctx.cov.get("theorems", {})]
    ctx.cov["exercised_only"] = [
        "spans of the 171 other regex features and of the SQL-derived labels/taxa are ordered in-range lines",
        "CPython line numbers lie within the text",
        "that the real regex engine behaves as the hand matchers of `node` / `whole_span` (validated on every run); the "
        "theorems C02_node_*, C02_whole_span_exists, C02_meta_program_exactly_once are about these matchers on the tree model",
    ]
    known = {k.get("signature") for k in core.load_known() if k.get("property") == ctx.pid and k.get("status") == "finding"}
    unknown = [v for v in ctx.violations if v.get("signature") is None or v.get("signature") not in known]
    if not unknown and (not ctx.proofs_ok or ctx.broken):
        ctx.violations.append({
            "no_input": True,
            "what": "a proof or a correspondence stream of C02 no longer checks",
            "replay": {"kind": "no-failing-input-found", "no_longer_checks": sorted(set(ctx.broken)),
                       "build_errors": ctx.cov.get("build_errors"), "disagreements": ctx.notes[:5],
                       "searched": "all streams of this run: every printed/stored span satisfied the property"},
        })
    return core.finish(ctx)


def replay(ctx, path):
    obj = json.loads(Path(path).read_text(encoding="utf-8"))
    impl = H.Impl()
    drv = H.OracleDriver(impl)
    try:
        src = obj.get("src")
        if src is None:
            print(json.dumps(obj, indent=1, ensure_ascii=False))
            return 0
        from paroxython import cli_tag
        g = impl.get_program(src)
        print("src   :", repr(src))
        print("impl  get_program:", json.dumps(g, ensure_ascii=False))
        print("model get_program:", json.dumps(H.canon_model_program(drv.call("c02.get_program", srcs=[src])["r"][0]), ensure_ascii=False))
        if "exc" not in g:
            try:
                rows = parse_table(H.quiet(cli_tag.main, src, "Label"))
                flat = [(nm, sp) for nm, sps in rows for sp in sps]
                ok = drv.call("c02.spec_valid", listing=g["source"], spans=[sp for _, sp in flat])
                print("impl  tag (invalid spans):", [(nm, sp) for (nm, sp), b in zip(flat, ok["r"]) if b == "0"], "nlines", ok["nlines"])
            except Exception as e:  # noqa
                print("impl  tag: exception", repr(e))
    finally:
        drv.close()
    return 0
