"""C12 — manual hints add and delete exactly what they say.

Tie: correspondence. The executable model (lean/Paroxy/Model/Hints.lean, Model/ParseGlue.lean) is
run next to the real `get_program`, `collect_hints`, `centrifugate_hints`, `remove_hints`, the four
compiled regexes and `ProgramParser.__call__` on the same inputs:

 * R2 streams, one per hand-transcribed regex / string primitive (token-level bounded-exhaustive);
 * `get_program` on bounded-exhaustive line layouts over a token pool (well-formed and malformed);
 * random *decorated programs* built by the specification (`c12.spec_decorate` = `decorate`,
   `events`, `balSpans`, `hygienic`): synthetic and real code lines from /repo/examples, mostly
   well-formed, plus unbalanced / tie / blank-end perturbations;
 * end-to-end `ProgramParser()(get_program(src))` with the answers of the regex engine and of
   SQLite recorded from the real run, against `c12.glue` (the deletion-consuming loops) and
   `c12.spec_counts` (the multiset C12_deletion_exact names).

On `impl != model` the property is evaluated on the implementation's output with the spec ops.
"""
import contextlib
import io
import itertools
import json
import os
import shutil
from pathlib import Path

from . import core

MARK = "# paroxython:"
# kept for C02's import; the findings they named are repaired, a recurrence is an unknown violation
SIG_WHOLESPAN = "C12:deletion hint on the computed label whole_span:N (aggregate SQL query yields a NULL span)"


# ------------------------------------------------------------------------------------- helpers

def quiet(f, *a, **k):
    with contextlib.redirect_stderr(io.StringIO()), contextlib.redirect_stdout(io.StringIO()):
        return f(*a, **k)


def exc_name(e):
    n = type(e).__name__
    return n if n in ("ValueError", "TypeError", "IndexError") else f"Other({n})"


class Impl:
    """The real functions, from /repo (PAROXY_REPO)."""

    def __init__(self):
        core.import_repo()
        import regex  # noqa
        from paroxython import preprocess_source as ps
        from paroxython import list_programs as lp
        from paroxython import parse_program as pp
        from paroxython import user_types as ut

        self.regex = regex
        self.ps, self.lp, self.pp, self.ut = ps, lp, pp, ut
        # The two compiled patterns are taken from the default arguments WHEN the code keeps them there (its
        # "default-argument trick"); a harmless rewrite may move them: the token-level validation of the model's
        # transcription is then skipped (and counted), the behavioural streams still tie the model to the code.
        def default_callable(f):
            d = getattr(f, "__defaults__", None) or ()
            return d[0] if d and callable(d[0]) else None

        self.match_label = default_callable(ps.collect_hints)
        self.match_isolated = default_callable(ps.centrifugate_hints)
        self.hint_comment = ps.HINT_COMMENT
        self._s = regex.compile(r"\s")
        self._w = regex.compile(r"\w")

    def admissible(self, src):
        """Every text is admissible: beyond ASCII the character classes of the model are oracle parameters whose
        values `OracleDriver` computes with the real engines (kept as a hook; always True)."""
        return True

    def char_classes(self, chars):
        """(word, space): the non-ASCII characters (other than `…`) that regex `\\w` / `\\s` match. `\\s` and
        str.isspace agree on every non-ASCII character (checked on all of Unicode at design time; asserted here)."""
        word, space = [], []
        for ch in sorted(chars):
            if ord(ch) < 128 or ch == "…":
                continue
            if self._w.match(ch):
                word.append(ch)
            sp = bool(self._s.match(ch))
            if sp != ch.isspace():
                raise core.MachineryError(f"regex \\s and str.isspace disagree on U+{ord(ch):04X}")
            if sp:
                space.append(ch)
        return "".join(word), "".join(space)

    def get_program(self, src):
        try:
            p = quiet(self.lp.get_program, src)
        except Exception as e:  # noqa
            return {"exc": exc_name(e)}
        return {
            "source": str(p.source),
            "addition": {k: [[s.start, s.end] for s in v] for k, v in p.addition.items()},
            "deletion": {k: [[s.start, s.end] for s in v] for k, v in p.deletion.items()},
        }


class OracleDriver:
    """The Lean driver, each request completed with the oracle values (`word`, `space`) of the non-ASCII
    characters that occur in it, computed with the real `regex` module."""

    def __init__(self, impl):
        self.impl = impl
        self.drv = core.Driver()

    @staticmethod
    def _chars(obj, acc):
        if isinstance(obj, str):
            if not obj.isascii():
                acc.update(ch for ch in obj if ord(ch) >= 128)
        elif isinstance(obj, dict):
            for k, v in obj.items():
                OracleDriver._chars(k, acc)
                OracleDriver._chars(v, acc)
        elif isinstance(obj, (list, tuple)):
            for v in obj:
                OracleDriver._chars(v, acc)

    def call(self, op, **kw):
        acc = set()
        self._chars(kw, acc)
        if acc:
            word, space = self.impl.char_classes(acc)
            kw["word"], kw["space"] = word, space
        return self.drv.call(op, **kw)

    def close(self):
        self.drv.close()

    def __getattr__(self, name):  # the other users of the driver (pipe `p`, `batch`, `calls`) see the plain driver
        return getattr(self.drv, name)


def canon_model_program(m):
    if "exc" in m:
        return m
    return {"source": m["source"], "addition": {k: v for k, v in m["addition"]},
            "deletion": {k: v for k, v in m["deletion"]}}


def seqs(alpha, n):
    for k in range(n + 1):
        for t in itertools.product(alpha, repeat=k):
            yield "".join(t)


def shrink(src, still_fails, budget=400):
    """Greedy delta debugging on lines, then on space-separated pieces, then on characters."""
    best = src
    for sep in ("\n", " ", ""):
        changed = True
        while changed and budget > 0:
            changed = False
            parts = best.split(sep) if sep else list(best)
            for i in range(len(parts)):
                cand = (sep.join(parts[:i] + parts[i + 1:])) if sep else "".join(parts[:i] + parts[i + 1:])
                budget -= 1
                if cand != best and still_fails(cand):
                    best = cand
                    changed = True
                    break
                if budget <= 0:
                    break
    return best


# ----------------------------------------------------------------------------- property verdicts

def add_violation(ctx, v, per_sig=2):
    """Keep at most `per_sig` violations per signature (the evidence stays small)."""
    sig = v.get("signature")
    n = sum(1 for x in ctx.violations if x.get("signature") == sig)
    if sig is None or n < per_sig:
        ctx.violations.append(v)


class Judge:
    """Decides, with the specification ops of the driver, whether an implementation answer on a
    source contradicts the property text."""

    def __init__(self, ctx, impl, drv):
        self.ctx, self.impl, self.drv = ctx, impl, drv

    def malformed_verdict(self, src, got):
        """C12_malformed: malformed hint tokens => ValueError. Returns a violation dict or None."""
        sm = self.drv.call("c12.spec_malformed", srcs=[src])["r"][0]
        if "exc" in sm or not sm["malformed"]:
            return None
        if got == {"exc": "ValueError"}:
            return None
        return {
            "what": "malformed hint comment (rejected token or unbalanced marks) not rejected with ValueError",
            "signature": None,
            "replay": {"kind": "malformed", "src": src, "impl": got, "spec": {"malformed": True, "expected": {"exc": "ValueError"}},
                       "how": "get_program(src)"},
        }

    def report_disagreement(self, stream, src, got, model):
        """impl != model on src: look for a contradiction of the property, else broken tie."""
        ctx = self.ctx
        ctx.cov["disagreements_checked"] += 1

        def fails(s):
            if not self.impl.admissible(s):
                return False
            g = self.impl.get_program(s)
            m = canon_model_program(self.drv.call("c12.get_program", srcs=[s])["r"][0])
            return g != m

        small = shrink(src, fails)
        got = self.impl.get_program(small)
        model = canon_model_program(self.drv.call("c12.get_program", srcs=[small])["r"][0])
        v = self.malformed_verdict(small, got)
        if v is not None:
            v["replay"]["model"] = model
            add_violation(ctx, v)
            return
        ctx.broken.append(f"corr:{stream}")
        ctx.notes.append({"stream": stream, "src": small, "impl": got, "model": model})


# -------------------------------------------------------------------------------------- streams

def stream_regexes(ctx, impl, drv):
    """R2: each fixed regex / string primitive against its structural transcription."""
    n = 4 if ctx.tier == "quick" else 5
    checks = []
    toks = list(seqs(["-", "+", ".", "..", "...", "…", "a", "_", "1", ":", "/", "#", "\x1c", "é", "\u00a0"], n))
    r = drv.call("c12.match_label", toks=toks)["r"]

    def ml(t):
        m = impl.match_label(t)
        if m is None:
            return None
        b = m[1]
        return ["..." if b == "…" else b, m[2], bool(m[3])]

    if impl.match_label is not None:
        checks.append(("regex:match_label", toks, r, ml))
    else:
        ctx.dist("regex:match_label:skipped-no-match-callable")
    lines = list(seqs([" ", "\t", "#", MARK, MARK + " ", "x", "...", "\x1c", "\r", "\u00a0"], n + 1))
    r = drv.call("c12.isolated", lines=lines)["r"]

    def iso(l):
        m = impl.match_isolated(l)
        return None if m is None else (m[1] or "")

    if impl.match_isolated is not None:
        checks.append(("regex:match_isolated_hints", lines, r, iso))
    else:
        ctx.dist("regex:match_isolated_hints:skipped-no-match-callable")
    r = drv.call("c12.hint_tokens", lines=lines)["r"]

    def ht(l):
        a, s, b = l.partition(MARK + " ")
        return [a, b.split()] if s else None

    checks.append(("str:partition+split", lines, r, ht))
    texts = list(seqs([" ", "\n", "\t", MARK + " ", MARK, "x", "#", "\x1c", "\u00a0"], n + 1))
    r = drv.call("c12.remove_hints", srcs=texts)["r"]
    checks.append(("regex:sub_hints+strip", texts, r, lambda s: str(impl.ps.remove_hints(s))))
    norm_in = list(seqs(["#", " ", "\t", "paroxython", "PaRoxYthoN", "parox", ":", "x", "p", "\x1c", MARK + " "], n + 1 if ctx.tier == "quick" else n))
    r = drv.call("c12.norm_line", lines=norm_in)["r"]
    normalize = impl.ps.Cleanup.normalize_paroxython_comments
    checks.append(("regex:normalize_paroxython_comments", norm_in, r, lambda l: normalize(l)[0]))
    trim_in = list(seqs([" ", "\n", "\t", "x", "\x1c", "\r", "#"], n + 2 if ctx.tier == "quick" else n + 1))
    r = drv.call("c12.trim_ends", srcs=trim_in)["r"]
    trim = impl.regex.compile(r"\A(\s*\n)+|\s+\Z").sub
    checks.append(("regex:trim_blank_ends(transcribed from get_program)", trim_in, r, lambda t: trim("", t)))
    cents = list(seqs(["\n", " ", MARK + " ", MARK, "x", "b", "a", " # x", "…"], n + 1))
    r = drv.call("c12.centrifugate", srcs=cents)["r"]

    def cen(s):
        try:
            return {"r": str(quiet(impl.ps.centrifugate_hints, s))}
        except Exception as e:  # noqa
            return {"exc": exc_name(e)}

    checks.append(("centrifugate_hints", cents, r, cen))
    for name, inputs, model_out, f in checks:
        bad = None
        for x, m in zip(inputs, model_out):
            g = f(x)
            ctx.count(name, x, nontrivial=len(x) > 0)
            if g != m and bad is None:
                bad = (x, g, m)
        ctx.dist(f"{name}:cases", len(inputs))
        if bad is not None:
            ctx.cov["disagreements_checked"] += 1
            ctx.broken.append(f"corr:{name}")
            ctx.notes.append({"stream": name, "input": bad[0], "impl": bad[1], "model": bad[2]})
    if impl.match_label is not None:
        ctx.sample({"stream": "regex:match_label", "input": "foo......", "impl": ml("foo......"),
                    "model": drv.call("c12.match_label", toks=["foo......"])["r"][0]})


POOL = ["+L", "-L", "L", "L...", "...L", "…L", "L…", "-L...", "M...", "...M", "-M", "+-L", "...L...", "# x",
        "été", "-λ", "a\u00a0b", "变\u2028量…", "́x"]


def layouts(max_lines, max_toks, pool, codes=("x", "")):
    """All sources of ≤ max_lines lines, each line = optional code + optional hint comment of
    ≤ max_toks tokens from the pool (an empty code with a comment = isolated hint)."""
    line_kinds = [""]  # blank line
    for code in codes:
        for k in range(0, max_toks + 1):
            for toks in itertools.product(pool, repeat=k):
                if k == 0:
                    if code:
                        line_kinds.append(code)
                    continue
                sep = " " if code else ""
                line_kinds.append(code + sep + MARK + " " + " ".join(toks))
    return line_kinds


def compare_programs(ctx, impl, drv, judge, stream, srcs, nontrivial=lambda s: MARK in s):
    srcs = [s for s in srcs if impl.admissible(s)]
    res = drv.call("c12.get_program", srcs=srcs)["r"]
    nerr = 0
    for s, m in zip(srcs, res):
        g = impl.get_program(s)
        m = canon_model_program(m)
        ctx.count(stream, s, nontrivial=nontrivial(s))
        if "exc" in g:
            ctx.dist(f"{stream}:exc:{g['exc']}")
        else:
            ctx.dist(f"{stream}:ok")
        if g != m:
            nerr += 1
            if nerr <= 3:
                judge.report_disagreement(stream, s, g, m)
    return srcs, res


def stream_layouts(ctx, impl, drv, judge):
    """Bounded-exhaustive line layouts; every malformed one must be a ValueError (property)."""
    if ctx.tier == "quick":
        kinds = layouts(3, 1, POOL)  # all 1..3-line texts over 1-token comments
        # code holding a character str.splitlines() takes for a line break (form feed, FS) and "\n" does not
        kinds += [k for k in layouts(3, 1, POOL[:8], codes=("s = 'a\x0cb'", "t\x1cu")) if k not in kinds]
        srcs = ["\n".join(t) for k in (1, 2, 3) for t in itertools.product(kinds, repeat=k)]
        kinds2 = layouts(2, 2, POOL[:10])
        srcs += ["\n".join(t) for k in (1, 2) for t in itertools.product(kinds2, repeat=k)]
        if len(srcs) > 60000:
            srcs = srcs[:20000] + ctx.rng.sample(srcs[20000:], 40000)
    else:
        kinds = layouts(4, 1, POOL[:14])  # 4 lines over the ASCII pool, 3 lines over the whole pool (10 min budget)
        srcs = ["\n".join(t) for k in (1, 2, 3, 4) for t in itertools.product(kinds, repeat=k)]
        kinds3 = layouts(3, 1, POOL)
        kinds3 += [k for k in layouts(3, 1, POOL[:8], codes=("s = 'a\x0cb'", "t\x1cu")) if k not in kinds3]
        srcs += ["\n".join(t) for k in (1, 2, 3) for t in itertools.product(kinds3, repeat=k)]
        kinds2 = layouts(3, 2, POOL[:10])
        more = ["\n".join(t) for k in (1, 2, 3) for t in itertools.product(kinds2, repeat=k)]
        srcs += more if len(more) <= 400000 else ctx.rng.sample(more, 400000)
    srcs = list(dict.fromkeys(srcs))
    srcs, res = compare_programs(ctx, impl, drv, judge, "layouts-bx", srcs)
    # the property on every malformed layout: ValueError
    sm = drv.call("c12.spec_malformed", srcs=srcs)["r"]
    ties = 0
    for s, spec in zip(srcs, sm):
        if "exc" in spec or not spec["malformed"]:
            continue
        ctx.dist("layouts-bx:malformed")
        g = impl.get_program(s)
        if g != {"exc": "ValueError"}:
            v = judge.malformed_verdict(s, g)
            if v is not None:
                add_violation(ctx, v)
    ctx.cov["exhaustive"] = True


LABELS = ["foo", "bar:baz", "a/b", "x.y", "l_1", "if", "loop:for", "meta/topic/fun", "A", "0",
          "a...b", "x…y", "f(x)", "a+b", "a-b", "_", "paroxython:x",
          "été", "λ", "变量", "e\u0301t", "naïve/taxon", "a…b:c", "\u00b5s"]
NON_ASCII_CODE = ["s = 'été\u00a0x'", "z = 'a\u2028b'  # é", "λ = 1", "变量 = λ + 1"]
LINEBREAK_LIKE = ["s = 'a\x0cb'", "t = \"x\x0by\"", "u = 'p\x1cq'", "v = 'm\x1dn\x1eo'", "w = '''c\rd'''", "k = '\x0c'  # ff"]
CODE = LINEBREAK_LIKE[:5] + NON_ASCII_CODE + ["x = 1", "y = x + 1", "print(x)", "for i in range(3):", "    pass", "if x:", "    y = 2", "", "def f(a):",
        "    return a", "z = [1, 2]", "while x: x -= 1", "s = '# not a hint'", "t = \"...\""]


# C12 quantifies over VALID programs: the code lines of the generated programs are made of whole statements
# (a compound statement comes with its body), so that a parse-before-cleaning repair (F48) leaves them alone.
SIMPLE = [[c] for c in LINEBREAK_LIKE + NON_ASCII_CODE + ["x = 1", "y = x + 1", "print(x)", "z = [1, 2]", "while x: x -= 1",
                                                           "s = '# not a hint'", "t = \"...\""]]
BLOCKS = SIMPLE + [
    ["for i in range(3):", "    pass"],
    ["if x:", "    y = 2"],
    ["def f(a):", "    return a"],
    ["for i in range(3):", "    if x:", "        y = 2"],
    ["if x:", "    y = 2", "else:", "    y = 3"],
    ["class A:", "    def m(self):", "        return 1"],
    ["while x:", "    x -= 1", "", "    y = 2"],
    ["def f(a):", "", "    return a"],
    ["try:", "    x = 1", "except Exception:", "    pass"],
    ["with open(x) as g:", "    pass"],
]


def assert_valid(lines, what):
    """The hint-free base of a generated program must be a valid program (guard against regressions of the generators)."""
    import ast
    try:
        ast.parse("\n".join(lines) + "\n")
    except SyntaxError as e:  # a generator bug, not a finding
        raise AssertionError(f"{what}: the generated base is not a valid program ({e}): {lines!r}")
    return lines


def gen_base(rng, lo, hi, blocks=None):
    """The code lines of a VALID program of about lo..hi lines: whole statements (compound ones with their bodies,
    so that hints can sit on `def` / `if` / `for` / `while` / `class` header lines), sometimes a blank line between two."""
    blocks = BLOCKS if blocks is None else blocks
    n = rng.randint(lo, hi)
    out = []
    while len(out) < n:
        room = n - len(out)
        fit = [b for b in blocks if len(b) <= room] or [b for b in blocks if len(b) == 1]
        b = rng.choice(fit if rng.random() < 0.8 else [x for x in fit if len(x) > 1] or fit)
        if out and rng.random() < 0.12 and room > len(b):
            out.append("")
        out += b
    return assert_valid(out, "gen_base")


def gen_forest(rng, lo, hi, depth, main=None):
    """Properly nested marks of one label on lines lo..hi (non-decreasing), as (kind, sign, line).
    One sign dominates per label (the other one appears in 15% of the marks)."""
    out = []
    line = lo
    if main is None:
        main = rng.random() < 0.35

    def pick():
        return main if rng.random() < 0.85 else not main

    for _ in range(rng.choice([1, 1, 1, 2, 2, 3])):
        if line > hi:
            break
        i = rng.randint(line, hi)
        if depth < 2 and rng.random() < 0.5:
            j = rng.randint(i, hi)
            sign = pick()
            inner = gen_forest(rng, i, j, depth + 1, main) if rng.random() < 0.4 else []
            out.append(("opn", sign, i))
            out.extend(inner)
            out.append(("cls", None, j))
            line = j
        else:
            out.append(("one", pick(), i))
            line = i
    return out


def gen_marker(rng):
    """A tolerated spelling of the marker (70% the normalised one)."""
    if rng.random() < 0.7:
        return None
    return {"sp1": rng.choice([0, 1, 1, 2, 3]), "caps": rng.choice([0, 0, 1, 1023, rng.randrange(1024)]),
            "sp2": rng.choice([0, 0, 1, 2]), "after": rng.choice([0, 1, 1, 2, 4])}


def with_marker(rng, line):
    m = gen_marker(rng)
    if m is not None:
        line["marker"] = m
    return line


def gen_decorated(rng, base, labels=LABELS, defect=None):
    """A decorated program (JSON layout for c12.spec_decorate) over the given code lines."""
    n = len(base)
    per_line = {i: [] for i in range(1, n + 1)}  # i -> list of per-label event lists
    used = rng.sample(labels, rng.randint(0, min(4, len(labels))))
    whole = []
    for L in used:
        if rng.random() < 0.25:
            whole.append(L)
            if rng.random() < 0.6:
                continue
        evs = gen_forest(rng, 1, n, 0)
        if defect == "unbalanced" and evs and rng.random() < 0.7:
            idx = [k for k, e in enumerate(evs) if e[0] != "one"]
            if idx:
                del evs[rng.choice(idx)]
        by_line = {}
        for kind, sign, i in evs:
            by_line.setdefault(i, []).append((kind, sign, L))
        for i, l in by_line.items():
            per_line[i].append(l)
    if defect == "tie" and n >= 1:
        L = rng.choice(labels)
        i = rng.randint(1, n)
        j = rng.randint(i, n)
        per_line[i].append([("opn", False, L), ("opn", True, L)] if rng.random() < 0.5 else [("opn", True, L), ("opn", False, L)])
        per_line[j].append([("cls", None, L), ("cls", None, L)])
    lines = []
    iso_at = {}
    for L in whole:
        for _ in range(rng.choice([1, 1, 2])):
            iso_at.setdefault(rng.randint(0, n), []).append(L)
    for i in range(0, n + 1):
        for L in iso_at.get(i, []):
            lines.append(with_marker(rng, {"isolated": L, "indent": rng.choice([0, 0, 4, 1])}))
        if i == n:
            break
        groups = [list(g) for g in per_line[i + 1]]
        hints = []
        while groups:  # random merge keeping each label's order
            g = rng.choice(groups)
            kind, sign, L = g.pop(0)
            if not g:
                groups.remove(g)
            mark = {"one": "one-" if sign else "one+", "opn": "opn-" if sign else "opn+", "cls": "cls"}[kind]
            hints.append({"mark": mark, "label": L, "plus": rng.random() < 0.4, "uni": rng.random() < 0.3,
                          "gap": rng.choice([0, 0, 0, 1, 2])})
        code = base[i]
        if hints and code.strip() == "":
            hints = []  # a blank code line cannot carry trailing hints (it would be an isolated hint)
        # pad = number of spaces between the code and its hint comment; 0: the comment is glued to the code (F45)
        lines.append(with_marker(rng, {"code": code, "pad": rng.choice([1, 1, 1, 2, 4, 0, 0]), "hints": hints}))
    blank = {"code": "", "pad": 1, "hints": []}
    if rng.random() < 0.3:  # blank lines at both ends of the text are trimmed before the hints are numbered
        lines = [dict(blank)] * rng.choice([0, 1, 2]) + lines + [dict(blank)] * rng.choice([0, 1, 3])
    return lines


def expected_of(spec):
    """What C12_roundtrip says get_program returns, from the per-label `balSpans`."""
    add, dele = {}, {}
    for lab in spec["labels"]:
        if lab["spans"] is None or not lab["notie"]:
            return None
        for d, s, e in lab["spans"]:
            (dele if d else add).setdefault(lab["label"], []).append([s, e])
    return {"source": spec["base"], "addition": {k: sorted(v) for k, v in add.items()},
            "deletion": {k: sorted(v) for k, v in dele.items()}}


def shrink_layout(layout, still_fails, budget=150):
    """Greedy minimisation of a decorated program: drop lines, then hints, then spelling options."""
    best = layout
    changed = True
    while changed and budget > 0:
        changed = False
        cands = [best[:i] + best[i + 1:] for i in range(len(best))]
        for i, l in enumerate(best):
            for k in range(len(l.get("hints", []))):
                cands.append(best[:i] + [dict(l, hints=l["hints"][:k] + l["hints"][k + 1:])] + best[i + 1:])
        for i, l in enumerate(best):
            if l.get("pad", 1) != 1 or any(h.get("gap") or h.get("plus") or h.get("uni") for h in l.get("hints", [])):
                cands.append(best[:i] + [dict(l, pad=1, hints=[dict(h, gap=0, plus=False, uni=False) for h in l.get("hints", [])])]
                             + best[i + 1:])
        for c in cands:
            budget -= 1
            if c and still_fails(c):
                best = c
                changed = True
                break
            if budget <= 0:
                break
    return best


def roundtrip_failure(impl, drv, layout):
    """(spec, impl answer, expected) when the decorated program is well formed and the implementation
    does not return what the hints say; None otherwise."""
    spec = drv.call("c12.spec_decorate", lines=layout)
    if not spec["hygienic"] or not impl.admissible(spec["src"]):
        return None
    exp = expected_of(spec)
    if exp is None:
        return None
    got = impl.get_program(spec["src"])
    return (spec, got, exp) if got != exp else None


def check_decorated(ctx, impl, drv, judge, stream, layout):
    spec = drv.call("c12.spec_decorate", lines=layout)
    src = spec["src"]
    if not impl.admissible(src):
        ctx.dist(f"{stream}:inadmissible")
        return None
    got = impl.get_program(src)
    model = canon_model_program(drv.call("c12.get_program", srcs=[src])["r"][0])
    balanced = all(l["spans"] is not None for l in spec["labels"])
    notie = all(l["notie"] for l in spec["labels"])
    nhints = sum(len(l.get("hints", [])) for l in layout) + sum(1 for l in layout if "isolated" in l)
    ctx.count(stream, src, nontrivial=nhints > 0)
    ctx.dist(f"{stream}:hygienic={spec['hygienic']},balanced={balanced},notie={notie}")
    ctx.dist(f"{stream}:hints={min(nhints, 6)}")
    if got != model:
        judge.report_disagreement(stream, src, got, model)
    if spec["hygienic"] and balanced and notie:
        exp = expected_of(spec)
        if got != exp and sum(1 for v in ctx.violations if v["replay"].get("kind") == "roundtrip") < 3:
            small = shrink_layout(layout, lambda l: roundtrip_failure(impl, drv, l) is not None)
            spec2, got2, exp2 = roundtrip_failure(impl, drv, small)
            ctx.violations.append({
                "what": "get_program(decorate d) differs from what the hints say (C12_roundtrip)",
                "signature": None,
                "replay": {"kind": "roundtrip", "layout": small, "src": spec2["src"], "impl": got2,
                           "model": canon_model_program(drv.call("c12.get_program", srcs=[spec2["src"]])["r"][0]),
                           "spec": exp2, "how": "get_program(src): .source/.addition/.deletion"},
            })
    elif not balanced or not notie:
        v = judge.malformed_verdict(src, got)
        if v is not None:
            v["replay"]["layout"] = layout
            v["replay"]["model"] = model
            add_violation(ctx, v)
    return spec, got


def stream_decorated(ctx, impl, drv, judge, real_programs):
    n = 1500 if ctx.tier == "quick" else 30000
    for k in range(n):
        rng = ctx.rng
        if real_programs and rng.random() < 0.35:
            base = real_slice(rng, rng.choice(real_programs))  # whole top-level statements of a real program
            if not base:
                continue
            stream = "decorated-real"
        elif rng.random() < 0.9:
            base = gen_base(rng, 1, 6)
            stream = "decorated"
        else:
            # arbitrary line sequences (first line indented or blank, bodies missing): inside the statement of
            # C12_roundtrip, outside "valid programs"; get_program only (no cleaning, no parsing involved)
            base = [rng.choice(CODE) for _ in range(rng.randint(1, 6))]
            stream = "decorated-raw-lines"
        defect = rng.choice([None] * 7 + ["unbalanced", "unbalanced", "tie"])
        layout = gen_decorated(rng, base, defect=defect)
        r = check_decorated(ctx, impl, drv, judge, stream, layout)
        if r is not None and k < 2:
            spec, got = r
            ctx.sample({"stream": stream, "src": spec["src"], "impl": got, "spec_expected": expected_of(spec)})


def stream_blank_ends(ctx, impl, drv, judge):
    """Blank lines at the ends of the text (repaired finding 7) and its residue: a hint alone on a
    line standing before the leading (after the trailing) blank lines. A hint must refer to the lines
    of the stored listing: the answer must be that of the same program without those blank lines."""
    n = 80 if ctx.tier == "quick" else 800
    hits = 0
    blank = {"code": "", "pad": 1, "hints": []}
    for _ in range(n):
        rng = ctx.rng
        base = [l for l in gen_base(rng, 1, 3) if l.strip()]
        inner = [l for l in gen_decorated(rng, base, labels=LABELS[:6]) if not (l.get("code") == "" and not l.get("hints"))]
        lead, trail = rng.choice([0, 1, 2]), rng.choice([0, 0, 1, 2])
        outer_before = [{"isolated": "outer", "indent": 0}] if rng.random() < 0.3 else []
        outer_after = [{"isolated": "outer", "indent": 0}] if rng.random() < 0.3 else []
        layout = outer_before + [dict(blank)] * lead + inner + [dict(blank)] * trail + outer_after
        if rng.random() < 0.3 and inner and "code" in inner[0]:
            inner[0] = dict(inner[0], code="    " + inner[0]["code"])  # an indented first line is only stripped
        reference = outer_before + inner + outer_after
        spec_ref = drv.call("c12.spec_decorate", lines=reference)
        exp = expected_of(spec_ref) if spec_ref["hygienic"] else None
        spec = drv.call("c12.spec_decorate", lines=layout)
        src = spec["src"]
        got = impl.get_program(src)
        model = canon_model_program(drv.call("c12.get_program", srcs=[src])["r"][0])
        has_hint = any(l.get("hints") for l in layout) or any("isolated" in l for l in layout)
        ctx.count("blank-ends", src, nontrivial=has_hint)
        if got != model:
            judge.report_disagreement("blank-ends", src, got, model)
        if exp is not None and got != exp:
            hits += 1
            add_violation(ctx, {
                "what": "hints of a program with blank lines at the ends of its text are not scheduled on the lines of "
                        "the stored listing",
                "signature": None,
                "replay": {"kind": "blank-ends", "layout": layout, "src": src, "impl": got, "model": model,
                           "spec": exp, "how": "get_program(src) vs get_program of the same program without the blank end lines"},
            }, per_sig=1)
    ctx.dist("blank-ends:property-failures", hits)


EMPTY_MARKERS = ["# paroxython:", "#paroxython:", "# Paroxython :", "#  PAROXYTHON:"]


def with_empty_comments(src_lines, layout, choose):
    """The text of a decorated program with EMPTY hint comments (`# paroxython:` followed by nothing or by spaces only)
    written at the end of code lines that have no hint, and alone on lines of their own. An empty hint comment says
    nothing: the answer of get_program must be that of the text without them. `choose(i, line)` returns None or
    (glue, marker, trailing) for the i-th layout line; `choose(-1 - k, None)` for an empty comment alone on a line
    before the k-th line (k = len: after the last one)."""
    out = []
    for i, (text, l) in enumerate(zip(src_lines, layout)):
        alone = choose(-1 - i, None)
        if alone is not None:
            out.append(alone[0] + alone[1] + alone[2])
        c = choose(i, l) if "code" in l and not l.get("hints") and l["code"].strip() else None
        out.append(text if c is None else text + c[0] + c[1] + c[2])
    alone = choose(-1 - len(layout), None)
    if alone is not None:
        out.append(alone[0] + alone[1] + alone[2])
    return out


def stream_glued_empty(ctx, impl, drv, judge):
    """Hint comments GLUED to the code (`x = 1#paroxython:a`, F45) combined with hints alone on a line, on the first /
    middle / last line; EMPTY hint comments (F46) at the end of the last line, of the first line, alone on a line, with
    and without a final newline. Expected: what the hints say (C12_roundtrip through `c12.spec_decorate`), the empty
    comments saying nothing; and the stored source never shows a hint marker."""
    rng = ctx.rng
    codes = ["x = 1", "y = 2", "print(x)"]
    loose = {"sp1": 0, "caps": 0, "sp2": 0, "after": 0}      # `#paroxython:a`
    loose2 = {"sp1": 1, "caps": 0, "sp2": 1, "after": 1}     # `# paroxython : a`
    hint = lambda L, mark="one+": [{"mark": mark, "label": L, "plus": False, "uni": False, "gap": 0}]  # noqa
    decos = [("plain", None, None), ("spaced", 1, None), ("glued", 0, None), ("glued", 0, loose), ("glued", 0, loose2),
             ("tabbed", 1, None),  # a tab, not a space, between the code and the hint comment (written in the text below)
             ("empty", (" ", "# paroxython:", ""), None), ("empty", (" ", "# paroxython:", "   "), None),
             ("empty", ("", "#paroxython:", ""), None), ("empty", ("  ", "# Paroxython :", " "), None)]
    cases = []
    for n in (1, 2, 3):
        combos = list(itertools.product(range(len(decos)), repeat=n))
        if n == 3 and ctx.tier == "quick":
            combos = rng.sample(combos, 40)
        for combo in combos:
            for iso in (None, 0, n, 1 if n > 1 else None):
                if iso is None and combo.count(0) == n:
                    continue
                alones = (None, 0, n)
                for alone in (alones if n == 1 or ctx.tier != "quick" else [rng.choice(alones)]):
                    cases.append((n, combo, iso, alone))
    todo = []
    for n, combo, iso, alone in cases:
        layout, empties, tabbed = [], {}, set()
        for i, k in enumerate(combo):
            kind, arg, marker = decos[k]
            line = {"code": codes[i], "pad": 1, "hints": []}
            if kind == "tabbed":
                tabbed.add(codes[i])
            if kind in ("spaced", "glued", "tabbed"):
                line["pad"] = arg
                line["hints"] = hint("lab%d" % i)
                if marker:
                    line["marker"] = marker
            elif kind == "empty":
                empties[i] = arg
            layout.append(line)
        if iso is not None:
            layout.insert(iso, {"isolated": "whole", "indent": 0})
            empties = {(i + 1 if i >= iso else i): v for i, v in empties.items()}
        spec = drv.call("c12.spec_decorate", lines=layout)
        exp = expected_of(spec) if spec["hygienic"] else None
        src_lines = spec["src"].split("\n")
        if len(src_lines) != len(layout) or exp is None:
            ctx.dist("glued-empty:skipped")
            continue
        if alone is not None:
            empties[-1 - (alone if alone == 0 else len(layout))] = ("", EMPTY_MARKERS[(n + alone) % 4], rng.choice(["", " ", "  "]))
        src_lines = [l.replace(c + " #", c + "\t#", 1) if l.startswith(c + " #") else l for l in src_lines
                     for c in [next((c for c in tabbed if l.startswith(c + " #")), "\0")]]
        text_lines = with_empty_comments(src_lines, layout, lambda i, l: empties.get(i))
        tag = "glued-empty:" + "+".join(sorted({decos[k][0] for k in combo})) + ("+isolated" if iso is not None else "")
        for final_nl in ("", "\n"):
            todo.append(("\n".join(text_lines) + final_nl, exp, tag))
    models = drv.call("c12.get_program", srcs=[t[0] for t in todo])["r"]
    for (src, exp, tag), m in zip(todo, models):
        got = impl.get_program(src)
        ctx.count("glued-empty", src, nontrivial=True)
        ctx.dist(tag)
        model = canon_model_program(m)
        if got != model:
            judge.report_disagreement("glued-empty", src, got, model)
        if got != exp:
            what = ("a hint comment glued to the code, or an empty hint comment, changes what get_program returns: "
                    "the hints are not scheduled as they say (C12_roundtrip)")
            if "exc" not in got and MARK in got.get("source", ""):
                what = "the stored source still shows a hint comment (`# paroxython:`) once the hints are collected"
            add_violation(ctx, {"what": what, "signature": None,
                                "replay": {"kind": "glued-empty", "src": src, "impl": got, "model": model, "spec": exp,
                                           "how": "get_program(src): .source/.addition/.deletion"}}, per_sig=3)


def stream_unicode_linebreaks(ctx, impl, drv, judge):
    """Characters outside the model alphabet that str.splitlines() takes for line breaks (NEL, LS, PS): inside a
    code line they must change nothing to the schedule — get_program must answer as for the same text with the
    character replaced by a letter (the lines of a program are those `"\\n"` separates)."""
    n = 150 if ctx.tier == "quick" else 2000
    for _ in range(n):
        rng = ctx.rng
        ch = rng.choice(["\x85", "\u2028", "\u2029", "\x0c", "\x1c", "\x1e", "\x0b"])
        base = gen_base(rng, 2, 5, blocks=BLOCKS[len(LINEBREAK_LIKE) + len(NON_ASCII_CODE):])
        k = rng.choice([i for i, l in enumerate(base) if l.strip()])
        if rng.random() < 0.7 and not base[k].rstrip().endswith(":"):  # a simple statement, at its indentation
            base[k] = base[k][:len(base[k]) - len(base[k].lstrip())] + "q = 'a" + ch + "b'"
        else:
            base[k] = base[k] + "  # c" + ch + "d"
        assert_valid(base, "linebreak-like")
        layout = gen_decorated(rng, base, labels=LABELS[:8])
        spec = drv.call("c12.spec_decorate", lines=layout)
        src = spec["src"]
        if ch not in src:
            continue
        got = impl.get_program(src)
        ref = impl.get_program(src.replace(ch, "X"))
        if "source" in ref:
            ref = dict(ref, source=None)
        got_cmp = dict(got, source=None) if "source" in got else got
        ctx.count("linebreak-like-characters", src, nontrivial=MARK in src)
        if got_cmp != ref:
            add_violation(ctx, {
                "what": "a character that str.splitlines() takes for a line break, inside a code line, changes the hint "
                        "schedule (hints must be numbered on the lines separated by \\n)",
                "signature": None,
                "replay": {"kind": "linebreak-like", "layout": layout, "src": src, "impl": got,
                           "spec": impl.get_program(src.replace(ch, "X")),
                           "how": "get_program(src) vs get_program(src with the character replaced by 'X')"},
            }, per_sig=2)


FILE_BLOCKS = [["x = 1"], ["y = x + 1"], ["print(x, y)"], ["z = [1, 2]"], ["t = f(x) + f(y)"],
               ["for i in range(3):", "    y = y + i"], ["if x:", "    z = 3"], ["def f(a):", "    return a"],
               ["while x:", "    x -= 1"], ["class A:", "    n = 0"], ["if x:", "    z = 3", "else:", "    z = 4"],
               ["for i in range(3):", "    if i:", "        y = i"], ["def g(a):", "    b = a", "    return b"]]


def gen_hinted_file(rng):
    """A program FILE as a user writes it: a leading block (shebang, coding line, comments), ordinary comments and
    blank lines, hints in any tolerated spelling at the end of code lines and alone on a line — on the first line, in
    the leading comment block, between statements, at the end. Returns the lines as (kind, layout line) where kind is
    'noise' (comment / blank line: cleaned away under `full`, an ordinary line under `none`) or 'kept'."""
    def spelled(line, always=False):
        if always or rng.random() < 0.6:
            line["marker"] = {"sp1": rng.choice([0, 1, 2]), "caps": rng.choice([1, 1023, 1 << rng.randrange(10), rng.randrange(1024)]),
                              "sp2": rng.choice([0, 0, 1, 2]), "after": rng.choice([0, 1, 2, 3])}
        return line

    def iso(L):
        return ("kept", spelled({"isolated": L, "indent": 0}))

    def noise(text):
        return ("noise", {"code": text, "pad": 1, "hints": []})

    out = []
    labels = rng.sample(["foo", "meta/topic/fun", "bar:baz", "l_1", "a/b", "été", "x.y"], 4)
    # leading comment block
    where_first = rng.random()
    if where_first < 0.3:
        out.append(iso(labels[0]))  # on the very first line
    head = []
    if rng.random() < 0.6:
        head.append(noise("#!/usr/bin/env python"))
    if rng.random() < 0.5:
        head.append(noise("# -*- coding: utf-8 -*-"))
    for _ in range(rng.randint(0, 2)):
        head.append(noise(rng.choice(["# some comment", "# Author: somebody", "#", "# TODO: nothing"])))
    if 0.3 <= where_first < 0.75 and head:
        head.insert(rng.randint(1, len(head)), iso(labels[0]))  # inside the leading comment block
    out += head
    if rng.random() < 0.3:
        out.append(noise(""))
    # the code, with trailing hints, ordinary comments, blank lines, isolated hints in between
    # whole statements: a valid program, with hints on any line (headers of compound statements included)
    code = [l for l in gen_base(rng, 2, 6, blocks=FILE_BLOCKS) if l.strip()]
    for j, c in enumerate(code):
        hints = []
        if rng.random() < 0.45:
            L = rng.choice(labels[1:])
            hints.append({"mark": rng.choice(["one+", "one+", "one-"]), "label": L, "plus": rng.random() < 0.4,
                          "gap": rng.choice([0, 0, 1])})
        line = {"code": c, "pad": rng.choice([1, 1, 2, 3, 0]), "hints": hints}
        out.append(("kept", spelled(line) if hints else line))
        nxt_indented = j + 1 < len(code) and code[j + 1][:1] == " "
        if rng.random() < 0.2 and not nxt_indented:
            out.append(noise(rng.choice(["", "# a comment"])))
        if rng.random() < 0.15 and not nxt_indented:
            out.append(iso(labels[1]))
    if rng.random() < 0.4:
        out.append(iso(rng.choice(labels[:2])))  # alone on the last line
    # the file without its hints is a valid program, as it is (`none`) and without its comments and blank lines (`full`)
    assert_valid([l["code"] for _, l in out if "code" in l], "gen_hinted_file")
    assert_valid([l["code"] for kind, l in out if "code" in l and kind == "kept"], "gen_hinted_file(kept)")
    return out


def stream_files(ctx, impl, drv, judge):
    """What the user writes in a FILE, through `list_programs(directory, cleanup_strategy=...)` (both strategies) and
    ProgramParser: the hints are never noise. Expected (C12_roundtrip via `c12.spec_decorate`): under `full` the program
    without its comments and blank lines, under `none` the file as it is — with exactly the hints it says."""
    from paroxython.list_programs import list_programs

    n = 120 if ctx.tier == "quick" else 1500
    root = ctx.scratch_dir()
    parser = impl.pp.ProgramParser()
    for k in range(n):
        rng = ctx.rng
        files = {}
        for j in range(rng.randint(1, 3)):
            files[f"prog_{j}.py"] = gen_hinted_file(rng)
        d = root / f"files-{k}"
        d.mkdir()
        texts = {}
        for fn, lines in files.items():
            spec_all = drv.call("c12.spec_decorate", lines=[l for _, l in lines])
            texts[fn] = spec_all["src"] + rng.choice(["\n", "\n", ""])
            (d / fn).write_text(texts[fn], encoding="utf-8")
        for strategy in ("full", "none"):
            try:
                programs = quiet(list_programs, d, cleanup_strategy=strategy)
                got_all = {str(p.path): p for p in programs}
            except Exception as e:  # noqa
                got_all = {"exc": exc_name(e)}
            for fn, lines in files.items():
                layout = [l for kind, l in lines if strategy == "none" or kind == "kept"]
                spec = drv.call("c12.spec_decorate", lines=layout)
                exp = expected_of(spec) if spec["hygienic"] else None
                if exp is None:
                    ctx.dist("files:skipped-not-hygienic")
                    continue
                if "exc" in got_all:
                    got = got_all
                else:
                    p = got_all[fn]
                    got = {"source": str(p.source),
                           "addition": {a: [[x.start, x.end] for x in v] for a, v in p.addition.items()},
                           "deletion": {a: [[x.start, x.end] for x in v] for a, v in p.deletion.items()}}
                ctx.count(f"files:{strategy}", (strategy, texts[fn]), nontrivial=MARK.lower() in texts[fn].lower())
                if got != exp:
                    add_violation(ctx, {
                        "what": "the hints written in a program file are not scheduled as they say once the file went through "
                                "list_programs (cleaning + get_program)",
                        "signature": None,
                        "replay": {"kind": "file", "file": texts[fn], "cleanup_strategy": strategy, "impl": got, "spec": exp,
                                   "how": "list_programs(directory, cleanup_strategy=...) -> Program.source/.addition/.deletion"},
                    }, per_sig=2)
                    continue
                if strategy == "full" and k % 3 == 0 and "exc" not in got_all:  # the additions reach the labels
                    try:
                        labels = {l.name: [[x.start, x.end] for x in l.spans] for l in quiet(parser, got_all[fn])}
                    except Exception:  # noqa
                        parser = impl.pp.ProgramParser()
                        continue
                    if not (len(labels) == 1 and next(iter(labels)).startswith("ast_construction")):
                        missing = [[a, sp] for a, v in exp["addition"].items() for sp in v if sp not in labels.get(a, [])]
                        if missing:
                            add_violation(ctx, {
                                "what": "a label added by a hint of the file is absent from the labels of the program",
                                "signature": None,
                                "replay": {"kind": "file", "file": texts[fn], "cleanup_strategy": strategy, "impl": missing,
                                           "spec": exp, "how": "ProgramParser()(program) for program in list_programs(...)"},
                            })
        shutil.rmtree(d, ignore_errors=True)


def stream_marker_spelling(ctx, impl, drv, judge):
    """The manual tolerates `#  Paroxython :` (repaired finding 16)."""
    cases = ["x = 1 # Paroxython : foo", "x = 1 #paroxython: foo", "x = 1 #  PAROXYTHON  :   foo", "x = 1 #paroxython:foo"]
    for src in cases:
        got = impl.get_program(src)
        model = canon_model_program(drv.call("c12.get_program", srcs=[src])["r"][0])
        ctx.count("marker-spelling", src, nontrivial=True)
        if got != model:
            judge.report_disagreement("marker-spelling", src, got, model)
        exp = {"source": "x = 1", "addition": {"foo": [[1, 1]]}, "deletion": {}}
        if got != exp:
            add_violation(ctx, {
                "what": "a hint whose marker is spelled with the case/space tolerance of the manual is not scheduled "
                        "and removed like the normalised spelling",
                "signature": None,
                "replay": {"kind": "marker", "src": src, "impl": got, "model": model, "spec": exp, "how": "get_program(src)"},
            })


# ----------------------------------------------------------------------------------- end to end

class Recorder:
    """Wraps the `finditer` callables and the derived-labels database of ONE ProgramParser instance
    (our own) to record the answers of the regex engine and of SQLite."""

    def __init__(self, impl):
        self.impl = impl
        self.parser = impl.pp.ProgramParser()
        self.computed = []
        self.derived = []
        self.seeded = None
        self.captures = []
        for name, finditer in list(self.parser.features.items()):
            self.parser.features[name] = self._wrap(name, finditer)
        db = self.parser.derived_labels_database
        orig_read, orig_create = db.read, db.create

        def read(query):
            labels = orig_read(query)
            self.derived.append([[l.name, s.start, s.end, s.path] for l in labels for s in l.spans])
            return labels

        def create(labels):
            self.seeded = [[l.name, [[s.start, s.end, s.path] for s in l.spans]] for l in labels]
            return orig_create(labels)

        db.read, db.create = read, create

    def _wrap(self, prefix, finditer):
        def wrapped(text, overlapped=True):
            for m in finditer(text, overlapped=overlapped):
                caps = m.capturesdict()
                self.captures.append((prefix, {k: list(v) for k, v in caps.items() if k in ("POS", "SUFFIX")}))
                for (name, span) in self.impl.pp.get_bindings(prefix, caps):
                    self.computed.append([name, span.start, span.end, span.path])
                yield m
        return wrapped

    def run(self, program):
        self.computed, self.derived, self.seeded, self.captures = [], [], None, []
        labels = self.parser(program)
        return [[l.name, [[s.start, s.end, s.path] for s in l.spans]] for l in labels]


def sched_list(d):
    return [[k, [list(x) for x in v]] for k, v in d.items()]


DUPLICATES = [
    ["s = 'a\x0cb'", "t = \"x\x1cy\" + s + s", "u = t + t + s", "print(u, u)"],
    ["a = 1", "b = 2", "c = 3", "y = a + b + c", "z = a * b * c + a * b", "print(y, z, y)"],
    ["def f(a, b, c):", "    return a + b + c + a", "x = f(1, 2, 3) + f(4, 5, 6) + 1", "print(x, x)"],
    ["s = [1, 2, 3]", "t = s[0] + s[1] + s[2]", "for i in s:", "    t = t + i + i", "print(t)"],
    ["x = 1", "if x == 1 or x == 2 or x == 3:", "    x = x + x + x", "    x = x - 1 - 1"],
]


# Programs whose labels come from the SQL features defined by an alternation / unusual key of spec.md
# (`concatenation_operator|replication_operator`, `try_raise|try_except`, `higher-order function`, ...).
ALT_PROGRAMS = [
    ["s = 'a' + 'b'", "t = [0] * 3", "u = 'x' * 2 + 'y'"],
    ["if a == b == c:", "    pass", "if a < b <= c:", "    pass", "x = a != b != c", "y = 0 <= i < n"],
    ["class A:", "    def m(self):", "        return 1", "    @classmethod", "    def c(cls):", "        return 2",
     "    @staticmethod", "    def s():", "        return 3"],
    ["def h(f, x):", "    return f(x)", "print(list(map(abs, [1, -2])))", "y = sorted(z, key=len)"],
    ["def g(x):", "    try:", "        if x < 0:", "            raise ValueError", "        y = 1 / x",
     "    except ZeroDivisionError:", "        y = 0", "    except ValueError:", "        y = -1", "    return y"],
    ["def count(seq):", "    n = 0", "    for x in seq:", "        n += 1", "    return n", "def count_even(seq):",
     "    n = 0", "    for x in seq:", "        if x % 2 == 0:", "            n += 1", "    return n"],
    ["n = 0", "while n < 10:", "    n += 1", "c = 0", "for i in range(10):", "    if i % 3 == 0:", "        c = c + 1",
     "k = 0", "while k < 10:", "    if k % 2:", "        k += 1", "    k += 2"],
    ["def all_pos(seq):", "    for x in seq:", "        if x <= 0:", "            return False", "    return True",
     "def any_neg(seq):", "    for x in seq:", "        if x < 0:", "            return True", "    return False"],
]


def alternation_cases(ctx, impl, rec):
    """(program, targets, dotted): deletions aimed at each label produced by an SQL feature whose key in
    `ProgramParser().queries` is not a plain identifier, one at a time and in pairs, `-L` and `-L... ...L` forms."""
    keys = list(rec.parser.queries)
    unusual = [i for i, k in enumerate(keys) if not impl.regex.fullmatch(r"\w+", k)]
    ctx.dist("end-to-end:unusual-query-keys", len(unusual))
    cases = []
    for base in ALT_PROGRAMS:
        try:
            labels0 = rec.run(quiet(impl.lp.get_program, "\n".join(base)))
        except Exception:  # noqa
            continue
        if rec.seeded is None or len(rec.derived) != len(keys):
            continue
        names = {row[0] for i in unusual for row in rec.derived[i]}
        targets = sorted({(nm, s, e) for nm, spans in labels0 if nm in names for (s, e, _p) in spans
                          if not any(ch.isspace() for ch in nm)})
        for j, t in enumerate(targets):
            cases.append((base, [t], j % 2 == 1))
        for j in range(0, len(targets) - 1, 2):
            cases.append((base, [targets[j], targets[j + 1]], j % 4 == 0))
    ctx.dist("end-to-end:alternation-deletion-cases", len(cases))
    return cases


def stream_end_to_end(ctx, impl, drv, judge, real_programs):
    rec = Recorder(impl)
    small = []
    full = impl.ps.Cleanup("full").run
    for p in real_programs:
        if len(p) > 45:
            continue
        try:
            t = str(quiet(full, "\n".join(p)))
        except Exception:  # noqa  (cleaning errors belong to C13/C14)
            continue
        ls = t.split("\n")
        if 2 <= len(ls) <= 25 and all(l == l.rstrip() for l in ls):
            small.append(ls)
    ctx.dist("end-to-end:cleaned-programs", len(small))
    forced = alternation_cases(ctx, impl, rec)
    n = (60 if ctx.tier == "quick" else 1200) + len(forced)
    done = 0
    tries = 0
    nbind = 0
    while done < n and tries < 5 * n:
        tries += 1
        rng = ctx.rng
        r0 = rng.random()
        plan = forced.pop(0) if forced else None
        if plan is not None:
            base = list(plan[0])
        elif tries <= 5 or r0 < 0.2:  # programs with several computed occurrences of one label on one line range
            base = list(DUPLICATES[(tries - 1) % len(DUPLICATES)] if tries <= 5 else rng.choice(DUPLICATES))
        elif small and r0 < 0.8:
            base = list(rng.choice(small))
        else:
            base = ["def f(n):", "    s = 0", "    for i in range(n):", "        if i % 2 == 0:", "            s = s + i",
                    "    return s", "print(f(10) + 1)"]
        text = "\n".join(base)
        try:
            p0 = quiet(impl.lp.get_program, text)
            if str(p0.source) != text:
                continue
            labels0 = rec.run(p0)
        except Exception:  # noqa  (finding 17 etc. belong to C01/C02)
            ctx.dist("end-to-end:parser-exception")
            continue
        if labels0 and labels0[0][0].startswith("ast_construction"):
            continue
        seeded0 = rec.seeded
        captures0 = rec.captures
        computed0 = list(rec.computed)
        if seeded0 is None:  # the parser answered without going through its stages (e.g. a memo): nothing recorded
            ctx.dist("end-to-end:undecorated-run-without-stages")
            continue
        # decorations aimed at computed labels
        clean = [(nm, s, e) for nm, spans in labels0 for (s, e, _p) in spans
                 if nm and (nm[0].isalnum() or nm[0] == "_") and not any(c.isspace() for c in nm)
                 and not nm.endswith("...") and not nm.endswith("…") and nm.isascii()]
        code_lines = [{"code": c, "pad": 1, "hints": []} for c in base]
        lines = code_lines
        isolated_at = []
        nonblank = [i for i, c in enumerate(base) if c.strip()]
        # DUPLICATE deletions aimed at DUPLICATE occurrences (same name, same line range), regex and SQL stages
        mult = {}
        for (nm, s_, e_) in clean:
            mult[(nm, s_, e_)] = mult.get((nm, s_, e_), 0) + 1
        regex_names = {x[0] for x in (seeded0 or [])}
        dups = [k for k, v in mult.items() if v >= 2 and base[k[1] - 1].strip() and base[k[2] - 1].strip()]
        dups_sql = [k for k in dups if k[0] not in regex_names]
        ndup = 0
        if plan is not None:  # deletions aimed at the labels of the alternation / unusual SQL feature keys
            for (nm, s_, e_) in plan[1]:
                if s_ == e_ and not plan[2]:
                    lines[s_ - 1]["hints"].append({"mark": "one-", "label": nm})
                else:
                    lines[s_ - 1]["hints"].append({"mark": "opn-", "label": nm, "uni": plan[2] and s_ != e_})
                    lines[e_ - 1]["hints"].append({"mark": "cls", "label": nm})
            ndup = len(plan[1])
        elif dups and (tries <= 5 or rng.random() < 0.5):
            for key in ([rng.choice(dups)] + ([rng.choice(dups_sql)] if dups_sql and rng.random() < 0.7 else [])):
                nm, s_, e_ = key
                if any(h["label"] == nm for l in lines for h in l["hints"]):
                    continue
                k = rng.choice([2, 2, mult[key], mult[key] + 1])
                interleave = rng.random() < 0.4
                for j in range(k):
                    if s_ == e_:
                        lines[s_ - 1]["hints"].append({"mark": "one-", "label": nm, "gap": rng.choice([0, 1])})
                        if interleave and j == 0:
                            lines[s_ - 1]["hints"].append({"mark": "one+", "label": nm, "plus": True})
                    else:
                        lines[s_ - 1]["hints"].append({"mark": "opn-", "label": nm})
                        lines[e_ - 1]["hints"].append({"mark": "cls", "label": nm})
                ndup += 1
            ctx.dist("end-to-end:duplicate-deletion-cases", 1 if ndup else 0)
            ctx.dist("end-to-end:duplicate-deletion-sql-stage", sum(1 for k in dups_sql if any(
                h["label"] == k[0] for l in lines for h in l["hints"])))
        for _ in range(0 if plan is not None else rng.randint(0 if ndup else 1, 5)):
            kind = rng.random()
            if clean and kind < 0.6:
                nm, s, e = rng.choice(clean)
                if rng.random() < 0.2:
                    s = e = rng.choice(nonblank) + 1  # a deletion that may find nothing
                if base[s - 1].strip() == "" or base[e - 1].strip() == "":
                    continue
                if s == e and rng.random() < 0.7:
                    lines[s - 1]["hints"].append({"mark": "one-", "label": nm})
                else:
                    lines[s - 1]["hints"].append({"mark": "opn-", "label": nm, "uni": rng.random() < 0.3})
                    lines[e - 1]["hints"].append({"mark": "cls", "label": nm})
            elif kind < 0.85:
                i = rng.choice(nonblank)
                nm = rng.choice(["extra_label", "flow/conditional", "meta/topic/fun"] + ([rng.choice(clean)[0]] if clean else []))
                lines[i]["hints"].append({"mark": "one+", "label": nm, "plus": rng.random() < 0.5})
            else:
                isolated_at.append(rng.randint(0, len(code_lines)))
        lines = []
        for i, cl in enumerate(code_lines + [None]):
            lines += [{"isolated": "whole_program_label", "indent": 0}] * isolated_at.count(i)
            if cl is not None:
                lines.append(cl)
        spec = drv.call("c12.spec_decorate", lines=lines)
        if not spec["hygienic"] or any(l["spans"] is None or not l["notie"] for l in spec["labels"]):
            ctx.dist("end-to-end:skipped-not-wellformed")
            continue
        src = spec["src"]
        if not impl.admissible(src):
            continue
        try:
            p = quiet(impl.lp.get_program, src)
        except Exception as e:  # noqa
            ctx.violations.append({"what": "well-formed decoration of a real program rejected", "signature": None,
                                   "replay": {"kind": "roundtrip", "layout": lines, "src": src, "impl": {"exc": exc_name(e)},
                                              "spec": expected_of(spec)}})
            continue
        deletion = sched_list({k: [[s.start, s.end] for s in v] for k, v in p.deletion.items()})
        addition = sched_list({k: [[s.start, s.end] for s in v] for k, v in p.addition.items()})
        if str(p.source) != text:
            ctx.violations.append({"what": "stored source differs from the program without the hints", "signature": None,
                                   "replay": {"kind": "roundtrip", "layout": lines, "src": src, "impl": str(p.source), "spec": text}})
            continue
        try:
            labels = rec.run(p)
        except Exception as e:  # noqa
            ctx.dist("end-to-end:parser-exception-on-decorated")
            rec = Recorder(impl)  # the database of the crashed parser is in an unknown state
            dels = [k for k, _ in deletion]
            add_violation(ctx, {
                "what": "ProgramParser raises on a valid program with well-formed hints instead of returning its labels",
                "signature": None,
                "replay": {"kind": "parser-crash", "layout": lines, "src": src, "impl": {"exc": repr(e)},
                           "spec": "labels = (computed - scheduled deletions) + additions, then derivations",
                           "how": "ProgramParser()(get_program(src))"},
            })
            continue
        done += 1
        hinted = {h["label"] for l in lines for h in l.get("hints", [])} | {l["isolated"] for l in lines if "isolated" in l}
        ctx.count("end-to-end", src, nontrivial=True)
        if rec.seeded is None:
            # The parser returned labels WITHOUT going through its stages on this hinted program (nothing was asked
            # to the regex engine nor to SQLite). Judge the answer with the engine answers of the undecorated run of
            # the same stored source: for the hinted names that no SQL stage produces, the final counts must be
            # (computed - scheduled deletions) + additions.
            ctx.dist("end-to-end:decorated-run-without-stages")
            sc0 = drv.call("c12.spec_counts", deletion=deletion, addition=addition, computed=computed0)
            regex_only = {x[0] for x in seeded0} | hinted
            sql_made = {nm for nm, spans in labels0} - {x[0] for x in seeded0}
            got = {}
            for nm, spans in labels:
                for (s_, e_, _p) in spans:
                    got[(nm, s_, e_)] = got.get((nm, s_, e_), 0) + 1
            wrong = [[nm, s_, e_, got.get((nm, s_, e_), 0), k] for nm, s_, e_, k, _l in sc0["rows"]
                     if nm in hinted and nm in regex_only and nm not in sql_made and got.get((nm, s_, e_), 0) != k]
            if wrong:
                add_violation(ctx, {
                    "what": "the labels of a hinted program are not (computed - scheduled deletions) + additions: "
                            "the hints are ignored",
                    "signature": None,
                    "replay": {"kind": "hints-ignored", "layout": lines, "src": src,
                               "impl": [w[:4] for w in wrong[:6]], "spec": [w[:3] + [w[4]] for w in wrong[:6]],
                               "deletion": deletion, "addition": addition,
                               "how": "ProgramParser()(get_program(src)) after parsing the same program without hints "
                                      "with the same parser; rows = [name, start, end, count]"},
                })
            else:
                ctx.broken.append("corr:end-to-end-no-stages")
            continue
        ctx.dist("end-to-end:deletions", sum(len(v) for _, v in deletion))
        # (1) model of the stages on the recorded answers
        m = drv.call("c12.glue", deletion=deletion, addition=addition, computed=rec.computed, derived=rec.derived)
        stages_differ = sorted(m["labels"]) != sorted(labels)
        # (2) the property on the implementation's regex stage: C12_deletion_exact / untouched
        sc = drv.call("c12.spec_counts", deletion=deletion, addition=addition, computed=rec.computed)
        got_counts = {}
        for nm, spans in rec.seeded:
            for (s, e, _p) in spans:
                got_counts[(nm, s, e)] = got_counts.get((nm, s, e), 0) + 1
        exp_counts = {(nm, s, e): k for nm, s, e, k, _left in sc["rows"] if k > 0}
        if stages_differ and got_counts == exp_counts:
            # the regex stage is right; the deletion loop of some SQL stage is not: on the answers SQLite gave, the
            # proved loop (C12_sql_stage_exact) returns other labels than the implementation
            ctx.cov["disagreements_checked"] += 1
            ml, il = sorted(m["labels"]), sorted(labels)
            add_violation(ctx, {
                "what": "labels of the SQL stages are not (derived - scheduled deletions left by the previous stages)",
                "signature": None,
                "replay": {"kind": "deletion-exact-sql-stage", "layout": lines, "src": src,
                           "impl": [x for x in il if x not in ml][:8], "model": [x for x in ml if x not in il][:8],
                           "spec": "c12.glue on the recorded answers (C12_sql_stage_exact)", "deletion": deletion,
                           "how": "ProgramParser()(get_program(src))"},
            })
        if got_counts != exp_counts:
            diff = sorted(set(got_counts.items()) ^ set(exp_counts.items()))[:10]
            ctx.violations.append({
                "what": "labels after the regex stage are not (computed - scheduled deletions) + scheduled additions",
                "signature": None,
                "replay": {"kind": "deletion-exact", "layout": lines, "src": src, "impl": diff,
                           "spec": "c12.spec_counts", "deletion": deletion, "addition": addition},
            })
        untouched0 = sorted(x for x in seeded0 if x[0] not in hinted)
        untouched = sorted(x for x in rec.seeded if x[0] not in hinted)
        if untouched0 != untouched:
            ctx.violations.append({
                "what": "a label that no hint mentions differs (regex stage) from the program without the hints",
                "signature": None,
                "replay": {"kind": "untouched", "layout": lines, "src": src,
                           "impl": [x for x in untouched if x not in untouched0][:10],
                           "spec": [x for x in untouched0 if x not in untouched][:10]},
            })
        # (3) get_bindings against its model on the captures of this run
        for prefix, caps in captures0[:400]:
            pos, suffix = caps.get("POS", []), caps.get("SUFFIX", [])
            if not pos:
                continue
            real = [[nm, sp.start, sp.end, sp.path] for nm, sp in impl.pp.get_bindings(prefix, caps)]
            mod = drv.call("c12.get_bindings", label=prefix, pos=pos, suffix=suffix)
            nbind += 1
            if mod.get("r") != real:
                ctx.broken.append("corr:get_bindings")
                ctx.notes.append({"stream": "get_bindings", "input": [prefix, caps], "impl": real, "model": mod})
                break
        if done == 1:
            ctx.sample({"stream": "end-to-end", "src": src, "deletion": deletion, "addition": addition,
                        "impl_labels_hinted": [x for x in labels if x[0] in hinted][:6],
                        "model_labels_hinted": [x for x in m["labels"] if x[0] in hinted][:6]})
    ctx.dist("end-to-end:get_bindings-cases", nbind)
    ctx.count("get_bindings", None, n=nbind)


def real_slice(rng, lines, max_lines=12):
    """Consecutive top-level statements (with the comments and blank lines between them) of a real program."""
    import ast
    if len(lines) <= max_lines:
        return assert_valid(list(lines), "real_slice")
    try:
        body = ast.parse("\n".join(lines) + "\n").body
    except SyntaxError:
        return None
    starts = [min([st.lineno] + [d.lineno for d in getattr(st, "decorator_list", [])]) for st in body]
    ends = [st.end_lineno for st in body]
    i = rng.randrange(len(body))
    j = i
    while j + 1 < len(body) and ends[j + 1] - starts[i] + 1 <= max_lines and rng.random() < 0.7:
        j += 1
    if ends[j] - starts[i] + 1 > max_lines:
        return None
    out = list(lines[starts[i] - 1:ends[j]])
    while out and out[-1].strip() == "":
        out.pop()
    return assert_valid(out, "real_slice") if out else None


def load_real_programs(impl):
    progs = []
    root = core.REPO / "examples"
    for path in sorted(root.rglob("*.py")):
        try:
            text = path.read_text(encoding="utf-8")
        except Exception:  # noqa
            continue
        if "paroxython" in text.lower() or not impl.admissible(text) or "\t" in text:
            continue
        lines = [l.rstrip() for l in text.split("\n")]
        while lines and lines[-1] == "":
            lines.pop()
        while lines and lines[0] == "":
            lines.pop(0)
        if lines and lines[0][:1] not in (" ", ""):
            progs.append(lines)
    return progs


def stream_corpus(ctx, impl, drv, judge):
    d = core.VERIF / "corpus" / "c12"
    srcs = []
    if d.exists():
        for f in sorted(d.glob("*.json")):
            srcs += json.loads(f.read_text(encoding="utf-8")).get("srcs", [])
    if srcs:
        compare_programs(ctx, impl, drv, judge, "corpus", srcs)


# ------------------------------------------------------------------------------------------ run

def run(ctx):
    core.prove(ctx)
    impl = Impl()
    drv = OracleDriver(impl)
    try:
        judge = Judge(ctx, impl, drv)
        real = load_real_programs(impl)
        ctx.dist("real-programs-loaded", len(real))
        import time
        walls = ctx.cov.setdefault("stream_wall_s", {"prove": round(ctx.elapsed(), 1)})
        for name, f in [("corpus", lambda: stream_corpus(ctx, impl, drv, judge)),
                        ("regexes", lambda: stream_regexes(ctx, impl, drv)),
                        ("layouts", lambda: stream_layouts(ctx, impl, drv, judge)),
                        ("decorated", lambda: stream_decorated(ctx, impl, drv, judge, real)),
                        ("blank-ends", lambda: stream_blank_ends(ctx, impl, drv, judge)),
                        ("glued-empty", lambda: stream_glued_empty(ctx, impl, drv, judge)),
                        ("marker", lambda: stream_marker_spelling(ctx, impl, drv, judge)),
                        ("linebreak-like", lambda: stream_unicode_linebreaks(ctx, impl, drv, judge)),
                        ("files", lambda: stream_files(ctx, impl, drv, judge)),
                        ("end-to-end", lambda: stream_end_to_end(ctx, impl, drv, judge, real))]:
            t = time.time()
            f()
            walls[name] = round(time.time() - t, 1)
    finally:
        drv.close()
    ctx.cov["rule"] = (
        "R2 streams: all sequences of <= 4 (quick) / 5 (thorough) tokens over the literals and one representative per "
        "character class of each fixed regex; layouts-bx: all texts of <= 3 (quick) / 4 lines whose lines are blank, code, "
        "code + hint comment or isolated hint comment over a 14-token pool incl. malformed tokens; decorated: random "
        "decorated programs built by the specification (decorate/events/balSpans) over synthetic and /repo/examples code "
        "lines, 70% well-formed, 20% unbalanced, 10% tie, the hint comment glued to the code (no space before #) on 2 lines "
        "out of 7; glued-empty: hint comments glued to the code x hints alone on a line (before / between / after) on the "
        "first / middle / last line, and EMPTY hint comments (4 spellings, 0-3 spaces after the colon) at the end of code "
        "lines and alone on the first / last line, with and without a final newline — all 1- and 2-line programs, a sample "
        "(quick) / all (thorough) of the 3-line ones; end-to-end: real programs decorated with deletions aimed at "
        "their computed labels, parsed with recorded regex/SQLite answers. Distinct non-trivial case = distinct input "
        "text that contains a hint marker (token streams: distinct non-empty input)."
    )
    ctx.cov["trusted_base"] = core.BASE_TRUST + [
        "R2: the four fixed regexes of preprocess_source.py (isolated hint, hint token, hint removal) and str.partition/"
        "split/strip re-expressed structurally in Model/Hints.lean; validated against the real `regex` engine by the "
        "token-level bounded-exhaustive streams above (testing, not proof)",
        "R1: the answers of the `regex` engine on the 173 features and of SQLite on the derivation queries are parameters "
        "of the parser-glue model (recorded from the real run)",
        "character classes beyond ASCII (regex \\w, regex \\s = str.isspace) are ORACLE parameters of the model and of every "
        "theorem; for each request the harness computes them with the real engines for the non-ASCII characters that occur "
        "in it (no input is filtered out)",
    ]
    ctx.assumptions += [
        "C12_roundtrip: code lines are single lines without any look-alike of the marker and without trailing white space "
        "(any number of spaces, or none, between the code and its hint comment); a hint comment carries at least one hint "
        "(empty hint comments: C12_source_no_marker for every text, and the glued-empty stream); "
        "labels start with a word character, contain no white space and no `#`, do not end with an ellipsis; some code "
        "line is not blank; marks properly nested per label "
        "(LIFO reading); no label opened for addition and deletion on one line (the code closes the addition first)",
        "C12_deletion_exact: the deletion schedule is a dictionary (distinct names) — proved of every get_program output "
        "(C12_schedule_shape)",
    ]
    ctx.cov["proved"] = [t.split(".")[-1] for t in ctx.cov.get("theorems", {})]
    ctx.cov["exercised_only"] = [
        "labels derived by the SQL queries from a hinted label (the queries are an oracle; each SQL stage's deletion loop is proved)",
        "agreement of the hand-written model with the Python (correspondence streams)",
    ]
    known = {k.get("signature") for k in core.load_known() if k.get("property") == ctx.pid and k.get("status") == "finding"}
    unknown = [v for v in ctx.violations if v.get("signature") is None or v.get("signature") not in known]
    if not unknown and (not ctx.proofs_ok or ctx.broken):
        ctx.violations.append({
            "no_input": True,
            "what": "a proof or a correspondence stream of C12 no longer checks",
            "replay": {"kind": "no-failing-input-found", "no_longer_checks": sorted(set(ctx.broken)),
                       "build_errors": ctx.cov.get("build_errors"), "disagreements": ctx.notes[:5],
                       "searched": "all streams of this run: no input on which the implementation contradicts the property"},
        })
    return core.finish(ctx)


def replay(ctx, path):
    obj = json.loads(Path(path).read_text(encoding="utf-8"))
    impl = Impl()
    drv = OracleDriver(impl)
    try:
        src = obj.get("src")
        if src is None:
            print(json.dumps(obj, indent=1, ensure_ascii=False))
            return 0
        print("src   :", repr(src))
        print("impl  :", json.dumps(impl.get_program(src), ensure_ascii=False))
        print("model :", json.dumps(canon_model_program(drv.call("c12.get_program", srcs=[src])["r"][0]), ensure_ascii=False))
        if "layout" in obj:
            spec = drv.call("c12.spec_decorate", lines=obj["layout"])
            print("spec  :", json.dumps({"hygienic": spec["hygienic"], "labels": spec["labels"], "expected": expected_of(spec)},
                                        ensure_ascii=False))
        print("spec_malformed:", json.dumps(drv.call("c12.spec_malformed", srcs=[src])["r"][0]))
    finally:
        drv.close()
    return 0
