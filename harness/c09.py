"""C09 — label-to-taxon translation is exactly the taxonomy table.

Proof: lean/Paroxy/Props/C09.lean (model = Model/Taxonomy.lean, for every regex oracle).
Tie: behavioural correspondence on `Taxonomy(path).get_taxon_name_list(L)` / `to_taxa(labels)`.
The regex oracle handed to the model is computed HERE with the real `regex` module using the
specification's notion — `regex.fullmatch(P, L)` and `Match.expand(T)`, `regex.fullmatch(r"\\w+/.+", L)`
for "looks like a taxon" — never the code's idiom, so a gap between idiom and meaning is a
disagreement. Table rows (sorting, field splitting, `-- EOF` cut, `is_literal`) come from the model.
"""
import contextlib
import io
import itertools
import json
import shutil
from pathlib import Path

from . import core
from .c10 import safe_batch

PID = "C09"


class Impl:
    def __init__(self):
        core.import_repo()
        import importlib

        self.mt = importlib.import_module("paroxython.map_taxonomy")
        self.ut = importlib.import_module("paroxython.user_types")
        self.regex = importlib.import_module("regex")
        self.looks_rx = self.regex.compile(r"\w+/.+")

    def taxonomy(self, path=None):
        return self.mt.Taxonomy(Path(path)) if path else self.mt.Taxonomy()

    def oracle(self, rows, labels):
        """rows = [[T, P, literal?]] from the model's parse. Returns (looks, table) or None when a
        pattern / template is not acceptable to the regex module (malformed taxonomy)."""
        comp = []
        for T, P, _ in rows:
            try:
                comp.append((T, P, self.regex.compile(P)))
            except Exception:  # noqa
                return None
        looks, tab = [], []
        for L in labels:
            if self.looks_rx.fullmatch(L):
                looks.append(L)
            ms, seen = [], set()
            for T, P, rx in comp:
                if (T, P) in seen:
                    continue
                seen.add((T, P))
                m = rx.fullmatch(L)
                if m:
                    try:
                        ms.append([T, P, m.expand(T)])
                    except Exception:  # noqa
                        return None
            tab.append([L, ms])
        return looks, tab


def harvest_labels(impl, ctx, dirs):
    lp = __import__("paroxython.label_programs", fromlist=["labelled_programs"])
    progs = []
    for d in dirs:
        dst = ctx.scratch_dir() / ("progs-" + d.parent.name)
        if not dst.exists():
            shutil.copytree(d, dst)
        with contextlib.redirect_stdout(io.StringIO()):
            progs += lp.labelled_programs(dst)
    return progs


def strip_lookarounds(p):
    out, i = [], 0
    while i < len(p):
        if p.startswith(("(?!", "(?=", "(?<!", "(?<="), i):
            depth, j = 0, i
            while j < len(p):
                if p[j] == "\\":
                    j += 2
                    continue
                depth += p[j] == "("
                depth -= p[j] == ")"
                j += 1
                if depth == 0:
                    break
            i = j
        else:
            out.append(p[i])
            i += 1
    return "".join(out)


def sample_from_pattern(regex, p, rng):
    """A crude sampler for the regex dialect of taxonomy.tsv: a string that often matches `p`."""
    p = strip_lookarounds(p)
    for _ in range(50):
        m = regex.search(r"\((?:\?:|\?P<\w+>)?([^()]*)\)", p)
        if not m:
            break
        alts = m.group(1).split("|")
        p = p[:m.start()] + rng.choice(alts) + p[m.end():]
    if "|" in p:
        p = rng.choice(p.split("|"))
    for a, b in ((r"\[\[:upper:\]\]", "Q"), (r"\[\[:lower:\]\]", "q"), (r"\[\^[^\]]*\][+*]?", "z"),
                 (r"\[([^\]])[^\]]*\][+*]?", r"\1"), (r"\\d[+*]?", "7"), (r"\\w[+*]?", "w"), (r"\\b", ""),
                 (r"\.\+", "q"), (r"\.\*", ""), (r"\\(.)", r"\1"), (r"(?<=.)[?*+]", ""), (r"\$$", ""), (r"^\^", "")):
        p = regex.sub(a, b, p)
    return p


# ------------------------------------------------------------------ custom taxonomies

def gen_custom(rng, k):
    """Returns (text, labels): a TSV text and a pool of labels aimed at its rows."""
    rows, labels = [], ["", "x", "a/b", "w1/y z", "zz/", "/q", "é/x", "nothing:here"]
    collide = []  # (regular label, the taxon it translates to, prefixes of that taxon)
    n = rng.randint(0, 7)
    for i in range(n):
        kind = rng.choice(["lit", "lit", "litdot", "grp", "swap", "named", "alt", "galt", "null", "backref",
                           "overlap", "suffix", "multi", "dup", "esc", "deep", "deep",
                           "head", "head", "head", "whole", "whole"])
        t = f"k{k}r{i}"
        if kind == "lit":
            rows.append((f"lit/{t}", f"lit_{t}"))
            labels += [f"lit_{t}", f"lit_{t}x", f"xlit_{t}"]
        elif kind == "litdot":
            rows.append((f"dot/{t}", f"a.b_{t}"))
            labels += [f"a.b_{t}", f"axb_{t}", f"a.b_{t}."]
        elif kind == "grp":
            rows.append((f"grp/{t}/\\1", f"pre_{t}:(\\d+)"))
            labels += [f"pre_{t}:42", f"pre_{t}:", f"pre_{t}:4x", f"pre_{t}:007"]
        elif kind == "swap":
            rows.append((f"sw/\\2/\\1", f"{t}_(\\w+)-(\\w+)"))
            labels += [f"{t}_ab-cd", f"{t}_ab-", f"{t}_a-b-c"]
        elif kind == "named":
            rows.append((f"named/\\g<name>/{t}", f"n{t}_(?P<name>[a-z]+)"))
            labels += [f"n{t}_abc", f"n{t}_ABC", f"n{t}_"]
        elif kind == "alt":
            rows.append((f"alt/{t}", f"foo_{t}|bar_{t}"))
            labels += [f"foo_{t}", f"bar_{t}", f"foo_{t}xyz", f"xbar_{t}", f"foo_{t}|bar_{t}", f"xfoo_{t}"]
        elif kind == "galt":
            rows.append((f"ga/\\1/{t}", f"(foo|bar)_{t}"))
            labels += [f"foo_{t}", f"bar_{t}", f"baz_{t}"]
        elif kind == "null":
            p, tt = rng.choice([("(.*)", f"any{t}/\\1"), ("x*", f"xs/{t}"), (f"(?:{t})?", f"opt/{t}"), ("(a*)(b*)", f"ab{t}/\\2\\1")])
            rows.append((tt, p))
            labels += ["", "xxx", t, "aab", "foo"]
        elif kind == "backref":
            rows.append((f"br/\\1/{t}", f"{t}(a+)b\\1"))
            labels += [f"{t}aba", f"{t}aabaa", f"{t}aaba"]
        elif kind == "overlap":
            rows.append((f"type/{t}/list", f"call_{t}:list"))
            rows.append((f"call/{t}/\\1", f"call_{t}:(list|dict)"))
            collide.append((f"call_{t}:list", f"type/{t}/list", [f"type/{t}"]))
            collide.append((f"call_{t}:dict", f"call/{t}/dict", [f"call/{t}"]))
            labels += [f"call_{t}:list", f"call_{t}:dict", f"call_{t}:set"]
        elif kind == "suffix":
            rows.append((f"asg/{t}", f"asg_{t}\\b.*"))
            labels += [f"asg_{t}", f"asg_{t}:x", f"asg_{t}x", f"asg_{t} y"]
        elif kind == "multi":
            rows.append((f"m1/{t}", f"multi_{t}"))
            rows.append((f"m2/{t}", f"multi_{t}"))
            rows.append((f"m0/{t}", f"multi_{t}|other_{t}"))
            labels += [f"multi_{t}", f"other_{t}"]
        elif kind == "dup":
            rows.append((f"dup/{t}", f"dup_{t}"))
            rows.append((f"dup/{t}", f"dup_{t}"))
            rows.append((f"dupr/{t}/\\1", f"dup_{t}(.?)"))
            rows.append((f"dupr/{t}/\\1", f"dup_{t}(.?)"))
            labels += [f"dup_{t}", f"dup_{t}z"]
        elif kind == "deep":
            # a regular label translated into a taxon whose name (and whose prefixes) can also come as
            # taxon-like labels (manual hints)
            rows.append((f"deep/{t}/x/y", f"deep_{t}"))
            labels += [f"deep_{t}", f"deep/{t}/x/y", f"deep/{t}/x", f"deep/{t}"]
            collide.append((f"deep_{t}", f"deep/{t}/x/y", [f"deep/{t}/x", f"deep/{t}"]))
        elif kind == "whole":
            # templates that are not plain text although the label pattern has NO capture group: the whole-match
            # reference \g<0>, an escaped backslash, \n-like escapes of Match.expand (seed C09-l: expand() skipped
            # for group-less patterns); and the same references beside real groups
            shape = rng.choice(["g0", "g0", "bs", "g0grp", "esc_n", "g0alt"])
            if shape == "g0":
                rows.append((f"style/{t}/\\g<0>", f"\\w+_naive_{t}"))
                labels += [f"bubble_sort_naive_{t}", f"x_naive_{t}", f"_naive_{t}", f"a b_naive_{t}"]
            elif shape == "bs":
                rows.append((f"bs/{t}\\\\x", f"back_{t}.*"))
                labels += [f"back_{t}", f"back_{t}:1", f"xback_{t}"]
            elif shape == "g0grp":
                rows.append((f"w/\\g<0>/{t}/\\1", f"gz_{t}:(\\d+)"))
                labels += [f"gz_{t}:12", f"gz_{t}:", f"gz_{t}:x"]
            elif shape == "esc_n":
                rows.append((f"tab/{t}\\t.", f"tb_{t}\\b.*"))
                labels += [f"tb_{t}", f"tb_{t}:q"]
            elif shape == "g0alt":
                rows.append((f"alt0/\\g<0>", f"aa_{t}|bb_{t}"))
                labels += [f"aa_{t}", f"bb_{t}", f"cc_{t}"]
        elif kind == "head":
            # rows shaped like the default table's `head:regex` whose part before the first colon (or whose
            # first/last characters) only LOOKS literal: a wildcard dot, an optional character, a class, an
            # inline flag, a top-level alternation, an optional colon. Any pre-selection of the rows by a
            # literal fragment of the pattern (seed C09-k: rows indexed by their "literal" head) loses matches.
            shape = rng.choice(["dot", "dot", "opt", "cls", "flag", "topalt", "optcolon", "esc", "plus", "grphead",
                                "taildot"])
            if shape == "dot":
                rows.append((f"hd/{t}/\\1", f"cmp.op_{t}:(\\w+)"))
                labels += [f"cmp.op_{t}:Lt", f"cmp_op_{t}:Lt", f"cmp:op_{t}:Lt", f"cmpop_{t}:Lt", f"cmp_op_{t}:"]
            elif shape == "opt":
                rows.append((f"ho/{t}/\\1", f"colou?r_{t}:(\\w+)"))
                labels += [f"color_{t}:red", f"colour_{t}:red", f"colouur_{t}:red", f"colou?r_{t}:red"]
            elif shape == "cls":
                rows.append((f"hc/{t}/\\1", f"[hH]ead_{t}:(\\d+)"))
                labels += [f"head_{t}:1", f"Head_{t}:22", f"[hH]ead_{t}:1", f"xead_{t}:1"]
            elif shape == "flag":
                rows.append((f"hf/{t}/\\1", f"(?i)flag_{t}:(a+)"))
                labels += [f"flag_{t}:aa", f"FLAG_{t.upper()}:AA", f"Flag_{t}:a", f"flag_{t}:b"]
            elif shape == "topalt":
                rows.append((f"ht/{t}", f"if_{t}:.+|else_{t}:.+"))
                labels += [f"if_{t}:x", f"else_{t}:y", f"elif_{t}:z", f"else_{t}:"]
            elif shape == "optcolon":
                rows.append((f"hq/{t}", f"span_{t}:?.*"))
                labels += [f"span_{t}", f"span_{t}:3", f"span_{t}x", f"xspan_{t}"]
            elif shape == "esc":
                rows.append((f"he/{t}/\\1", f"he\\.ad_{t}:(\\w+)"))
                labels += [f"he.ad_{t}:x", f"he_ad_{t}:x", f"he\\.ad_{t}:x"]
            elif shape == "plus":
                rows.append((f"hp/{t}/\\1", f"go+d_{t}:(\\w+)"))
                labels += [f"god_{t}:x", f"goood_{t}:x", f"gd_{t}:x", f"go+d_{t}:x"]
            elif shape == "grphead":
                rows.append((f"hg/\\1/{t}/\\2", f"(in|ex)t_{t}:([a-z]\\w*)"))
                labels += [f"int_{t}:abc", f"ext_{t}:z", f"t_{t}:abc", f"int_{t}:Abc"]
            elif shape == "taildot":
                rows.append((f"hz/{t}/\\1", f"idx_{t}:(\\d+).end"))
                labels += [f"idx_{t}:3.end", f"idx_{t}:3_end", f"idx_{t}:3end", f"idx_{t}:33:end"]
        elif kind == "esc":
            rows.append((f"esc/{t}", f"p\\.{t}\\(x\\)"))
            labels += [f"p.{t}(x)", f"pq{t}(x)"]
    rng.shuffle(rows)
    lines = [rng.choice(["Taxa\tLabels", "Taxa (replacement patterns)\tLabels (search patterns)", "T L"])]
    for T, P in rows:
        sep = rng.choice(["\t", "\t", "  ", " \t "])
        tail = rng.choice(["", "", "", "\tcomment", "  a comment with words"])
        lead = rng.choice(["", "", "", " ", "\t"])
        lines.append(f"{lead}{T}{sep}{P}{tail}")
    text = "\n".join(lines) + rng.choice(["", "\n", "\n\n"])
    r = rng.random()
    if r < 0.25:
        text += "-- EOF\nthis is a draft\nnot/a/row\tlit_k0r0\n\n\n"
    elif r < 0.33 and rows:
        text += "\n-- EOF"
    elif r < 0.40 and rows:
        text = text.rstrip("\n") + " -- EOF trailing words on the last row\nignored\tlines\n"
    gen_custom.collide = collide
    return text, list(dict.fromkeys(labels))


def version_of(text, j, rng):
    """Another table for the same labels: every taxon pattern gets the prefix v<j>/, a data line may
    disappear."""
    if j == 0:
        return text
    lines = text.split("\n")
    out = [lines[0]]
    cut = False
    for line in lines[1:]:
        if "-- EOF" in line:
            cut = True
        if cut or not line.strip():
            out.append(line)
        elif rng.random() < 0.15:
            continue
        else:
            lead = line[:len(line) - len(line.lstrip())]
            out.append(f"{lead}v{j}/{line.lstrip()}")
    return "\n".join(out)


class Checker:
    def __init__(self, ctx, drv, impl):
        self.ctx, self.drv, self.impl = ctx, drv, impl
        self.reported = False
        self.paths = itertools.count()

    def write(self, text):
        p = self.ctx.scratch_dir() / f"taxonomy-{next(self.paths)}.tsv"
        p.write_text(text, encoding="utf-8")
        return p

    def impl_history(self, path, hist):
        try:
            tax = self.impl.taxonomy(path)
        except Exception as exc:  # noqa
            return {"exc": type(exc).__name__}
        out = []
        for L in hist:
            try:
                out.append(list(tax.get_taxon_name_list(L)))
            except Exception as exc:  # noqa
                out.append({"exc": type(exc).__name__})
        return {"ok": out}

    def model_history(self, src, hist):
        """src = {"default": True} or {"text": ...}. Returns (rows, model answer) or (None, reason)."""
        pr = self.drv.call("c09.parse", **src)
        if "exc" in pr:
            return None, pr
        orc = self.impl.oracle(pr["ok"], list(dict.fromkeys(hist)))
        if orc is None:
            return None, {"malformed": "regex"}
        looks, tab = orc
        r = self.drv.call("c09.run", looks=looks, oracle=tab, history=hist, **src)
        return pr["ok"], r

    def history_case(self, stream, src, path, hist, tag):
        """One instance, one history. Returns the number of disagreeing calls."""
        ctx = self.ctx
        rows, m = self.model_history(src, hist)
        a = self.impl_history(path, hist)
        if rows is None:
            # malformed taxonomy: the model says ValueError (a row with fewer than two fields) or the
            # regex module rejects a pattern: the implementation must fail too
            ctx.count(stream, (tag, "malformed"))
            ctx.dist(f"{stream}:malformed:{'fields' if 'exc' in m else 'regex'}")
            raised = "exc" in a or any(isinstance(x, dict) for x in a["ok"])
            if not raised:
                ctx.broken.append(f"corr:{stream}:malformed-accepted")
                ctx.notes.append(f"{stream}: malformed taxonomy accepted by the implementation: {src.get('text', '')[:200]!r}")
            elif "exc" in m and a["exc"] != m["exc"]:
                ctx.broken.append(f"corr:{stream}:exception-class")
            return 0
        if "exc" in a:
            ctx.broken.append(f"corr:{stream}:init-raises")
            ctx.notes.append(f"{stream}: Taxonomy() raised {a['exc']} on {src.get('text', '<default>')[:200]!r}")
            return 0
        bad = 0
        seen = set()
        for i, L in enumerate(hist):
            ia, im, isp = a["ok"][i], m["model"][i], m["spec"][i]
            ctx.count(stream, (tag, L), nontrivial=bool(isp))
            ctx.dist(f"{stream}:{'repeat' if L in seen else 'first'}-call:{'translated' if isp else 'empty'}")
            seen.add(L)
            if im != isp:
                ctx.broken.append("model-vs-spec")  # impossible while C09_translation checks
            if ia != im:
                bad += 1
                ctx.cov["disagreements_checked"] += 1
                contradicts = isinstance(ia, dict) or sorted(ia) != sorted(isp)
                if contradicts and not self.reported:
                    self.reported = True
                    self.report(stream, src, hist, i)
                elif not contradicts:
                    ctx.broken.append(f"corr:{stream}:order")
                    if len(ctx.notes) < 10:
                        ctx.notes.append(f"{stream}: same multiset, different order: L={L!r} impl={ia} model={im}")
        return bad

    def disagrees(self, src, hist, i):
        path = None if src.get("default") else self.write(src["text"])
        rows, m = self.model_history(src, hist)
        a = self.impl_history(path, hist)
        if rows is None or "exc" in a or i >= len(hist):
            return None
        ia, isp = a["ok"][i], m["spec"][i]
        if isinstance(ia, dict) or sorted(ia) != sorted(isp):
            return {"impl": ia, "model": m["model"][i], "spec": isp, "rows": [r for r in rows]}
        return None

    def report(self, stream, src, hist, i):
        """Shrink (history, then table lines) and append the violation."""
        L = hist[i]
        for cand in ([L], [L, L], hist[:i + 1]):
            d = self.disagrees(src, cand, len(cand) - 1)
            if d:
                hist, i = cand, len(cand) - 1
                break
        if not src.get("default"):
            lines = src["text"].split("\n")
            changed = True
            while changed:
                changed = False
                for k in range(1, len(lines)):
                    cand = lines[:k] + lines[k + 1:]
                    if self.disagrees({"text": "\n".join(cand)}, hist, i):
                        lines, changed = cand, True
                        break
            src = {"text": "\n".join(lines)}
        d = self.disagrees(src, hist, i) or {}
        self.ctx.violations.append({
            "what": "get_taxon_name_list differs from the table filtered by 'P matches L entirely'",
            "signature": None,
            "replay": {
                "kind": "c09-history", "stream": stream, "taxonomy": src, "history": hist, "call_index": i,
                "label": hist[i], "impl": d.get("impl"), "model": d.get("model"), "spec": d.get("spec"),
                "how": "write taxonomy.text to a file (or use the default table), Taxonomy(path), call "
                       "get_taxon_name_list on each label of history in order; compare the answer of call_index "
                       "with spec = rows whose pattern regex.fullmatch-es the label, expanded with Match.expand",
            },
        })

    # ---- several instances in one process, built on the SAME path rewritten in between
    def run_multi_impl(self, texts, ops):
        """ops: ["new", j] = write texts[j] to the shared path and build instance j from it;
        ["call", j, L] = instance j translates L. Returns one entry per op (None for "new")."""
        # one path per scenario (rewritten inside the scenario), never reused by another scenario, so
        # that a scenario behaves as it would in a fresh process
        path = self.ctx.scratch_dir() / f"shared-taxonomy-{next(self.paths)}.tsv"
        inst, out = {}, []
        for op in ops:
            if op[0] == "new":
                path.write_text(texts[op[1]], encoding="utf-8")
                try:
                    inst[op[1]] = self.impl.taxonomy(path)
                except Exception as exc:  # noqa
                    inst[op[1]] = exc
                out.append(None)
            else:
                tax = inst[op[1]]
                if isinstance(tax, Exception):
                    out.append({"exc": type(tax).__name__})
                    continue
                try:
                    out.append(list(tax.get_taxon_name_list(op[2])))
                except Exception as exc:  # noqa
                    out.append({"exc": type(exc).__name__})
        return out

    def run_multi_model(self, texts, ops):
        """Each instance is its own state machine on the table it was built from: one `c09.run` per
        instance with the calls it received, in order. Returns (model, spec) per op, or None if a
        text is malformed."""
        res = [None] * len(ops)
        for j in {op[1] for op in ops if op[0] == "new"}:
            idx = [i for i, op in enumerate(ops) if op[0] == "call" and op[1] == j]
            rows, m = self.model_history({"text": texts[j]}, [ops[i][2] for i in idx])
            if rows is None:
                return None
            for n, i in enumerate(idx):
                res[i] = (m["model"][n], m["spec"][n])
        return res

    def multi_bad(self, texts, ops):
        """First op on which the implementation contradicts the table of ITS instance, or None."""
        m = self.run_multi_model(texts, ops)
        if m is None:
            return None
        a = self.run_multi_impl(texts, ops)
        for i, op in enumerate(ops):
            if op[0] == "call" and (isinstance(a[i], dict) or sorted(a[i]) != sorted(m[i][1])):
                return i, a[i], m[i][0], m[i][1]
        return None

    def multi_case(self, stream, texts, ops, tag):
        ctx = self.ctx
        m = self.run_multi_model(texts, ops)
        if m is None:
            return
        a = self.run_multi_impl(texts, ops)
        seen = set()
        for i, op in enumerate(ops):
            if op[0] != "call":
                continue
            j, L = op[1], op[2]
            im, isp = m[i]
            ctx.count(stream, (tag, j, L), nontrivial=bool(isp))
            kind = "seen-by-this-instance" if (j, L) in seen else (
                "seen-by-an-older-instance-only" if any(x[1] == L for x in seen) else "never-seen")
            ctx.dist(f"{stream}:{kind}")
            seen.add((j, L))
            if im != isp:
                ctx.broken.append("model-vs-spec")
            if a[i] != im:
                ctx.cov["disagreements_checked"] += 1
                contradicts = isinstance(a[i], dict) or sorted(a[i]) != sorted(isp)
                if contradicts and not self.reported:
                    self.reported = True
                    # shrink: an older instance translates L, the file is rewritten, the new instance translates L
                    best = (texts, ops, i, a[i], im, isp)
                    for jo in range(j):
                        cand_ops = [["new", 0], ["call", 0, L], ["new", 1], ["call", 1, L]]
                        cand_texts = [texts[jo], texts[j]]
                        r = self.multi_bad(cand_texts, cand_ops)
                        if r:
                            best = (cand_texts, cand_ops) + r
                            break
                    else:
                        r = self.multi_bad(texts, ops[:i + 1])
                        if r:
                            best = (texts, ops[:i + 1]) + r
                    bt, bo, bi, ba, bm, bs = best
                    ctx.violations.append({
                        "what": "get_taxon_name_list of an instance differs from the table that instance was built from "
                                "(several Taxonomy instances in one process, same path rewritten in between)",
                        "signature": None,
                        "replay": {"kind": "c09-multi", "stream": stream, "texts": bt, "ops": bo, "op_index": bi,
                                   "label": bo[bi][2], "instance": bo[bi][1], "impl": ba, "model": bm, "spec": bs,
                                   "how": "one path; [\"new\", j]: write texts[j] to that path and build Taxonomy(path) as "
                                          "instance j; [\"call\", j, L]: instance j.get_taxon_name_list(L); the answer of "
                                          "op_index must be the translation by the table texts[instance]"},
                    })
                elif not contradicts:
                    ctx.broken.append(f"corr:{stream}:order")

    # ---- to_taxa
    def to_taxa_case(self, stream, src, path, calls, tag):
        """calls = [labels, ...] with labels = [[L, [span ids]], ...]: successive to_taxa on one instance;
        then the same on a fresh instance with the deduplication switched off (raw bags)."""
        ctx, mt, ut = self.ctx, self.impl.mt, self.impl.ut
        pr = self.drv.call("c09.parse", **src)
        if "exc" in pr:
            return
        names = list(dict.fromkeys(L for labels in calls for L, _ in labels))
        orc = self.impl.oracle(pr["ok"], names)
        if orc is None:
            return
        looks, tab = orc
        m = self.drv.call("c09.to_taxa", looks=looks, oracle=tab, calls=calls, **src)["calls"]

        def mk(labels):
            return [ut.Label(L, [ut.Span(s, s + s % 3, f"p{s}") for s in sp]) for L, sp in labels]

        def canon(taxa):
            return [[t.name, sorted([k.start, v] for k, v in t.spans.items())] for t in taxa]

        def run_impl(raw):
            tax = self.impl.taxonomy(path)
            saved = mt.deduplicated_taxa
            if raw:
                mt.deduplicated_taxa = lambda taxa: taxa
            try:
                out = []
                for labels in calls:
                    try:
                        out.append({"ok": canon(tax.to_taxa(mk(labels)))})
                    except Exception as exc:  # noqa
                        out.append({"exc": type(exc).__name__})
                return out
            finally:
                mt.deduplicated_taxa = saved

        fin, raw = run_impl(False), run_impl(True)
        for k, labels in enumerate(calls):
            mres = m[k]["result"]
            mres = {"ok": [[n, sorted(b)] for n, b in mres["ok"]]} if "ok" in mres else mres
            mraw = sorted([n, sorted(b)] for n, b in m[k]["raw"])
            sraw = sorted([n, sorted(b)] for n, b in m[k]["spec_raw"])
            mraw_nz = [[n, b] for n, b in mraw if b]
            sraw = [[n, b] for n, b in sraw if b]
            nontriv = any(len(b) > 0 for _, b in mraw)
            ctx.count(stream, (tag, k, json.dumps(labels)), nontrivial=nontriv)
            ctx.dist(f"{stream}:{'first' if k == 0 else 'later'}-call:taxa={min(len(mraw), 20)}")
            if mraw_nz != sraw:
                ctx.broken.append("model-raw-vs-spec")  # impossible while C09_bag checks
            iraw = raw[k]
            if iraw != {"ok": mraw}:
                ctx.cov["disagreements_checked"] += 1
                got = iraw.get("ok")
                contradicts = got is None or [[n, b] for n, b in sorted(got) if b] != sraw
                if contradicts and not self.reported and stream != "shrink":
                    self.reported = True
                    calls, k, iraw, mraw, sraw = self.shrink_raw(src, calls, k, iraw, mraw, sraw)
                    ctx.violations.append({
                        "what": "the span bags accumulated by to_taxa (before deduplication) are not the multiset union "
                                "of the spans of the labels translated to each taxon",
                        "signature": None,
                        "replay": {"kind": "c09-to_taxa-raw", "stream": stream, "taxonomy": src, "calls": calls,
                                   "call_index": k, "impl_raw": iraw, "model_raw": mraw, "spec_raw": sraw,
                                   "how": "Taxonomy(path).to_taxa(labels) for each labels of calls, with "
                                          "map_taxonomy.deduplicated_taxa replaced by the identity; labels = "
                                          "[[name, [span ids]]], span id s -> Span(s, s + s % 3, f'p{s}')"},
                    })
                elif contradicts and stream == "shrink":
                    self.last_raw = (k, iraw, mraw, sraw)
                elif not contradicts:
                    ctx.broken.append(f"corr:{stream}:raw")
            if fin[k] != mres:
                ctx.cov["disagreements_checked"] += 1
                ctx.broken.append(f"corr:{stream}:result")
                if len(ctx.notes) < 10:
                    ctx.notes.append(f"{stream}: to_taxa result differs (raw bags {'agree' if iraw == {'ok': mraw} else 'differ'}): "
                                     f"impl={str(fin[k])[:300]} model={str(mres)[:300]}")


def _shrink_raw(self, src, calls, k, iraw, mraw, sraw):
    """Greedy shrinking of a raw-bag violation: a single call, then fewer labels, then fewer spans."""
    import copy

    def bad(cand):
        self.last_raw = None
        saved = (self.ctx.cov["evaluations"], dict(self.ctx.cov["streams"]), list(self.ctx.broken),
                 self.ctx.cov["disagreements_checked"], dict(self.ctx.cov["distribution"]))
        path = None if src.get("default") else self.write(src["text"])
        try:
            self.to_taxa_case("shrink", src, path, cand, "shrink")
        finally:
            (self.ctx.cov["evaluations"], self.ctx.cov["streams"], self.ctx.broken[:],
             self.ctx.cov["disagreements_checked"], self.ctx.cov["distribution"]) = saved
        return self.last_raw

    best = (calls, k, iraw, mraw, sraw)
    r = bad([calls[k]])
    if r:
        calls = [copy.deepcopy(calls[k])]
        best = (calls,) + r
        changed = True
        while changed:
            changed = False
            labels = calls[0]
            for i in range(len(labels)):
                cand = [labels[:i] + labels[i + 1:]]
                r = bad(cand)
                if r:
                    calls, best, changed = cand, (cand,) + r, True
                    break
            if changed:
                continue
            for i, (L, sp) in enumerate(labels):
                for j in range(len(sp)):
                    cand = [labels[:i] + [[L, sp[:j] + sp[j + 1:]]] + labels[i + 1:]]
                    r = bad(cand)
                    if r:
                        calls, best, changed = cand, (cand,) + r, True
                        break
                if changed:
                    break
    return best


Checker.shrink_raw = _shrink_raw


def bx_is_literal(ctx, drv, impl, extra):
    toks = ["a", "_", ":", ".", "\\", "(", ")", "[", "]", "{", "}", "*", "+", "?", "|", "^", "$", "-", "#", "&", "~",
            " ", "\t", "\n", "\x00", "é", "/", "\u2028", "\xa0", "\x1c", ","]
    pats = [""] + ["".join(p) for n in (1, 2) for p in itertools.product(toks, repeat=n)]
    pats += ["".join(p) for p in itertools.product(["a", ".", "\\", "(", "-", " ", "\x00"], repeat=3)]
    pats += ["".join(p) for p in itertools.product(["a", ".", "\\"], repeat=5)]
    pats += extra
    got = safe_batch(drv, [{"op": "c09.is_literal", "p": p} for p in pats])
    for p, g in zip(pats, got):
        e = impl.mt.is_literal(p)
        ctx.count("bx-is_literal", p, nontrivial=True)
        ctx.dist(f"bx-is_literal:{'literal' if e else 'regex'}")
        if e != g["r"]:
            ctx.broken.append("corr:is_literal")
            if len(ctx.notes) < 10:
                ctx.notes.append(f"is_literal({p!r}): impl {e} model {g['r']}")
    return len(pats)


def run(ctx):
    core.prove(ctx)
    impl = Impl()
    drv = core.Driver()
    quick = ctx.tier == "quick"
    rng = ctx.rng
    try:
        ck = Checker(ctx, drv, impl)
        ctx.cov["rule"] = (
            "a translation case = (taxonomy, label, position in the call history of one instance); non-trivial when the "
            "specification's translation of the label is non-empty; distinct = distinct (taxonomy, label). "
            "default table: labels harvested from real parses of /repo/examples programs + labels sampled from each row's "
            "pattern + perturbed labels, every label called at least twice (second pass shuffled, > 300 distinct labels "
            "between repeats), once more on a fresh instance, and once more after 4500 (thorough: 12000) distinct other labels on the same instance (memo pressure); custom tables: random TSV files (literal rows, dots, groups, "
            "swapped/named groups, back-references, top-level alternation, nullable patterns, several/duplicated rows per "
            "label, literal+regex overlap, comments columns, -- EOF tails) with histories of 40 calls with repeats; "
            "same-path-rewritten: 2-3 tables written one after the other to the SAME path, one instance built after each "
            "write, all alive together, interleaved calls, every call compared with the table of its own instance; "
            "to_taxa: successive calls on one instance, final result and raw bags (deduplication switched off) against "
            "the model and rawCount; is_literal: bounded-exhaustive over a 31-token alphabet (lengths ≤ 2, selected ≤ 5)"
        )
        # -- is_literal
        default_rows = drv.call("c09.parse", default=True)
        if "exc" in default_rows:
            ctx.broken.append("default-table-does-not-parse-in-the-model")
            default_rows = {"ok": []}
        default_rows = default_rows["ok"]
        tok = drv.call("c09.table_ok", default=True)
        ctx.cov["default_table_ok"] = tok  # hypothesis of C09_table_wf evaluated on the regenerated table
        if not (tok["ok"] and tok["translator_ok"]):
            ctx.broken.append("default-table-not-well-formed(tableOk)")
        ctx.cov["bx_is_literal_cases"] = bx_is_literal(ctx, drv, impl, [r[1] for r in default_rows])
        ctx.cov["exhaustive"] = True
        # -- default taxonomy
        ex = core.REPO / "examples"
        dirs = [ex / "simple" / "programs", ex / "mini" / "programs"] + ([] if quick else [ex / "idioms" / "programs"])
        progs = harvest_labels(impl, ctx, [d for d in dirs if d.is_dir()])
        harvested = sorted({l.name for p in progs for l in p.labels})
        synth = set()
        for T, P, lit in default_rows:
            if lit:
                synth |= {P, P + "x", "x" + P, P.replace(".", "x"), P[:-1]}
            else:
                for _ in range(3):
                    s = sample_from_pattern(impl.regex, P, rng)
                    synth |= {s, s + ":1", s + "x"}
        pert = set()
        for L in rng.sample(harvested, min(len(harvested), 300)):
            pert |= {L + "x", L[:-1], L.split(":")[0], L + ":"}
        labels = sorted(set(harvested) | synth | pert | {"", "a/b", "meta/program", "x"})
        labels = [L for L in labels if "\n" not in L]
        ctx.cov["default_labels"] = {"harvested": len(harvested), "synthetic": len(synth), "perturbed": len(pert),
                                     "programs_parsed": len(progs)}
        second = list(labels)
        rng.shuffle(second)
        hist = labels + second + rng.sample(labels, min(200, len(labels)))
        src = {"default": True}
        ck.history_case("default-table", src, None, hist, "default")
        # which rows were exercised
        orc = impl.oracle(default_rows, labels)
        hit = {(m[0], m[1]) for _, ms in orc[1] for m in ms} if orc else set()
        ctx.cov["default_rows"] = len(default_rows)
        ctx.cov["default_rows_matched_by_some_label"] = len({(r[0], r[1]) for r in default_rows} & hit)
        # memo pressure: thousands of distinct other labels between two calls of the same label on ONE instance (seed
        # C03-k: the memo of get_taxon_name_list bounded to 4096 entries; an evicted label is translated again and its
        # regex-derived taxa are appended a second time to the list shared with `literal_labels`)
        litset = {r[1] for r in default_rows if r[2]}
        both = [L for L, ms in (orc[1] if orc else []) if L in litset and any(m[1] not in litset for m in ms)]
        ctx.cov["labels_with_literal_and_regex_rows"] = len(both)
        again = both + rng.sample(labels, min(len(labels), 200))
        fillers = [f"zz_filler_{i}_{rng.randrange(10**6)}" for i in range(4500 if quick else 12000)]
        ck.history_case("default-table-memo-pressure", src, None, again + fillers + again, "default")
        # fresh instance: same answers again (the un-memoised path)
        ck.history_case("default-table-fresh-instance", src, None, rng.sample(labels, min(len(labels), 400 if quick else 3000)), "default")
        # -- to_taxa on the default table with the labels of real programs
        sel = progs if not quick else rng.sample(progs, min(len(progs), 12))
        calls = []
        for p in sel:
            ids = {}
            calls.append([[l.name, [ids.setdefault(tuple(s), len(ids)) for s in l.spans]] for l in p.labels])
        for chunk in range(0, len(calls), 4):
            ck.to_taxa_case("default-to_taxa", src, None, calls[chunk:chunk + 4], f"default-{chunk}")
        # -- custom taxonomies
        n_custom = 500 if quick else 15000
        for k in range(n_custom):
            text, pool = gen_custom(rng, k)
            path = ck.write(text)
            h = [rng.choice(pool) for _ in range(40)]
            ck.history_case("custom-tables", {"text": text}, path, h, f"c{ctx.seed}-{k}")
            collide = gen_custom.collide
            if k % 3 == 0 or collide:
                sp = lambda: [rng.randint(0, 4) for _ in range(rng.randint(0, 4))]

                def lab():
                    ls = [[rng.choice(pool), sp()] for _ in range(rng.randint(0, 8))]
                    for (L, T, prefixes) in collide:
                        if rng.random() < 0.7:
                            # the translated label and a hint literally named like its translation (both
                            # orders, shared spans or not), plus a prefix of that taxon
                            shared = sp()
                            pair = [[L, shared + sp()], [T, (shared if rng.random() < 0.5 else []) + sp()]]
                            rng.shuffle(pair)
                            extra = [[rng.choice(prefixes), shared + sp()]] if rng.random() < 0.7 else []
                            for item in pair + extra:
                                ls.insert(rng.randint(0, len(ls)), item)
                    return ls

                ck.to_taxa_case("custom-to_taxa", {"text": text}, path, [lab(), lab(), lab()], f"c{ctx.seed}-{k}")
            path.unlink()
        # -- several instances on the same (rewritten) path, alive together, interleaved calls
        n_multi = 120 if quick else 2500
        for k in range(n_multi):
            text, pool = gen_custom(rng, 10**6 + k)
            n_inst = rng.randint(2, 3)
            texts = [version_of(text, j, rng) for j in range(n_inst)]
            ops = []
            for j in range(n_inst):
                ops.append(["new", j])
                for _ in range(rng.randint(6, 14)):
                    i = j if rng.random() < 0.6 else rng.randint(0, j)
                    ops.append(["call", i, rng.choice(pool)])
            ck.multi_case("same-path-rewritten", texts, ops, f"m{ctx.seed}-{k}")
        # -- malformed taxonomies
        for text in ["Taxa\tLabels\nonlyonefield\n", "Taxa\tLabels\nx/y\tfoo\n\nz/t\tbar\n", "h\nx/y\t(unclosed\n",
                     "", "header only", "h\n \t \n", "h\nx/y\tfoo\n-- EOF\nonefield\n", "h\nx/\\3\t(a)\n"]:
            path = ck.write(text)
            ck.history_case("malformed-tables", {"text": text}, path, ["foo", "a", "foo"], text)
            path.unlink()
        # samples
        for L in ["assignment:x", "free_call:list", "meta/program"]:
            r = ck.model_history(src, [L, L])[1]
            a = ck.impl_history(None, [L, L])
            ctx.sample({"taxonomy": "default", "history": [L, L], "impl": a.get("ok"), "model": r.get("model"), "spec": r.get("spec")})
    finally:
        drv.close()
    ctx.cov["proved"] = [
        "C09_translation: every call of every call history on one instance returns translate rows L (memo + aliasing of "
        "literal_labels[L] unobservable), for every regex oracle and every table",
        "C09_same_on_every_call: the same from any reachable state (after any calls and to_taxa)",
        "C09_exact: membership in the translation = 'some row applies' (literal: P = L; regex: oracle full match), nothing else",
        "C09_literal_only_itself: is_literal = only dots and characters regex.escape leaves alone; such a row applies iff L = P",
        "C09_bag: raw bag of a taxon = Σ multiplicity × occurrences, from any reachable state",
        "C09_keys: the accumulator has exactly one key per taxon some label translates to (empty span lists included)",
        "C09_table_wf: a text passing tableOk is read without error into its distinct rows (tableOk is evaluated on the "
        "default table by the driver at run time: coverage.default_table_ok; not kernel-checked, too slow)",
    ]
    ctx.cov["exercised_only"] = [
        "the regex engine itself (regex.fullmatch / Match.expand are the oracle; the harness computes them with the real module)",
        "agreement of the Python with the model: TSV reading (cut, strip, sort, split), is_literal, memoisation, accumulation",
        "the default table's rows are exercised through labels; rows matched by no generated label are counted in "
        "coverage.default_rows_matched_by_some_label",
    ]
    ctx.cov["trusted_base"] = core.BASE_TRUST + [
        "the third-party regex engine: 'P matches L entirely' and the expansion of T are an oracle parameter of the model "
        "(theorems hold for every oracle); the harness fills it with regex.fullmatch(P, L) / Match.expand(T) and "
        "regex.fullmatch(r'\\w+/.+', L)",
        "transcription of regex.escape's metacharacter set and of str.isspace/str.split/str.strip (Model/Taxonomy.lean), "
        "validated bounded-exhaustively / differentially on every run",
        "translator: lean/Paroxy/Gen/Taxonomy.lean = raw lines of resources/taxonomy.tsv, regenerated on every run",
    ]
    ctx.assumptions += [
        "label names contain no newline (labels come from single-line AST dumps and whitespace-split hints); "
        "on 'a/b\\n' the code's `^\\w+/.+$`.match idiom and 'looks like word/...' differ",
        "a taxonomy whose patterns the regex module rejects, or with a row of fewer than two fields, makes __init__ raise: "
        "outside 'well-formed custom taxonomies' (only the raising itself is compared)",
    ]
    if not ctx.violations and (not ctx.proofs_ok or ctx.broken):
        ctx.violations.append({
            "no_input": True,
            "what": "a proof or the correspondence no longer checks and no input contradicting the property was found",
            "replay": {"kind": "no-failing-input-found", "no_longer_checks": sorted(set(ctx.broken)),
                       "build_errors": ctx.cov.get("build_errors"), "notes": ctx.notes[:10],
                       "searched": "default table (harvested + synthetic labels, repeated), custom tables, to_taxa streams"},
        })
    return core.finish(ctx)


def replay(ctx, path):
    obj = json.loads(Path(path).read_text(encoding="utf-8"))
    impl = Impl()
    drv = core.Driver()
    ck = Checker(ctx, drv, impl)
    try:
        if obj.get("kind") == "c09-multi":
            r = ck.multi_bad(obj["texts"], obj["ops"])
            print("texts :", json.dumps(obj["texts"])[:3000])
            print("ops   :", json.dumps(obj["ops"]))
            a = ck.run_multi_impl(obj["texts"], obj["ops"])
            m = ck.run_multi_model(obj["texts"], obj["ops"])
            i = r[0] if r else obj["op_index"]
            print("op    :", i, json.dumps(obj["ops"][i]))
            print("impl  :", json.dumps(a[i]))
            print("model :", json.dumps(m[i][0] if m else None))
            print("spec  :", json.dumps(m[i][1] if m else None))
            print("VIOLATION reproduced" if r else "no violation on this input")
            return 1 if r else 0
        src = obj["taxonomy"]
        p = None if src.get("default") else ck.write(src["text"])
        if obj.get("kind") == "c09-to_taxa-raw":
            ck.to_taxa_case("replay", src, p, obj["calls"], "replay")
            print("calls :", json.dumps(obj["calls"]))
            bad = bool(ctx.violations)
            for v in ctx.violations:
                print("impl raw :", json.dumps(v["replay"]["impl_raw"]))
                print("model raw:", json.dumps(v["replay"]["model_raw"]))
                print("spec raw :", json.dumps(v["replay"]["spec_raw"]))
        else:
            hist, i = obj["history"], obj["call_index"]
            rows, m = ck.model_history(src, hist)
            a = ck.impl_history(p, hist)
            print("taxonomy:", json.dumps(src)[:2000])
            print("history :", json.dumps(hist), "call_index", i)
            ia = a["ok"][i] if "ok" in a else a
            print("impl  :", json.dumps(ia))
            print("model :", json.dumps(m["model"][i] if rows is not None else m))
            print("spec  :", json.dumps(m["spec"][i] if rows is not None else m))
            bad = rows is not None and (isinstance(ia, dict) or sorted(ia) != sorted(m["spec"][i]))
    finally:
        drv.close()
    print("VIOLATION reproduced" if bad else "no violation on this input")
    return 1 if bad else 0
