"""C03 — tags of a program depend only on its own text.

Proved (lean/Paroxy/Props/C03.lean) about the process state machine `Paroxy.Proc.step` (pseudo_hash
counter, SQLite tables of DerivedLabelsDatabase, taxonomy memo with aliased lists), for all engines,
programs and histories: boundary invariant, outputs = pure specification, history independence,
hash-counter state, and (on the C11 model) the record of a program in a collection depends only on
which of its imported module names are collected.

Tie (this file):
  (1) sequences of 2-12 programs (random order, repeats) through ONE ProgramParser + ONE Taxonomy: outputs
      compared with those of a fresh instance, state observables (pseudo_hash.i, sqlite_master table list
      after every read and after every call, literal_labels of touched labels, memo size) compared with
      the model `c03.run`;
  (2) sub-collections of a directory vs the whole directory (TagDatabase);
  (3) two `collect` runs in two subprocesses with different PYTHONHASHSEED: byte-identical JSON;
  (4) several collections made one after the other in ONE process (directory A then B importing a module name only A
      has; full collection then glob sub-collections; both orders), each compared with a fresh process.
Exercised only: SQLite, interpreter hash randomisation.
"""
import ast
import json
import os
import subprocess
import sys
from pathlib import Path

from . import core
from . import c11

TEXTS = [
    "x = 1\n",
    "import os\nprint(os.getcwd())\n",
    "def fib(n):\n    if n < 2:\n        return n\n    return fib(n - 1) + fib(n - 2)\nprint(fib(10))\n",
    "acc = 0\nfor i in range(10):\n    if i % 2 == 0:\n        acc = acc + i\nprint(acc)\n",
    "s = 0\nn = 10\nwhile n > 0:\n    s += n\n    n -= 1\nprint(s)\n",
    "a = [1, 2, 3]\nb = [x * x for x in a]\nc = a[0] + a[0] + b[1]\nprint(c, a[0])\n",
    "class K:\n    def __init__(self, v):\n        self.v = v\n    def get(self):\n        return self.v\nk = K(3)\nprint(k.get())\n",
    "for x in [1, 2, 3]:\n    if x == 2:\n        break\nelse:\n    print('none')\n",
    "def (:\n",
    "",
    "if x:\n        y = 1\n    z = 2\n",
    "import math\nfrom math import sqrt as r\nprint(r(2) + math.pi)\n",
    "m = 0\nfor v in [3, 1, 4, 1, 5]:\n    if v > m:\n        m = v\nprint(m)\n",
    "def f(a, b=2, *c, **d):\n    return (a, b, c, d)\nprint(f(1), f(1, 2), f(1))\n",
    "t = (1, 2)\n(u, v) = t\n(u, v) = (v, u)\nprint(u + v, u + v)\n",
    "try:\n    x = int('a')\nexcept ValueError:\n    x = 0\nfinally:\n    print(x)\n",
    "   \n\n",
    "x = 1\x00\n",
    # labels that are both a literal row and matched by a compiled row of the taxonomy (aliased list append)
    "acc = 0\nfor i in range(5):\n    acc = acc + i\nprint(acc)\n",
    "l = list(range(3))\nd = dict()\nb = bool(1)\nprint(l, d, b)\n",
    # the same code as the text above "acc = acc + i" one, carrying manual hints (one addition, one deletion):
    # after `get_program` the stored source is identical, only the scheduled hints differ
    "acc = 0 # paroxython: extra_label\nfor i in range(5):\n    acc = acc + i # paroxython: -addition_operator\nprint(acc)\n",
    "x = 1 # paroxython: my_hint\n",
    "import os # paroxython: -import_module:os\nprint(os.getcwd()) # paroxython: io_hint\n",
]
TEXTS += [
    # raw characters that str.splitlines() takes for line boundaries, inside string literals
    's = "a\x0bb"\nprint(s)\n',
    "t = 'x\x0cy\u2028z'\nu = 'k\x1cl\x85m'\nprint(t, u)\n",
]
# process-global-state probes: a valid program whose flattening fails half-way (RecursionError on a left-deep
# expression of 1500 operands), huge literals in another base, and a decimal literal beyond the 4300-digit limit
# (SyntaxError from the parser — unless something lifted sys.set_int_max_str_digits earlier in the process)
P_DEEP, P_DEC, P_HEX, P_BIN = len(TEXTS), len(TEXTS) + 1, len(TEXTS) + 2, len(TEXTS) + 3
TEXTS += [
    "x = " + " + ".join(["1"] * 1500) + "\n",
    "z = " + "7" * 5000 + "\nprint(z)\n",
    "h = 0x" + "f" * 6000 + "\n",
    "b = 0b" + "1" * 20000 + "\n",
]
BASE_OF_HINTED = {20: 18, 21: 0, 22: 1}  # index of a hinted text -> index of the hint-free text with the same code


def snapshot_globals():
    """A small set of interpreter-global observables no tagging may change."""
    import locale
    import warnings
    return {"int_max_str_digits": sys.get_int_max_str_digits() if hasattr(sys, "get_int_max_str_digits") else None,
            "recursionlimit": sys.getrecursionlimit(), "locale": locale.setlocale(locale.LC_ALL),
            "warnings_filters": len(warnings.filters), "cwd": os.getcwd(), "sys_path_len": len(sys.path)}


def restore_globals(snap):
    if snap["int_max_str_digits"] is not None:
        sys.set_int_max_str_digits(snap["int_max_str_digits"])
    sys.setrecursionlimit(snap["recursionlimit"])
    os.chdir(snap["cwd"])


def leaked_globals(ctx, snap, where, detail):
    """Compare with the snapshot; a difference is recorded (a violation CANDIDATE: it becomes a violation when a later
    program's record differs from its record alone — the probe sequences are there for that), then undone."""
    now = snapshot_globals()
    diff = {k: [snap[k], now[k]] for k in snap if snap[k] != now[k] and k != "warnings_filters"}
    if diff:
        ctx.dist(f"globals.leak.{where}")
        leaks = ctx.cov.setdefault("interpreter_globals_leaked", [])
        if len(leaks) < 6:
            leaks.append({"where": where, "changed": diff, "after": detail})
        restore_globals(snap)
    return diff


class Proc:
    """One tagging process: one ProgramParser, one Taxonomy, the module-level pseudo_hash."""

    def __init__(self):
        from paroxython.parse_program import ProgramParser
        from paroxython.map_taxonomy import Taxonomy
        self.parser = ProgramParser()
        self.taxonomy = Taxonomy()
        self.lit0 = {k: list(v) for k, v in self.taxonomy.literal_labels.items()}
        self.create_args = None
        self.answers = []
        self.traces = []
        dldb = self.parser.derived_labels_database
        real_create, real_read = dldb.create, dldb.read
        me = self

        real_update = dldb.update
        me.in_create = False

        def create(labels, *a, **k):
            me.create_args = [(l.name, [tuple(s) for s in l.spans]) for l in labels]
            me.in_create = True
            try:
                return real_create(labels, *a, **k)
            finally:
                me.in_create = False

        def read(query, *a, **k):
            r = real_read(query, *a, **k)
            # the labels the parser KEEPS for this query = what it inserts back with `update` (the rows of the
            # query minus the occurrences scheduled for deletion by a hint); nothing is inserted when none is left
            me.answers.append([])
            me.traces.append(me.tables())
            return r

        def update(labels, *a, **k):
            if not me.in_create and me.answers:
                me.answers[-1] = [(l.name, [tuple(s) for s in l.spans]) for l in labels]
            return real_update(labels, *a, **k)

        dldb.create, dldb.read, dldb.update = create, read, update  # instance attributes of OUR parser's database

    def tables(self):
        c = self.parser.derived_labels_database.c
        return [r[0] for r in c.execute("SELECT name FROM sqlite_master WHERE type='table' ORDER BY rowid")]

    def tag(self, text):
        from paroxython.list_programs import get_program
        self.create_args, self.answers, self.traces = None, [], []
        program = get_program(text, Path("p.py"))
        out = {}
        try:
            labels = self.parser(program)
            out["labels"] = [(l.name, [tuple(s) for s in l.spans]) for l in labels]
            taxa = self.taxonomy.to_taxa(labels)
            out["taxa"] = [(t.name, sorted((tuple(s), n) for s, n in t.spans.items())) for t in taxa]
        except RecursionError:
            raise
        except Exception as e:  # noqa
            out["exc"] = type(e).__name__
        return program, out


class RecHash:
    """Installed as paroxython.flatten_ast.pseudo_hash: the real factory + a record of its arguments."""

    def __new__(cls):
        import paroxython.flatten_ast as fa

        class _Rec(fa.PseudoHashFactory):
            def reset(self):
                super().reset()
                self.args = []

            def __call__(self, x):
                self.args.append(x)
                return super().__call__(x)

        return _Rec()


def reference(text, query_ids):
    """The behaviour of fresh instances on one text: everything the model's oracles need."""
    import paroxython.flatten_ast as fa
    from paroxython.list_programs import get_program

    src = str(get_program(text, Path("p.py")).source)
    rec = {"lines": src.count("\n") + 1}
    try:
        tree = ast.parse(src)
        rec["parsed"] = "tree" if tree.body else "empty"
    except (SyntaxError, ValueError) as e:
        rec["parsed"] = "invalid"
        rec["err"] = type(e).__name__
    proc = Proc()
    fa.pseudo_hash.reset()
    _, out = proc.tag(text)
    rec["fresh"] = out
    labs = out.get("labels", [])
    if rec["parsed"] == "tree" and len(labs) == 1 and labs[0][0].startswith("ast_construction:") and proc.create_args is None:
        # a valid program whose FLATTENING failed (fix d1e6a10): reported like an invalid one; the hash counter was
        # reset and partly filled, which the model's `invalid` kind does not track
        rec["parsed"], rec["err"], rec["flatten_failed"] = "invalid", labs[0][0].split(":", 1)[1], True
    rec["reprs"] = list(fa.pseudo_hash.args) if rec["parsed"] == "tree" else []
    rec["hash_i"] = fa.pseudo_hash.i
    if "exc" in out and proc.create_args is None and rec["parsed"] == "tree":
        rec["regex_exc"] = out["exc"]
    rec["labels0"] = [[n, [c11.span3(s) for s in sp]] for n, sp in (proc.create_args or [])]
    rec["answers"] = [[query_ids[i], [[n, [c11.span3(s) for s in sp]] for n, sp in a]]
                      for i, a in enumerate(proc.answers) if a]
    rec["out_names"] = [n for n, _ in out.get("labels", [])]
    if rec["parsed"] == "tree" and "labels" in out:
        # the model does not sort: regex labels, then the derived ones in query order
        rec["model_names"] = [n for n, _ in (proc.create_args or [])] + [n for a in proc.answers for n, _ in a]
    else:
        rec["model_names"] = list(rec["out_names"])
    rec["taxa"] = [[n, [c11.span3(s) for s, _ in sp]] for n, sp in out.get("taxa", [])]
    rec["trace"] = proc.traces
    # taxonomy oracles for the labels of this text
    rec["pure"] = {}
    from paroxython.map_taxonomy import Taxonomy
    fresh_taxonomy = Taxonomy()
    for n in dict.fromkeys(rec["out_names"]):
        rec["pure"][n] = list(fresh_taxonomy.get_taxon_name_list(n))  # each label once, on an untouched instance
    return rec


def taxonomy_oracles(recs, lit0):
    import regex
    looks = regex.compile(r"^\w+/.+$").match
    taxon_like, compiled = [], {}
    for r in recs:
        for n, pure in r["pure"].items():
            if looks(n):
                taxon_like.append(n)
            else:
                k = len(lit0.get(n, []))
                compiled[n] = pure[k:]
    return sorted(set(taxon_like)), [[k, v] for k, v in compiled.items()]


def drawn_texts(ctx, n_corpus, n_generated):
    """Sequence texts beyond the constants: programs of the /repo/examples corpus and programs generated by the
    grammar of harness/flat_export.Gen (with, lambda, nested def, comprehension, class, match, async, …)."""
    out = []
    corpus = []
    for sub in ("simple", "idioms", "mini"):
        d = core.REPO / "examples" / sub / "programs"
        if d.is_dir():
            corpus += sorted(d.glob("*.py"))
    ctx.rng.shuffle(corpus)
    for path in corpus[:n_corpus]:
        try:
            t = path.read_text()
        except Exception:  # noqa
            continue
        if "paroxython" in t.lower() or len(t) > 3000:
            continue
        out.append(t)
        ctx.dist("seq.text.corpus")
    try:
        from . import flat_export
        gen = flat_export.Gen(ctx.rng, max_depth=3, adv=0.1)
        for _ in range(n_generated):
            src, _tree, _rej = flat_export.gen_valid(gen)
            if "paroxython" in src.lower():
                continue
            out.append(src)
            ctx.dist("seq.text.generated")
    except Exception as e:  # noqa
        ctx.notes.append(f"flat_export.Gen not usable for the C03 sequences: {type(e).__name__}: {e}")
    return list(dict.fromkeys(out))


def norm_labels(pairs):
    return [[n, [c11.span3(s) for s in sp]] for n, sp in pairs]


def stream_sequences(ctx, drv, n_seq):
    import paroxython.flatten_ast as fa
    from paroxython.parse_program import ProgramParser
    import regex

    probe = ProgramParser()
    query_ids = list(probe.queries.keys())
    prereq = regex.compile(r"(?m)\b(?:FROM|JOIN) t_(\w+)").findall
    queries = [[q, prereq(probe.queries[q])] for q in query_ids]
    texts = list(TEXTS)  # fixed prefix (the indices of the fixed sequences refer to it)
    texts += drawn_texts(ctx, n_corpus=6 if ctx.tier == "quick" else 30, n_generated=10 if ctx.tier == "quick" else 50)
    twin_groups = []
    try:
        from . import c02
        for _ in range(3 if ctx.tier == "quick" else 30):
            tw = c02.gen_twins(ctx.rng, "none")
            if tw:
                idx = []
                for t in tw.values():
                    if t not in texts:
                        texts.append(t)
                    idx.append(texts.index(t))
                twin_groups.append(idx)
                ctx.dist("seq.text.layout_twins", len(idx))
    except Exception as e:  # noqa
        ctx.notes.append(f"c02.gen_twins not usable for the C03 sequences: {type(e).__name__}: {e}")
    snap0 = snapshot_globals()
    recs = []
    for t in texts:
        recs.append(reference(t, query_ids))
        leaked_globals(ctx, snap0, "reference", t[:60])  # keeps every reference a "tagged alone" one
    from paroxython.list_programs import get_program
    for h, b in BASE_OF_HINTED.items():
        if str(get_program(texts[h], Path("p.py")).source) != str(get_program(texts[b], Path("p.py")).source):
            ctx.notes.append(f"hinted text {h} and its base {b} do not have the same stored source")
            ctx.broken.append("generator:hinted-pairs")
        ctx.dist("seq.hinted_pairs_checked")
    lit0 = Proc().lit0
    taxon_like, compiled = taxonomy_oracles(recs, lit0)
    progs_req = [{k: r[k] for k in ("parsed", "lines", "reprs", "labels0", "answers", "taxa")} | {"out_names": r["model_names"]}
                 | ({"err": r["err"]} if "err" in r else {}) | ({"regex_exc": r["regex_exc"]} if "regex_exc" in r else {})
                 for r in recs]
    ctx.cov["reference"] = {"texts": len(texts), "sql_queries": len(queries),
                            "kinds": {k: sum(1 for r in recs if r["parsed"] == k) for k in ("tree", "empty", "invalid")}}
    for si in range(n_seq):
        k = ctx.rng.randrange(2, 13)
        seq = [ctx.rng.randrange(len(texts)) for _ in range(k)]
        if si == 0:
            seq = [2, 8, 2, 9, 5, 5, 3, 10, 2]  # repeats around invalid/empty programs
        elif si == 1:
            seq = [18, 20, 18, 20, 0, 21, 22, 1]  # hint-free first, then the same code with hints
        elif si == 2:
            seq = [20, 18, 21, 0, 1, 22, 20]  # hinted first, then the same code without hints
        elif 3 <= si < 3 + len(twin_groups):
            g = list(twin_groups[si - 3])  # layout twins (same tree, different lines), one after the other, both orders
            seq = g + g[::-1] + [ctx.rng.randrange(len(TEXTS))] + g[:1]
        elif si == 3 + len(twin_groups):
            seq = [P_DEEP, P_DEC]  # flattening fails half-way, then a literal only the untouched interpreter rejects
        elif si == 4 + len(twin_groups):
            seq = [P_DEC, P_HEX, P_DEC, P_BIN, P_DEEP, P_DEC, 0, P_DEC]
        elif ctx.rng.random() < 0.15:
            seq = seq + [ctx.rng.choice([P_DEEP, P_HEX, P_BIN]), P_DEC]
        elif ctx.rng.random() < 0.4:
            h = ctx.rng.choice(list(BASE_OF_HINTED))
            pair = [BASE_OF_HINTED[h], h]
            ctx.rng.shuffle(pair)
            at = ctx.rng.randrange(len(seq) + 1)
            seq = seq[:at] + pair + seq[at:]
        if ctx.rng.random() < 0.3:
            seq = seq + [seq[0]] + seq[:2]
        proc = Proc()
        fa.pseudo_hash.reset()
        used = sorted(set(seq))  # only the programs of this sequence are sent to the driver
        remap = {g: k for k, g in enumerate(used)}
        m = drv.call("c03.run", queries=queries, literal=[[a, b] for a, b in lit0.items()], taxon_like=taxon_like,
                     compiled=compiled, programs=[progs_req[g] for g in used], sequence=[remap[g] for g in seq],
                     trace=True)["steps"]
        memo_base = memo_size(proc)
        hash_unknown = False
        for pos, idx in enumerate(seq):
            text, ref, ms = texts[idx], recs[idx], m[pos]
            _, out = proc.tag(text)
            if ref.get("flatten_failed"):
                hash_unknown = True
            elif ref["parsed"] == "tree":
                hash_unknown = False
            key = (tuple(seq[:pos + 1]),)
            ctx.count("sequences", key, nontrivial=pos > 0)
            ctx.dist(f"seq.kind.{ref['parsed']}")
            # (a) the property itself, at implementation level: same tags as a fresh process
            if out != ref["fresh"]:
                d = c11.first_diff(json.loads(json.dumps(out)), json.loads(json.dumps(ref["fresh"])))
                ctx.violations.append({
                    "what": f"tags of a program depend on the programs tagged before it ({d})",
                    "replay": {"kind": "sequence", "texts": [texts[i] for i in seq[:pos + 1]], "position": pos,
                               "impl": {"in_sequence": summarize(out)}, "model": summarize_model(ms),
                               "spec": {"fresh_instance": summarize(ref["fresh"])}, "at": d}})
                break
            # (b) the model's outputs (= oracle answers) and state observables
            obs = {"hash_i": fa.pseudo_hash.i, "tables": proc.tables(), "read_trace": proc.traces}
            mo = ms["out"]
            if "exc" in out:
                same_out = mo.get("exc") == out["exc"]
            else:
                same_out = ("labels" in mo and sorted(mo["labels"]) == sorted(norm_labels(out["labels"]))
                            and mo["taxa"] == [n for n, _ in out["taxa"]])
            mod_obs = {"hash_i": ms["hash_i"], "tables": ms["tables"], "read_trace": ms["read_trace"]}
            if ref["parsed"] != "tree":
                obs["read_trace"] = mod_obs["read_trace"] = []
            if hash_unknown:
                obs["hash_i"] = mod_obs["hash_i"] = None
            lit_ok = True
            for name, val in ms["literal_touched"]:
                # the in-place append is a quirk of the current code: a copy-on-read refactoring (list untouched)
                # is accepted too; anything else (e.g. a list that keeps growing) is not
                if proc.taxonomy.literal_labels.get(name) not in (val, lit0.get(name)):
                    lit_ok = False
                if proc.taxonomy.literal_labels.get(name) != lit0.get(name):
                    ctx.dist("seq.literal_list_extended_in_place")
            memo_impl = None if memo_base is None else memo_size(proc) - memo_base
            if not same_out or obs != mod_obs or not lit_ok or (memo_impl is not None and ms["memo_size"] != memo_impl):
                ctx.broken.append("corr:state-observables")
                ctx.notes.append({"sequence": seq[:pos + 1], "impl_obs": {**obs, "read_trace": obs["read_trace"][:3]},
                                  "model_obs": {**mod_obs, "read_trace": mod_obs["read_trace"][:3]},
                                  "same_out": same_out, "literal_ok": lit_ok,
                                  "memo": [ms["memo_size"], memo_impl]})
                break
        leaked_globals(ctx, snap0, "sequence", [texts[i][:40] for i in seq])
        if si < 2:
            ctx.sample({"sequence": seq, "pseudo_hash.i after each call (impl=model)": [s["hash_i"] for s in m],
                        "max tables during a call": max((len(t) for s in m for t in s["read_trace"]), default=0)}, limit=2)


def stream_cache_pressure(ctx, n_rounds):
    """A long session: the same program tagged before and after many programs that bring thousands of distinct label
    names through the SAME parser and taxonomy (a bounded memo, eviction and re-translation would show; seeded change
    C03-a — lru_cache(maxsize=2048) on get_taxon_name_list — was only reported as a broken tie before this stream)."""
    probes = [
        "x = int('3')\ny = list('ab')\ny.append(x)\nprint(str(x))\n",
        "def f(n):\n    acc = []\n    for i in range(n):\n        acc.append(float(i))\n    return tuple(acc)\n",
    ]
    for r in range(n_rounds):
        proc = Proc()
        firsts = []
        for t in probes:
            _, out = proc.tag(t)
            firsts.append(out)
        distinct = set()
        fillers = 6 + r
        for f in range(fillers):
            src = "\n".join(f"v{r}_{f}_{j} = {j}" for j in range(130)) + "\n"
            _, out = proc.tag(src)
            if "labels" in out:
                distinct |= {n for n, _ in out["labels"]}
        for t, first in zip(probes, firsts):
            _, again = proc.tag(t)
            ctx.count("cache pressure (long session)", (r, t), nontrivial=True)
            if again != first:
                d = c11.first_diff(json.loads(json.dumps(again)), json.loads(json.dumps(first)))
                ctx.violations.append({
                    "what": f"tags of a program changed after a long session of other programs ({d})",
                    "replay": {"kind": "cache-pressure", "probe": t, "fillers": fillers, "distinct_labels_between": len(distinct),
                               "impl": {"first": summarize(first), "again": summarize(again)}, "at": d}})
                return
        ctx.dist(f"pressure.distinct_labels>={(len(distinct) // 1000) * 1000}")


def memo_size(proc):
    """Number of memoised translations (observable only while the memo is an lru_cache)."""
    f = getattr(type(proc.taxonomy), "get_taxon_name_list", None)
    info = getattr(f, "cache_info", None)
    return info().currsize if info else None


def summarize(out):
    if "exc" in out:
        return out
    return {"labels": [n for n, _ in out["labels"]][:40], "taxa": [n for n, _ in out["taxa"]][:40]}


def summarize_model(ms):
    o = ms["out"]
    if "exc" in o:
        return o
    return {"labels": [n for n, _ in o["labels"]][:40], "taxa": o["taxa"][:40], "hash_i": ms["hash_i"], "tables": ms["tables"]}


# ---------------------------------------------------------------- (2) sub-collections vs whole

def collect_dir(root):
    from paroxython.make_db import TagDatabase
    try:
        with c11.deadline(c11.DEADLINE):
            db = c11.quiet(TagDatabase, root, ignore_timestamps=True)
    except c11.Watchdog:
        return {"exc": "Timeout"}
    except RecursionError:
        return {"exc": "RecursionError"}
    except Exception as e:  # noqa
        return {"exc": type(e).__name__}
    return json.loads(db.get_json())


def stream_collections(ctx, drv, n):
    base = ctx.scratch_dir()
    good = [t for t in TEXTS if t.strip() and "\x00" not in t and t not in ("def (:\n", "if x:\n        y = 1\n    z = 2\n")]
    names = ["a", "b", "c", "d", "e", "f"]
    fixed = [
        # collected files named like dotted modules: `import os.path` names os/path.py, which is NOT collected
        ({"os.path.py": "x = 1\n", "u.py": "import os.path\nprint(os.path.sep)\n", "v.py": "import u\n"},
         [["u.py"], ["u.py", "v.py"], ["os.path.py", "u.py"]]),
        ({"xml.dom.py": "y = 2\n", "a.b/c.py": "z = 3\n", "w.py": "import xml.dom\nimport a.b.c\nfrom a.b import c\nw = 0\n"},
         [["w.py"], ["w.py", "xml.dom.py"], ["w.py", "a.b/c.py"]]),
        ({"p.q.py": "", "pkg/m.n.py": "k = 1\n", "t.py": "import p.q\nimport pkg.m.n\nfrom p import q\nt = 1\n", "pkg/s.py": "import t\n"},
         [["t.py"], ["t.py", "pkg/s.py"], ["t.py", "p.q.py"]]),
        # a collected file whose path is only a CASE VARIANT of an imported module: `import queue` does not name Queue.py
        # (seed C03-m: paths compared case-folded)
        ({"Queue.py": "q = []\n", "client.py": "import queue\nimport json\nx = queue.Queue()\n", "JSON.py": "j = 1\n"},
         [["client.py"], ["client.py", "Queue.py"], ["client.py", "JSON.py"]]),
        ({"pkg/Helper.py": "h = 1\n", "main.py": "from pkg.helper import h\nimport pkg.helper\nprint(h)\n"},
         [["main.py"]]),
    ]
    base_code = "acc = 0\nfor i in range(5):\n    acc = acc + i\nprint(acc)\n"
    hinted_code = ("acc = 0 # paroxython: extra_label\nfor i in range(5):\n    acc = acc + i # paroxython: -addition_operator\n"
                   "print(acc)\n")
    fixed += [
        # identical code after cleaning; the hint-free copy sorts (and is tagged) first
        ({"a.py": base_code, "b.py": hinted_code, "c.py": "import a\n"}, [["b.py"], ["b.py", "c.py"], ["a.py", "b.py"]]),
        ({"a.py": "x = 1\n", "m.py": "# a comment\nx = 1 # paroxython: my_hint\n", "z.py": "x = 1  # paroxython: -assignment\n"},
         [["m.py"], ["z.py"], ["m.py", "z.py"]]),
        # the hinted copy first
        ({"a.py": hinted_code, "b.py": base_code}, [["b.py"], ["a.py"]]),
    ]
    try:
        from . import c02
        for _ in range(2 if ctx.tier == "quick" else 12):
            tw = c02.gen_twins(ctx.rng, "full")
            if tw:
                names_tw = sorted(tw)
                fixed.append((tw, [[names_tw[-1]], [names_tw[0]], names_tw[1:]]))
    except Exception as e:  # noqa
        ctx.notes.append(f"c02.gen_twins not usable for the C03 collections: {type(e).__name__}: {e}")
    fixed.append(({"a.py": "x = 1\n", "big.py": "x = 0x" + "f" * 6000 + "\n", "c.py": "import a\ny = 2\n",
                   "chain.py": "if a == 0:\n    pass\n" + "".join(f"elif a == {i}:\n    pass\n" for i in range(1, 1500))},
                  [["a.py", "c.py"], ["big.py"], ["chain.py", "a.py"]]))
    fixed.append(({"a.py": TEXTS[23], "b.py": "import a\n" + TEXTS[24], "c.py": "import b\nx = 1\n"},
                  [["a.py"], ["a.py", "b.py"], ["b.py", "c.py"]]))
    for ci in range(n + len(fixed)):
        k = ctx.rng.randrange(3, 6)
        files = {}
        fixed_subsets = None
        if ci < len(fixed):
            files, fixed_subsets = dict(fixed[ci][0]), fixed[ci][1]
            k = 0
        for i in range(k):
            body = ctx.rng.choice(good + ["", "x = = 1\n"])
            imports = "".join(f"import {names[j]}\n" for j in range(k) if j != i and ctx.rng.random() < 0.3)
            if ctx.rng.random() < 0.2:
                imports += f"import {names[i]}\n"
            files[f"{names[i]}.py"] = imports + body
        if fixed_subsets is None and ctx.rng.random() < 0.3:
            # a hinted copy of one of the programs (same code after cleaning), sorted after it
            src = ctx.rng.choice([p for p in files])
            lines = files[src].split("\n")
            cands = [j for j, l in enumerate(lines) if l.strip() and not l.rstrip().endswith((":", ",", "(", "\\")) and "#" not in l
                     and "'" not in l and '"' not in l]
            if cands:
                j = ctx.rng.choice(cands)
                lines[j] = lines[j] + " # paroxython: extra_hint_label"
                files["zz_" + src] = "\n".join(lines)
                ctx.dist("subcollection.hinted_copy")
        if fixed_subsets is None and ctx.rng.random() < 0.4:
            # a collected file (or directory) whose name looks like a dotted module, imported by name elsewhere
            mod = ctx.rng.choice(["os.path", "xml.dom", "collections.abc", "a.b", "zz.yy.xx", "queue", "json", "mymod"])
            if "." not in mod:  # a case variant of the module's file name: not the module (which is not collected)
                nm = ctx.rng.choice([mod.capitalize(), mod.upper()]) + ".py"
                ctx.dist("subcollection.case_variant_file")
            else:
              nm = ctx.rng.choice([f"{mod}.py", mod.replace(".", "/", 1) + ".py" if mod.count(".") > 1 else f"{mod}.py",
                                 mod.rsplit(".", 1)[0] + "/" + mod.rsplit(".", 1)[1] + ".py" if mod.count(".") > 1 else f"{mod}.py"])
            files[nm] = ctx.rng.choice(["x = 1\n", "", "def f():\n    return 0\n"])
            importer = ctx.rng.choice([p for p in files if p != nm])
            files[importer] = f"import {mod}\n" + files[importer]
            ctx.dist("subcollection.dotted_module_like_file")
        root = base / f"c{ci}" / "whole"
        c11.write_dir(root, files)
        whole = collect_dir(root)
        if "exc" in whole:
            ctx.violations.append({"what": f"collect aborted with {whole['exc']}",
                                   "replay": {"kind": "collection", "files": files, "impl": whole, "model": None, "spec": "a database"}})
            continue
        for sj in range(len(fixed_subsets) if fixed_subsets else 2):
            subset = fixed_subsets[sj] if fixed_subsets else ([p for p in files if ctx.rng.random() < 0.6] or [next(iter(files))])
            sub_files = {p: files[p] for p in subset}
            sroot = base / f"c{ci}" / f"sub{sj}"
            c11.write_dir(sroot, sub_files)
            sub = collect_dir(sroot)
            if "exc" in sub:
                ctx.violations.append({"what": f"collect aborted with {sub['exc']}", "replay": {
                    "kind": "collection", "files": sub_files, "impl": sub, "model": None, "spec": "a database"}})
                continue
            internal_w = set(files) | {".py"}
            internal_s = set(sub_files) | {".py"}
            for p in subset:
                # hypothesis of C03_collection, on the raw labels (un-relabelled = those of the smaller collection,
                # where fewer imports are internal; relabelled ones have no `import:` form any more)
                raw = [n.replace("_internally:", ":", 1).replace("/", ".") if n.startswith(("import_internally:", "import_module_internally:")) else n
                       for n in sub["programs"][p]["labels"]]
                found = drv.call("c11.relabel", paths=[], names=raw)["search"]
                same = all(m is None or ((m.replace(".", "/") + ".py" in internal_w) == (m.replace(".", "/") + ".py" in internal_s))
                           for m in found)
                ctx.count("sub-collections", (json.dumps(files, sort_keys=True), tuple(subset), p), nontrivial=len(subset) < len(files))
                ctx.dist("subcollection.hypothesis_holds" if same else "subcollection.imports_removed_file")
                if same and whole["programs"][p] != sub["programs"][p]:
                    ctx.violations.append({
                        "what": f"record of {p} differs between the directory and a sub-collection that contains the same imported modules",
                        "replay": {"kind": "sub-collection", "files": files, "subset": subset, "program": p,
                                   "impl": {"whole": whole["programs"][p], "sub": sub["programs"][p]},
                                   "model": "C03_collection: equal records", "spec": "equal records",
                                   "at": c11.first_diff(whole["programs"][p], sub["programs"][p])}})
                elif not same:
                    # sanity: only import-related labels/taxa may differ
                    pass
        import shutil
        shutil.rmtree(base / f"c{ci}", ignore_errors=True)


# ---------------------------------------------------------------- (3) two processes, two hash seeds

SUBPROCESS = r"""
import sys, io, contextlib
from pathlib import Path
import paroxython
assert paroxython.__file__.startswith(sys.argv[3]), paroxython.__file__
from paroxython.make_db import TagDatabase
with contextlib.redirect_stdout(io.StringIO()):
    db = TagDatabase(Path(sys.argv[1]), ignore_timestamps=True)
    db.write_json(Path(sys.argv[2]))
    if len(sys.argv) > 4:
        db.write_sqlite(Path(sys.argv[4]))
"""


def stream_hashseeds(ctx, n_dirs, n_seeds):
    base = ctx.scratch_dir()
    repo = str(core.REPO)
    for di in range(n_dirs):
        files = c11.gen_files(ctx.rng)
        for p in list(files):
            if files[p].strip() == "def (:":
                files[p] = "x = = 1\n"
        if di == 0:
            files = {"a.py": "import b, c, d\nx = {1, 2, 3}\n", "b.py": "import c\nimport d\ns = {'k', 'l'}\n",
                     "c.py": "import a\nimport d\n", "d.py": "import b\nfrozenset([1])\n", "e.py": "import a\nimport b\nimport c\nimport d\n"}
        root = base / f"h{di}" / "progs"
        c11.write_dir(root, files)
        seeds = [0, 1] + [ctx.rng.randrange(2, 2 ** 31) for _ in range(n_seeds - 2)]
        procs = []
        for s in seeds:
            out = base / f"h{di}" / f"out{s}.json"
            env = dict(os.environ, PYTHONPATH=repo, PYTHONHASHSEED=str(s), PAROXYTHON_VERIF="1")
            procs.append((s, out, subprocess.Popen([sys.executable, "-c", SUBPROCESS, str(root), str(out), repo],
                                                   env=env, cwd=str(base), stdout=subprocess.PIPE, stderr=subprocess.PIPE)))
        blobs = {}
        for s, out, p in procs:
            _, err = p.communicate(timeout=300)
            if p.returncode != 0:
                msg = err.decode(errors="replace")[-300:]
                if "AssertionError" in msg:
                    raise core.MachineryError("subprocess imported another paroxython: " + msg)
                blobs[s] = ("exc", msg.strip().splitlines()[-1] if msg.strip() else "?")
            else:
                blobs[s] = ("ok", out.read_bytes())
        # a second collect run writing onto the SAME existing files (json and sqlite): same bytes, same rows
        s0, out0, _ = procs[0]
        if blobs[s0][0] == "ok":
            sq = base / f"h{di}" / "same.sqlite"
            env = dict(os.environ, PYTHONPATH=repo, PYTHONHASHSEED=str(seeds[1]), PAROXYTHON_VERIF="1")
            runs = []
            for _run in range(2):
                r = subprocess.run([sys.executable, "-c", SUBPROCESS, str(root), str(out0), repo, str(sq)], env=env,
                                   cwd=str(base), stdout=subprocess.PIPE, stderr=subprocess.PIPE, timeout=300)
                runs.append((r.returncode, out0.read_bytes() if out0.exists() else b"",
                             c11.read_sqlite(sq) if r.returncode == 0 and sq.exists() else None))
            ctx.count("same-output-files", json.dumps(files, sort_keys=True), nontrivial=True, n=2)
            (c1, j1, q1), (c2, j2, q2) = runs
            if c1 != 0 or c2 != 0 or j1 != blobs[s0][1] or j2 != j1 or q1 != q2:
                what = ("a collect run onto existing output files fails" if (c1 or c2) else
                        "JSON bytes differ when collect writes onto an existing file" if (j1 != blobs[s0][1] or j2 != j1) else
                        "two collect runs onto the same .sqlite file do not leave the same rows")
                ctx.violations.append({
                    "what": what,
                    "replay": {"kind": "same-output-files", "files": files,
                               "impl": {"exit": [c1, c2], "json_same": j1 == j2 == blobs[s0][1],
                                        "sqlite_rows_run1": None if q1 is None else {k: len(v) for k, v in q1.items()},
                                        "sqlite_rows_run2": None if q2 is None else {k: len(v) for k, v in q2.items()}},
                               "model": "makeDb is a function of the directory: same facts", "spec": "byte-identical / same facts",
                               "how": "TagDatabase(D, ignore_timestamps=True); write_json(out); write_sqlite(db) — twice, "
                                      "in two processes, onto the same two files"}})
        ctx.count("hash-seeds", json.dumps(files, sort_keys=True), nontrivial=True, n=len(seeds))
        ref = blobs[seeds[0]]
        for s in seeds[1:]:
            if blobs[s] != ref:
                a = ref[1] if ref[0] == "exc" else ref[1].decode(errors="replace")
                b = blobs[s][1] if blobs[s][0] == "exc" else blobs[s][1].decode(errors="replace")
                i = next((i for i, (x, y) in enumerate(zip(a, b)) if x != y), min(len(a), len(b)))
                ctx.violations.append({
                    "what": "two collect runs of the same directory write different bytes (PYTHONHASHSEED differs)",
                    "replay": {"kind": "hash-seeds", "files": files, "seeds": [seeds[0], s],
                               "impl": {"first_difference_at": i, "a": a[max(0, i - 60):i + 60], "b": b[max(0, i - 60):i + 60]},
                               "model": "lists only: no dependence on set iteration order", "spec": "byte-identical",
                               "how": "PYTHONHASHSEED=<seed> python -c 'TagDatabase(D, ignore_timestamps=True).write_json(out)' twice"}})
                break


# ---------------------------------------------------------------- (4) several collections in ONE process

SUBPROCESS_COLLECT = r"""
import sys, io, contextlib
from pathlib import Path
import paroxython
assert paroxython.__file__.startswith(sys.argv[3]), paroxython.__file__
from paroxython.make_db import TagDatabase
with contextlib.redirect_stdout(io.StringIO()):
    db = TagDatabase(Path(sys.argv[1]), ignore_timestamps=True, glob_pattern=sys.argv[4])
Path(sys.argv[2]).write_text(db.get_json())
"""


def collect_glob(root, glob_pattern):
    from paroxython.make_db import TagDatabase
    try:
        with c11.deadline(c11.DEADLINE):
            db = c11.quiet(TagDatabase, root, ignore_timestamps=True, glob_pattern=glob_pattern)
    except c11.Watchdog:
        return {"exc": "Timeout"}
    except RecursionError:
        return {"exc": "RecursionError"}
    except Exception as e:  # noqa
        return {"exc": type(e).__name__}
    return json.loads(db.get_json())


def stream_collection_sequences(ctx, n_random):
    """Several collections made one after the other in THIS process (directory A then directory B, B importing a
    module name that only A contains; a full collection then a glob sub-collection; both orders): each must be the
    database the same collection gives in a fresh process."""
    base = ctx.scratch_dir()
    repo = str(core.REPO)
    helper = "def h():\n    return 1\n"
    scenarios = [
        # (directories, steps): a step = (directory index, glob pattern)
        ([{"helper.py": helper, "main.py": "import helper\nprint(helper.h())\n"},
          {"client.py": "import helper\nx = 1\n", "other.py": "from utils import f\ny = 2\n"}], [(0, ""), (1, "")]),
        ([{"client.py": "import helper\nx = 1\n"},
          {"helper.py": helper, "main.py": "import helper\n"}], [(0, ""), (1, ""), (0, "")]),
        ([{"helper.py": helper, "pkg/tools.py": "t = 0\n", "client.py": "import helper\nimport pkg.tools\nx = 1\n",
           "zeta.py": "import client\n"}], [(0, ""), (0, "c*.py"), (0, "z*.py"), (0, "")]),
        ([{"a.py": "import b\n", "b.py": "import a\n"}, {"c.py": "import a\nimport b\n"}, {"a.py": "x = 1\n", "d.py": "import b\n"}],
         [(0, ""), (1, ""), (2, ""), (1, "")]),
    ]
    scenarios += [
        # process-global-state probes: the first program makes flatten_ast fail half-way, the second holds a decimal literal
        # that only an untouched interpreter rejects; then each one alone (glob) in the same process
        ([{"a_deep.py": TEXTS[P_DEEP], "b_dec.py": TEXTS[P_DEC], "c.py": "x = 1\n"}], [(0, ""), (0, "b*.py"), (0, "c*.py")]),
        ([{"h.py": TEXTS[P_HEX], "k.py": TEXTS[P_BIN]}, {"d.py": TEXTS[P_DEC], "e.py": "import d\n"}], [(0, ""), (1, ""), (0, "")]),
    ]
    snap0 = snapshot_globals()
    for _ in range(n_random):
        mods = ctx.rng.sample(["helper", "utils", "core", "shapes", "vectors"], 3)
        da = {f"{m}.py": f"{m}_value = 1\n" for m in mods[:2]}
        da["main.py"] = "".join(f"import {m}\n" for m in mods[:2]) + "print(1)\n"
        db_ = {"client.py": "".join(f"import {m}\n" for m in ctx.rng.sample(mods, 2)) + "x = 1\n", f"{mods[2]}.py": "z = 3\n"}
        steps = [(0, ""), (1, "")] if ctx.rng.random() < 0.5 else [(1, ""), (0, ""), (1, "")]
        if ctx.rng.random() < 0.4:
            steps.append((0, "m*.py"))
        scenarios.append(([da, db_], steps))
    for si, (dirs, steps) in enumerate(scenarios):
        roots = []
        for di, files in enumerate(dirs):
            root = base / f"q{si}" / f"dir{di}"
            c11.write_dir(root, files)
            roots.append(root)
        # references: every step in its own fresh process (started first, they run while we work in-process)
        procs = []
        for k, (di, pat) in enumerate(steps):
            out = base / f"q{si}" / f"fresh{k}.json"
            env = dict(os.environ, PYTHONPATH=repo, PAROXYTHON_VERIF="1")
            procs.append((out, subprocess.Popen([sys.executable, "-c", SUBPROCESS_COLLECT, str(roots[di]), str(out), repo, pat],
                                                env=env, cwd=str(base), stdout=subprocess.PIPE, stderr=subprocess.PIPE)))
        here = [collect_glob(roots[di], pat) for (di, pat) in steps]
        for k, ((di, pat), (out, p)) in enumerate(zip(steps, procs)):
            _, err = p.communicate(timeout=300)
            if p.returncode != 0:
                msg = err.decode(errors="replace")[-300:]
                if "AssertionError" in msg:
                    raise core.MachineryError("subprocess imported another paroxython: " + msg)
                fresh = {"exc": msg.strip().splitlines()[-1] if msg.strip() else "?"}
            else:
                fresh = json.loads(out.read_text())
            ctx.count("collections-in-one-process", (json.dumps(dirs, sort_keys=True), tuple(steps), k), nontrivial=k > 0)
            if here[k] != fresh:
                d = c11.first_diff(here[k], fresh) if "exc" not in here[k] and "exc" not in fresh else "exception"
                ctx.violations.append({
                    "what": f"a collection made after other collections in the same process differs from the same collection "
                            f"made in a fresh process ({d})",
                    "replay": {"kind": "collections-in-one-process", "directories": dirs,
                               "steps": [{"directory": a, "glob": b or "**/*.py"} for a, b in steps], "differing_step": k,
                               "impl": {"in_process": slim(here[k]), "fresh_process": slim(fresh)},
                               "model": "makeDb / collectProc are functions of the directory alone", "spec": "equal databases",
                               "at": d,
                               "how": "TagDatabase(dir, ignore_timestamps=True, glob_pattern=glob) for each step, in order, "
                                      "in ONE python process; compare get_json() of the differing step with a fresh process"}})
                break
        leaked_globals(ctx, snap0, "collections", [sorted(d_) for d_ in dirs])


def slim(js):
    if "exc" in js:
        return js
    return {"importations": js.get("importations"),
            "import_labels": {p: sorted(n for n in r["labels"] if n.startswith("import")) for p, r in js["programs"].items()}}


def run(ctx):
    import warnings
    warnings.simplefilter("ignore")
    core.prove(ctx)
    core.import_repo()
    import paroxython.flatten_ast as fa
    fa.pseudo_hash = RecHash()
    fa.pseudo_hash.args = []
    drv = core.Driver()
    quick = ctx.tier == "quick"
    ctx.cov["rule"] = (
        "sequences: distinct non-empty history followed by a program (prefix of a generated sequence, position > 0); "
        "sub-collections: distinct (directory, proper subset, program); hash-seeds: distinct directory × seed"
    )
    try:
        stream_sequences(ctx, drv, 14 if quick else 200)
        stream_cache_pressure(ctx, 1 if quick else 4)
        snap_run = snapshot_globals()
        stream_collections(ctx, drv, 6 if quick else 80)
        leaked_globals(ctx, snap_run, "sub-collections", "stream")
        stream_hashseeds(ctx, 3 if quick else 16, 3 if quick else 6)
        stream_collection_sequences(ctx, 2 if quick else 25)
    finally:
        drv.close()
    ctx.cov["proved"] = [t for t, ax in ctx.cov.get("theorems", {}).items() if ax != "DOES-NOT-CHECK"]
    ctx.cov["exercised_only"] = [
        "the SQLite engine (answers of the queries are oracle values recorded from a fresh instance)",
        "interpreter hash randomisation / set iteration order: two collect runs in two subprocesses with different "
        "PYTHONHASHSEED must write byte-identical JSON (ignore_timestamps=True)",
        "that the regex features do not depend on the absolute hash values beyond what `pseudo_hash` from a reset counter gives "
        "(outputs in sequence are compared with a fresh instance's)",
    ]
    ctx.cov["trusted_base"] = core.BASE_TRUST + [
        "the engines (regex features, SQL queries, compiled taxonomy rows, deduplication) are oracle parameters of the model; "
        "the harness instantiates them with answers recorded from fresh instances on the same texts",
        "observation points: flatten_ast.pseudo_hash (replaced by a recording subclass instance), "
        "sqlite_master of the parser's connection, Taxonomy.literal_labels",
    ]
    ctx.assumptions += [
        "each call gets a fresh Program object (get_program): hints scheduled for deletion are consumed by a call; "
        "the text of a program includes its hint comments (two texts with the same code and different hints are two programs)",
        "SQL queries do not raise between create and delete (then the boundary invariant would be lost: C03_leak_breaks)",
    ]
    if (not ctx.proofs_ok or ctx.broken) and not any(v.get("signature") is None for v in ctx.violations):
        ctx.violations.append({
            "no_input": True, "what": "a proof or a correspondence stream no longer checks",
            "replay": {"kind": "no-failing-input-found", "no_longer_checks": ctx.broken,
                       "build_errors": ctx.cov.get("build_errors"), "notes": ctx.notes[:5], "searched": ctx.cov["streams"]}})
    return core.finish(ctx)


def replay(ctx, path):
    core.import_repo()
    import paroxython.flatten_ast as fa
    fa.pseudo_hash = RecHash()
    fa.pseudo_hash.args = []
    obj = json.loads(Path(path).read_text(encoding="utf-8"))
    if obj.get("kind") == "sequence":
        proc = Proc()
        outs = [proc.tag(t)[1] for t in obj["texts"]]
        fresh = Proc().tag(obj["texts"][-1])[1]
        print(json.dumps({"impl_in_sequence": summarize(outs[-1]), "fresh": summarize(fresh),
                          "same": outs[-1] == fresh}, indent=1, ensure_ascii=False))
        return 0 if outs[-1] == fresh else 1
    print(json.dumps(obj, indent=1, ensure_ascii=False)[:4000])
    return 0
