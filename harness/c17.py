"""C17 — the recommendation report shows exactly the filter's result.

The real Markdown is parsed back into the structure the Lean model produces (buckets, sections,
rows, summary) and compared with it; `-o stdout` is compared as the set the CLI prints (`sorted(selected - hidden)`, computed here from the recommender; the print itself is exercised by c18.py).
"""
import contextlib
import copy
import io
import json
import re
from fractions import Fraction

from . import core, filt
from .c04 import TRUST, finish_tie


def frac_of_text(x):
    f = Fraction(float(x))
    return f"{f.numerator}/{f.denominator}"


def parse_spans(s):
    s = s.strip()
    if s == "_imported_":
        return []
    if s == "":
        return [[-1, -1]]  # neither spans nor `_imported_`: never equal to a structured row (the property words both forms)
    s = re.sub(r"</?(details|summary)>", " ", s).replace("<br>", " ")
    out = []
    for part in s.replace(",", " ").split():
        if "-" in part:
            a, b = part.split("-")
            out.append([int(a), int(b)])
        else:
            out.append([int(part), int(part)])
    return out


def parse_markdown(md):
    body, summary = [], []
    cur_bucket, cur_sec = None, None
    initially = None
    in_code = False
    for line in md.split("\n"):
        if line.startswith("```"):
            in_code = not in_code
            continue
        if in_code:
            continue
        m = re.match(r"## (\d+) programs? of learning cost (.*)$", line)
        if m:
            cur_bucket = {"label": m.group(2), "count": int(m.group(1)), "sections": []}
            body.append(cur_bucket)
            continue
        m = re.match(r"### Program (.*) \(learning cost ([^)]*)\)$", line)
        if m:
            cur_sec = {"path": m.group(1), "cost": frac_of_text(m.group(2)), "rows": []}
            cur_bucket["sections"].append(cur_sec)
            continue
        m = re.match(r"\| (\S+) \| `([^`]*)` \| (.*) \|$", line)
        if m and cur_sec is not None:
            cur_sec["rows"].append([m.group(2), frac_of_text(m.group(1)), parse_spans(m.group(3))])
            continue
        m = re.match(r"\s*<summary>(-?\d+) initially\.</summary>", line)
        if m:
            initially = int(m.group(1))
            continue
        m = re.match(r"\s*<summary>(-?\d+) remaining after operation (\d+) \((\w+)\) has filtered out (\d+) programs?\.</summary>", line)
        if m:
            summary.append([int(m.group(1)), int(m.group(2)), m.group(3), int(m.group(4))])
    return {"body": body, "summary": summary, "initially": initially}


def run_real(db, runs, strategy, sorting, grouping, width, earlier=()):
    from paroxython.recommend_programs import Recommendations

    d = copy.deepcopy(db)
    with contextlib.redirect_stdout(io.StringIO()), contextlib.redirect_stderr(io.StringIO()):
        try:
            rec = Recommendations(d, assessment_strategy=strategy, title_format="{path}")
            for cmds in runs:
                rec.run_pipeline(filt.to_py_cmds(cmds))
            for (sorting_0, grouping_0) in earlier:  # a report is a function of the filter's result, not of earlier renderings
                rec.get_markdown(span_column_width=width, sorting_strategy=sorting_0, grouping_strategy=grouping_0)
            md = rec.get_markdown(span_column_width=width, sorting_strategy=sorting, grouping_strategy=grouping)
        except Exception as exc:  # noqa
            return {"exc": type(exc).__name__}, None
    out = parse_markdown(md)
    out["stdout"] = sorted(rec.selected_programs - rec.hidden_programs)
    return out, md


def model_request(db, runs, strategy, sorting, grouping):
    flat = [c for r in runs for c in r]
    return {"op": "rep.run", "db": filt.db_to_driver(db), "oracle": filt.oracle_for(db, flat), "runs": runs,
            "strategy": strategy, "sorting": sorting, "grouping": grouping,
            "sloc": [[p, len(info["source"].split("\n"))] for p, info in db["programs"].items()]}


def self_consistency(rep):
    """The property's own clauses, evaluated on the implementation's report."""
    problems = []
    seen = []
    for b in rep["body"]:
        if b["count"] != len(b["sections"]):
            problems.append(f"bucket {b['label']} announces {b['count']} programs, lists {len(b['sections'])}")
        for s in b["sections"]:
            seen.append(s["path"])
    if sorted(seen) != rep["stdout"]:
        problems.append("listed programs differ from selected − hidden")
    return problems


def run(ctx):
    core.prove(ctx)
    core.import_repo()
    drv = core.Driver()
    rng = ctx.rng
    n_dis = 0
    try:
        n = 400 if ctx.tier == "quick" else 60000
        for i in range(n):
            db = filt.gen_db(rng, max_programs=7)
            for p, info in db["programs"].items():   # vary sloc
                info["source"] = "\n".join("x" for _ in range(rng.randint(1, 9)))
            runs = [[filt.gen_command(rng, db, odd=(i % 7 == 0), bad_ok=False) for _ in range(rng.randint(0, 4))]
                    for _ in range(rng.choice([1, 1, 1, 2, 3]))]
            strategy = rng.choice(["zeno", "linear"])
            sorting = rng.choice(["by_cost_and_sloc", "lexicographic"])
            grouping = rng.choice(["by_cost_bucket", "by_cost_bucket", "none"])
            width = rng.choice([30, 10 ** 6])
            # one object rendered several times (seeded change C17-j: a rendering re-ordered the assessed programs in place)
            earlier = [[rng.choice(["by_cost_and_sloc", "lexicographic"]), rng.choice(["by_cost_bucket", "none"])]
                       for _ in range(rng.choice([0, 0, 1, 1, 2]))]
            impl, md = run_real(db, runs, strategy, sorting, grouping, width, earlier)
            model = drv.call(**model_request(db, runs, strategy, sorting, grouping))
            ctx.dist(f"earlier_renderings={len(earlier)}")
            if "exc" in model:
                model = {"exc": model["exc"]}
            nt = "exc" not in impl and len(impl["body"]) >= 1 and (len(impl["stdout"]) < len(db["programs"]) or any(r for r in runs))
            ctx.count("reports", repr((sorted(db["programs"]), runs, strategy, sorting, grouping)), nontrivial=nt)
            ctx.dist(f"runs={len(runs)}")
            ctx.dist(f"sorting={sorting}")
            ctx.dist(f"grouping={grouping}")
            if "exc" not in impl:
                ctx.dist("buckets=%d" % len(impl["body"]))
                for pb in self_consistency(impl):
                    ctx.violations.append({"what": pb, "replay": {"kind": "report", "db": db, "runs": runs, "strategy": strategy,
                                                                  "sorting": sorting, "grouping": grouping, "earlier": earlier, "width": width, "impl": impl}})
            if impl != model:
                n_dis += 1
                if n_dis <= 3:
                    ctx.violations.append({
                        "what": "the report differs from the filter's result (structured comparison)",
                        "replay": {"kind": "report", "db": db, "runs": runs, "strategy": strategy, "sorting": sorting,
                                   "grouping": grouping, "width": width, "earlier": earlier, "impl": impl, "model(=spec)": model},
                    })
            if len(ctx.cov["samples"]) < 2 and nt and len(db["programs"]) <= 3:
                ctx.sample({"runs": runs, "strategy": strategy, "impl_report": impl})
        # cost_bucket on a grid of dyadic rationals
        from paroxython.goodies import cost_bucket

        for num in range(0, 4097):
            for den in (1, 8, 64):
                c = Fraction(num, den)
                real = cost_bucket(float(c))
                m = drv.call("rep.bucket", num=c.numerator, den=c.denominator)
                ctx.count("cost_bucket grid", (num, den), nontrivial=True)
                if real != m:
                    ctx.violations.append({"what": f"cost_bucket({float(c)}) = {real!r}, an interval that is not the documented one ({m!r})",
                                           "replay": {"kind": "bucket", "cost": str(c), "impl": real, "model": m}})
                    break
        ctx.cov["disagreements_checked"] = n_dis
    finally:
        drv.close()
    ctx.cov["rule"] = (
        "random well-formed databases (varying sloc) × 1-3 run_pipeline calls of 0-4 commands on ONE Recommendations × both cost strategies × both "
        "sorting strategies × grouping on/off × span column width 30 / unbounded, after 0-2 earlier renderings of the same object under other options; the Markdown is parsed back (bucket headings and counts, program "
        "sections in order with path and cost, table rows with taxon, cost, spans/_imported_, summary lines) and compared with the Lean structured "
        "report; plus cost_bucket on a grid of 12k dyadic rationals. Non-trivial = at least one section and some command or hidden program."
    )
    ctx.cov["trusted_base"] = TRUST + [
        "the Markdown parser of this harness (slugs, gutter and wrapping are outside the model)",
        "math.log2 in cost_bucket is compared on a grid only; float corner cases near 2^k for k ≥ 12 are outside the envelope",
    ]
    ctx.cov["proved"] = ["C17_membership", "C17_bucket", "C17_bucket_contains", "C17_order", "C17_rows", "C17_total", "C17_summary",
                         "C17_summary_fresh", "C17_stdout", "C17_order_across", "C17_order_across_assess"]
    ctx.cov["exercised_only"] = ["rendering: slugs, line-number gutter, wrapping of long span lists"]
    finish_tie(ctx)
    return core.finish(ctx)


def replay(ctx, path):
    core.import_repo()
    obj = json.load(open(path, encoding="utf-8"))
    if obj.get("kind") != "report":
        print(obj)
        return 0
    drv = core.Driver()
    impl, md = run_real(obj["db"], obj["runs"], obj["strategy"], obj["sorting"], obj["grouping"], obj.get("width", 10 ** 6),
                        obj.get("earlier", ()))
    model = drv.call(**model_request(obj["db"], obj["runs"], obj["strategy"], obj["sorting"], obj["grouping"]))
    print("impl :", json.dumps(impl, ensure_ascii=False))
    print("model:", json.dumps(model, ensure_ascii=False))
    drv.close()
    return 0 if impl == model else 1
