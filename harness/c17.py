"""C17 — the recommendation report shows exactly the filter's result.

The real Markdown is parsed back into the structure the Lean model produces (buckets, sections,
rows, summary) and compared with it; `-o stdout` is compared as the set the CLI prints (`sorted(selected - hidden)`, computed here from the recommender; the print itself is exercised by c18.py).
"""
import contextlib
import copy
import io
import json
import re
from fractions import Fraction

from . import core, filt
from .c04 import TRUST, finish_tie


def frac_of_text(x):
    f = Fraction(float(x))
    return f"{f.numerator}/{f.denominator}"


def parse_spans(s):
    s = s.strip()
    if s == "_imported_":
        return []
    if s == "":
        return [[-1, -1]]  # neither spans nor `_imported_`: never equal to a structured row (the property words both forms)
    s = re.sub(r"</?(details|summary)>", " ", s).replace("<br>", " ")
    out = []
    for part in s.replace(",", " ").split():
        if "-" in part:
            a, b = part.split("-")
            out.append([int(a), int(b)])
        else:
            out.append([int(part), int(part)])
    return out


def parse_markdown(md, cells=None):
    body, summary = [], []
    cur_bucket, cur_sec = None, None
    initially = None
    in_code = False
    for line in md.split("\n"):
        if line.startswith("```"):
            in_code = not in_code
            continue
        if in_code:
            continue
        m = re.match(r"## (\d+) programs? of learning cost (.*)$", line)
        if m:
            cur_bucket = {"label": m.group(2), "count": int(m.group(1)), "sections": []}
            body.append(cur_bucket)
            continue
        m = re.match(r"### Program (.*) \(learning cost ([^)]*)\)$", line)
        if m:
            cur_sec = {"path": m.group(1), "cost": frac_of_text(m.group(2)), "rows": []}
            cur_bucket["sections"].append(cur_sec)
            continue
        m = re.match(r"\| (\S+) \| `([^`]*)` \| (.*) \|$", line)
        if m and cur_sec is not None:
            cur_sec["rows"].append([m.group(2), frac_of_text(m.group(1)), parse_spans(m.group(3))])
            if cells is not None:
                cells.append((cur_sec["path"], m.group(2), m.group(3)))
            continue
        m = re.match(r"\s*<summary>(-?\d+) initially\.</summary>", line)
        if m:
            initially = int(m.group(1))
            continue
        m = re.match(r"\s*<summary>(-?\d+) remaining after operation (\d+) \((\w+)\) has filtered out (\d+) programs?\.</summary>", line)
        if m:
            summary.append([int(m.group(1)), int(m.group(2)), m.group(3), int(m.group(4))])
    return {"body": body, "summary": summary, "initially": initially}


def run_real(db, runs, strategy, sorting, grouping, width, earlier=(), cells=None):
    from paroxython.recommend_programs import Recommendations

    d = copy.deepcopy(db)
    with contextlib.redirect_stdout(io.StringIO()), contextlib.redirect_stderr(io.StringIO()):
        try:
            rec = Recommendations(d, assessment_strategy=strategy, title_format="{path}")
            for cmds in runs:
                rec.run_pipeline(filt.to_py_cmds(cmds))
            for (sorting_0, grouping_0) in earlier:  # a report is a function of the filter's result, not of earlier renderings
                rec.get_markdown(span_column_width=width, sorting_strategy=sorting_0, grouping_strategy=grouping_0)
            md = rec.get_markdown(span_column_width=width, sorting_strategy=sorting, grouping_strategy=grouping)
        except Exception as exc:  # noqa
            return {"exc": type(exc).__name__}, None
    out = parse_markdown(md, cells)
    out["stdout"] = sorted(rec.selected_programs - rec.hidden_programs)
    return out, md


def model_request(db, runs, strategy, sorting, grouping):
    flat = [c for r in runs for c in r]
    return {"op": "rep.run", "db": filt.db_to_driver(db), "oracle": filt.oracle_for(db, flat), "runs": runs,
            "strategy": strategy, "sorting": sorting, "grouping": grouping,
            "sloc": [[p, len(info["source"].split("\n"))] for p, info in db["programs"].items()]}


def self_consistency(rep):
    """The property's own clauses, evaluated on the implementation's report."""
    problems = []
    seen = []
    for b in rep["body"]:
        if b["count"] != len(b["sections"]):
            problems.append(f"bucket {b['label']} announces {b['count']} programs, lists {len(b['sections'])}")
        for s in b["sections"]:
            seen.append(s["path"])
    if sorted(seen) != rep["stdout"]:
        problems.append("listed programs differ from selected − hidden")
    return problems


def real_cell(width, spans):
    from paroxython.goodies import couple_to_string, enumeration_to_txt_factory

    return enumeration_to_txt_factory(width, "_imported_")(", ".join(map(couple_to_string, spans)))


def gen_spans(rng):
    """0–40 spans, magnitudes 1–10^16 (so that chunks longer than the column occur)."""
    n = rng.choice([0, 1, 2, 3, 5, rng.randint(0, 40), rng.randint(0, 40)])

    def mag():
        return rng.randint(1, 10 ** rng.choice([1, 1, 2, 3, 4, 6, 9, 13, 16]))

    spans = []
    for _ in range(n):
        a = mag()
        spans.append([a, a if rng.random() < 0.4 else mag()])
    return spans


def check_cell(ctx, drv, width, spans, stream):
    """One (width, spans): the model's cell text against the real one, byte for byte; the spec's reading of
    the REAL cell against the spans; the real `textwrap.wrap` lines against the model's; and (exercised only)
    the unwrap statement when no chunk is longer than the first line."""
    import textwrap

    from paroxython.goodies import couple_to_string

    real = real_cell(width, spans)
    model = drv.call("c17.cell", width=width, spans=spans)
    read = drv.call("c17.parse", cell=real)
    s = ", ".join(map(couple_to_string, spans))
    wrapped = len(s) > width
    long_chunk = any(len(c) > width - 3 for c in s.split())
    ctx.count(stream, (width, tuple(map(tuple, spans))), nontrivial=wrapped)
    ctx.dist("cell:" + ("imported" if not spans else "one line" if not wrapped else "wrapped, chunk > line" if long_chunk else "wrapped"))
    replay = {"kind": "cell", "width": width, "spans": spans, "impl": real, "model": model, "spec(parse of impl)": read}
    if read != spans or (real == "_imported_") != (not spans):
        ctx.violations.append({"what": "the Location cell of a row does not read back as the spans of the row (or `_imported_` for a row with spans / spans for an imported taxon)",
                               "replay": replay, "signature": None})
        return False
    if real != model:
        ctx.broken.append("corr:" + stream)
        ctx.notes.append(f"cell text differs from the model (reads back correctly): {json.dumps(replay)[:400]}")
        return False
    if wrapped:
        lines = textwrap.wrap(s, width, initial_indent=" " * 3)
        mlines = drv.call("c17.lines", width=width, s=s)
        if lines != mlines:
            ctx.broken.append("corr:" + stream + " (textwrap.wrap lines)")
            ctx.notes.append(f"textwrap.wrap differs from the model: width={width} s={s!r} impl={lines} model={mlines}")
            return False
        if not long_chunk:
            ctx.count(stream + ": unwrap", None)
            if " ".join(lines)[3:] != s:   # C17_cell_unwrap (proved since round 13; the real textwrap is still compared here)
                ctx.broken.append("corr:" + stream + " (unwrap statement)")
                ctx.notes.append(f"lines joined by one space are not the enumeration: width={width} s={s!r} lines={lines}")
                return False
    return True


def cell_streams(ctx, drv, rng):
    # bounded-exhaustive: every width 1..40 on a fixed family (short, wrapped, numbers longer than the column, hyphen cuts)
    family = [[], [[7, 7]], [[1, 2]], [[12, 15], [12, 12]], [[i, i] for i in range(1, 25)], [[i, i + 3] for i in range(90, 130, 2)],
              [[10 ** 15, 10 ** 15 + 1]], [[5, 5], [123456789012345, 123456789012345], [6, 6]], [[123, 45678901]],
              [[10 ** k, 10 ** k] for k in range(0, 17)], [[99, 10 ** 16], [10 ** 16, 10 ** 16], [1, 1]]]
    for width in range(1, 41):
        for spans in family:
            check_cell(ctx, drv, width, spans, "cell (widths 1-40 × fixed family)")
    n = 3000 if ctx.tier == "quick" else 150000
    for _ in range(n):
        width = rng.choice([30, 30, 30, rng.randint(1, 40)])
        if not check_cell(ctx, drv, width, gen_spans(rng), "cell (random)") and len(ctx.violations) + len(ctx.broken) > 5:
            break


def check_report_cells(ctx, drv, cells, model):
    """The cells of a real report, read by the spec's `parseCell`, against the spans of the structured rows."""
    rows = {}
    for b in model.get("body", []):
        for sec in b["sections"]:
            for r in sec["rows"]:
                rows[(sec["path"], r[0])] = r[2]
    for (path, taxon, cell) in cells:
        if (path, taxon) not in rows:
            continue  # a structural difference, reported by the structured comparison
        want = rows[(path, taxon)]
        read = drv.call("c17.parse", cell=cell)
        ctx.count("cells of the real reports", (cell,), nontrivial=bool(want))
        if read != want or (cell == "_imported_") != (not want):
            if sum(1 for v in ctx.violations if v.get("replay", {}).get("kind") == "cell") < 3:
                ctx.violations.append({"what": f"the Location cell of `{taxon}` in program {path} does not read back as the spans of the row",
                                       "replay": {"kind": "cell", "spans": want, "impl": cell, "spec(parse of impl)": read}, "signature": None})


DEEP_TAXA = ["deep/" + "/".join("abcdefghijkl"[:k]) for k in (5, 6, 7, 8, 9, 10, 12)]


def near_ties(rng, db):
    """Rewrite the taxa of a generated database so that its programs have NEARLY equal costs: a common base plus one or
    two deep taxa (6-13 edges: under zeno the costs differ by 2^-7 ... 2^-13, far below a hundredth), with line counts
    drawn independently. Orders that compare rounded or truncated costs, or that let the SLOC tie-break speak too early,
    differ from the (cost, sloc) order only here (seed C17-l: sort key `(round(cost, 2), sloc)`)."""
    base = rng.sample([t for t in filt.TAXA_POOL if not t.startswith("meta")], rng.randint(0, 2))
    for p, info in db["programs"].items():
        taxa = {t: sp for t, sp in info["taxa"].items() if t == "meta/program"}
        for t in base + rng.sample(DEEP_TAXA, rng.choice([1, 1, 2])):
            taxa[t] = [[1, 1]]
        info["taxa"] = dict(sorted(taxa.items()))
    index = {}
    for p in sorted(db["programs"]):
        for t in db["programs"][p]["taxa"]:
            index.setdefault(t, []).append(p)
    db["taxa"] = dict(sorted(index.items()))
    return db


def real_body_lines(md):
    """The lines of the BODY of a real report (between `# Recommended programs` and the blank line before
    `# Summary`), the source listings removed: after a program title, the blank line, the opening fence and
    everything up to the closing fence (a numbered source line starts with its 4-character number, so it is
    never the bare fence). Returns None when the text does not have that shape."""
    lines = md.split("\n")
    if "# Recommended programs" not in lines or "# Summary" not in lines:
        return None
    i0 = lines.index("# Recommended programs")
    i1 = max(k for k, l in enumerate(lines) if l == "# Summary")
    if i1 - 1 <= i0 or lines[i1 - 1] != "":
        return None
    body = lines[i0 + 1:i1 - 1]
    out, k = [], 0
    while k < len(body):
        out.append(body[k])
        if body[k].startswith("### Program ") and body[k + 1:k + 3] == ["", "```python"]:
            k += 3
            while k < len(body) and body[k] != "```":
                k += 1
            if k == len(body):
                return None
        k += 1
    return out


def check_body_text(ctx, drv, md, model, impl, strategy, width, base):
    """The TEXT of the body (round 10, B5): the model's lines (ReportText.renderBody, Lean) against the real lines,
    LINE BY LINE; the real lines read by the proved strict reader (ReportText.parseBodyStrict, Lean) against the structured
    report of the model (= the filter's result) and against what the Python Markdown parser of this harness read;
    the hygiene hypotheses of C17_text_roundtrip (okBody, costsOK) evaluated by Lean on the structured report."""
    stream = "body text (line by line + parseBody of the real lines)"
    real = real_body_lines(md)
    mt = drv.call("c17.body_text", body=model["body"], width=width, strategy=strategy)
    n_rows = sum(len(sec["rows"]) for b in model["body"] for sec in b["sections"])
    ctx.count(stream, (tuple(real or ()),), nontrivial=len(model["body"]) >= 1 and n_rows >= 1)
    ctx.dist("body text: %s" % ("empty" if not model["body"] else "1 heading" if len(model["body"]) == 1 else "2+ headings"))
    replay = dict(base, kind="body_text", impl_lines=real, model_lines=mt["lines"])
    if not (mt["ok_body"] and mt["costs_ok"]):
        ctx.broken.append("corr:" + stream + " (hypotheses)")
        ctx.notes.append("a generated report does not satisfy the hypotheses of C17_text_roundtrip (ok_body=%s costs_ok=%s): %s"
                         % (mt["ok_body"], mt["costs_ok"], json.dumps(model["body"])[:300]))
        return
    if real is None:
        ctx.violations.append({"what": "the report has no body between `# Recommended programs` and `# Summary` (or an unclosed listing)",
                               "replay": replay, "signature": None})
        return
    read = drv.call("c17.body_parse", text="\n".join(real))   # the text itself: split by the spec (C17_text_roundtrip_string)
    replay["spec(parseBody of impl lines)"] = read
    replay["model(=spec) structured"] = model["body"]
    if read is None and impl["body"] == model["body"]:
        # the strict reader refuses a line, the lenient Python parser finds the filter's result: no clause of the property is contradicted
        ctx.broken.append("corr:" + stream + " (a line the proved reader refuses)")
        bad = [l for l in real if l not in set(mt["lines"])][:3]
        ctx.notes.append("body text not readable by parseBody although the lenient parser finds the filter's result; lines not in the model: %s" % json.dumps(bad))
        return
    if read != model["body"]:
        if sum(1 for v in ctx.violations if v.get("replay", {}).get("kind") == "body_text") < 3:
            ctx.violations.append({"what": "the lines of the report body do not read back (parseBody) as the filter's result: "
                                           + ("unreadable text" if read is None else "another structured report"),
                                   "replay": replay, "signature": None})
        return
    if read != impl["body"]:
        ctx.broken.append("corr:" + stream + " (Python Markdown parser of the harness ≠ parseBody)")
        ctx.notes.append("the harness's Markdown parser and the proved reader disagree: %s" % json.dumps({"python": impl["body"], "lean": read})[:400])
        return
    if real != mt["lines"]:
        ctx.broken.append("corr:" + stream)
        diff = [(a, b) for a, b in zip(real, mt["lines"]) if a != b][:3]
        ctx.notes.append("body text differs from the model (reads back correctly): first differing lines (impl, model) = %s; lengths %d / %d"
                         % (json.dumps(diff), len(real), len(mt["lines"])))


def run(ctx):
    core.prove(ctx)
    core.import_repo()
    drv = core.Driver()
    rng = ctx.rng
    n_dis = 0
    try:
        n = 400 if ctx.tier == "quick" else 60000
        for i in range(n):
            db = filt.gen_db(rng, max_programs=7)
            if rng.random() < 0.25:
                db = near_ties(rng, db)
                ctx.dist("near_ties")
            for p, info in db["programs"].items():   # vary sloc
                info["source"] = "\n".join("x" for _ in range(rng.randint(1, 9)))
            runs = [[filt.gen_command(rng, db, odd=(i % 7 == 0), bad_ok=False) for _ in range(rng.randint(0, 4))]
                    for _ in range(rng.choice([1, 1, 1, 2, 3]))]
            strategy = rng.choice(["zeno", "linear"])
            sorting = rng.choice(["by_cost_and_sloc", "lexicographic"])
            grouping = rng.choice(["by_cost_bucket", "by_cost_bucket", "none"])
            width = rng.choice([30, 10 ** 6])
            # one object rendered several times (seeded change C17-j: a rendering re-ordered the assessed programs in place)
            earlier = [[rng.choice(["by_cost_and_sloc", "lexicographic"]), rng.choice(["by_cost_bucket", "none"])]
                       for _ in range(rng.choice([0, 0, 1, 1, 2]))]
            cells = []
            impl, md = run_real(db, runs, strategy, sorting, grouping, width, earlier, cells)
            model = drv.call(**model_request(db, runs, strategy, sorting, grouping))
            if "exc" not in impl and "exc" not in model:
                check_report_cells(ctx, drv, cells, model)
                check_body_text(ctx, drv, md, model, impl, strategy, width,
                                {"db": db, "runs": runs, "strategy": strategy, "sorting": sorting, "grouping": grouping,
                                 "width": width, "earlier": earlier})
            ctx.dist(f"earlier_renderings={len(earlier)}")
            if "exc" in model:
                model = {"exc": model["exc"]}
            nt = "exc" not in impl and len(impl["body"]) >= 1 and (len(impl["stdout"]) < len(db["programs"]) or any(r for r in runs))
            ctx.count("reports", repr((sorted(db["programs"]), runs, strategy, sorting, grouping)), nontrivial=nt)
            ctx.dist(f"runs={len(runs)}")
            ctx.dist(f"sorting={sorting}")
            ctx.dist(f"grouping={grouping}")
            if "exc" not in impl:
                ctx.dist("buckets=%d" % len(impl["body"]))
                for pb in self_consistency(impl):
                    ctx.violations.append({"what": pb, "replay": {"kind": "report", "db": db, "runs": runs, "strategy": strategy,
                                                                  "sorting": sorting, "grouping": grouping, "earlier": earlier, "width": width, "impl": impl}})
            if impl != model:
                n_dis += 1
                if n_dis <= 3:
                    ctx.violations.append({
                        "what": "the report differs from the filter's result (structured comparison)",
                        "replay": {"kind": "report", "db": db, "runs": runs, "strategy": strategy, "sorting": sorting,
                                   "grouping": grouping, "width": width, "earlier": earlier, "impl": impl, "model(=spec)": model},
                    })
            if len(ctx.cov["samples"]) < 2 and nt and len(db["programs"]) <= 3:
                ctx.sample({"runs": runs, "strategy": strategy, "impl_report": impl})
        cell_streams(ctx, drv, rng)
        # cost_bucket on a grid of dyadic rationals
        from paroxython.goodies import cost_bucket

        for num in range(0, 4097):
            for den in (1, 8, 64):
                c = Fraction(num, den)
                real = cost_bucket(float(c))
                m = drv.call("rep.bucket", num=c.numerator, den=c.denominator)
                ctx.count("cost_bucket grid", (num, den), nontrivial=True)
                if real != m:
                    ctx.violations.append({"what": f"cost_bucket({float(c)}) = {real!r}, an interval that is not the documented one ({m!r})",
                                           "replay": {"kind": "bucket", "cost": str(c), "impl": real, "model": m}})
                    break
        ctx.cov["disagreements_checked"] = n_dis
    finally:
        drv.close()
    ctx.cov["rule"] = (
        "random well-formed databases (varying sloc) × 1-3 run_pipeline calls of 0-4 commands on ONE Recommendations × both cost strategies × both "
        "sorting strategies × grouping on/off × span column width 30 / unbounded, after 0-2 earlier renderings of the same object under other options; the Markdown is parsed back (bucket headings and counts, program "
        "sections in order with path and cost, table rows with taxon, cost, spans/_imported_, summary lines) and compared with the Lean structured "
        "report; every Location cell of these real reports is read by the spec's parseCell (Lean) and compared with the spans of the row; "
        "cell streams: the text of the cell computed by the Lean model (couple_to_string, join, textwrap.wrap, template) against the real "
        "enumeration_to_txt_factory(width, '_imported_') BYTE FOR BYTE, the real textwrap.wrap lines against the model's, and parseCell of the real cell "
        "against the spans, on widths 1-40 × a fixed family and on random lists of 0-40 spans of magnitudes up to 10^16 (width 30 most frequent); "
        "body text (B5): for every generated report, the lines of the body written by the Lean model ReportText.renderBody (heading lines with counts, "
        "title lines with path and cost, table header, row lines, rule; cost texts by the model of float repr) against the real lines LINE BY LINE "
        "(source listings removed), the real lines read by the PROVED strict reader ReportText.parseBodyStrict (Lean: every line classified, the grammar of the body checked) against the structured report of the model and "
        "against what the Python Markdown parser of this harness read, and the hypotheses okBody / costsOK of C17_text_roundtrip evaluated by Lean on it; "
        "plus cost_bucket on a grid of 12k dyadic rationals. Non-trivial = at least one section and some command or hidden program (reports), a wrapped cell (cells)."
    )
    ctx.cov["trusted_base"] = TRUST + [
        "the Markdown parser of this harness for the summary lines; for headings, titles and table rows it is cross-checked on every report by the "
        "proved reader ReportText.parseBodyStrict run on the same lines (slugs, the table of contents and the line-number gutter are outside the model; "
        "the source listing is removed by the harness before the comparison)",
        "the model of float repr (ReportText.showFloat: exact decimal expansion of a dyadic cost, CPython format_float_short rule for the exponent) "
        "and the int/float distinction of row costs (rowCostText) are tied to the real text by the line-by-line stream only; the theorems take the "
        "cost texts as parameters and need only costsOK, which Lean evaluates on each report",
        "title_format='{path}' (what the harness passes); with the default format only the last path segment is printed",
        "the Lean model of textwrap.wrap (CPython 3.12 _split/_wrap_chunks/_handle_long_word on the alphabet digits - , space) is tied to the real "
        "textwrap by correspondence only (byte-for-byte on generated span lists); the theorems are about that model",
        "math.log2 in cost_bucket is compared on a grid only; float corner cases near 2^k for k ≥ 12 are outside the envelope",
    ]
    ctx.cov["proved"] = ["C17_membership", "C17_bucket", "C17_bucket_contains", "C17_order", "C17_rows", "C17_total", "C17_summary",
                         "C17_summary_fresh", "C17_stdout", "C17_order_across", "C17_order_across_assess", "C17_cell_roundtrip", "C17_cell_imported",
                         "C17_cell_not_imported", "C17_cell_wrap_keeps_text", "C17_cell_unwrap", "C17_text_roundtrip", "C17_text_roundtrip_string", "C17_text_okBody_of_db", "C17_text_injective", "C17_text_membership",
                         "C17_text_rows", "C17_text_bucket_count", "C17_text_reader_counts", "C17_text_reader_sound", "C17_text_roundtrip_strict", "C17_text_strict_le"]
    ctx.cov["exercised_only"] = ["rendering: slugs, table of contents, line-number gutter and source listing",
                                 "float repr of the costs (showFloat / rowCostText against the real text, line by line)"]
    finish_tie(ctx)
    return core.finish(ctx)


def replay(ctx, path):
    core.import_repo()
    obj = json.load(open(path, encoding="utf-8"))
    if obj.get("kind") == "cell":
        drv = core.Driver()
        width = obj.get("width", 30)
        impl = real_cell(width, obj["spans"]) if "width" in obj else obj["impl"]
        model = drv.call("c17.cell", width=width, spans=obj["spans"])
        read = drv.call("c17.parse", cell=impl)
        print("impl :", impl)
        print("model:", model)
        print("spec (parseCell of impl):", read, " row spans:", obj["spans"])
        drv.close()
        return 0 if (read == obj["spans"] and (impl == model or "width" not in obj)) else 1
    if obj.get("kind") not in ("report", "body_text"):
        print(obj)
        return 0
    drv = core.Driver()
    if obj.get("kind") == "body_text":
        impl, md = run_real(obj["db"], obj["runs"], obj["strategy"], obj["sorting"], obj["grouping"], obj.get("width", 10 ** 6),
                            obj.get("earlier", ()))
        model = drv.call(**model_request(obj["db"], obj["runs"], obj["strategy"], obj["sorting"], obj["grouping"]))
        real = real_body_lines(md) if md is not None else None
        mt = drv.call("c17.body_text", body=model.get("body", []), width=obj.get("width", 10 ** 6), strategy=obj["strategy"])
        read = drv.call("c17.body_parse", lines=real) if real is not None else None
        print("impl lines :", json.dumps(real, ensure_ascii=False))
        print("model lines:", json.dumps(mt["lines"], ensure_ascii=False), " ok_body:", mt["ok_body"], " costs_ok:", mt["costs_ok"])
        print("spec (parseBody of impl lines):", json.dumps(read, ensure_ascii=False))
        print("model(=spec) structured      :", json.dumps(model.get("body"), ensure_ascii=False))
        drv.close()
        return 0 if (read == model.get("body") and real == mt["lines"]) else 1
    impl, md = run_real(obj["db"], obj["runs"], obj["strategy"], obj["sorting"], obj["grouping"], obj.get("width", 10 ** 6),
                        obj.get("earlier", ()))
    model = drv.call(**model_request(obj["db"], obj["runs"], obj["strategy"], obj["sorting"], obj["grouping"]))
    print("impl :", json.dumps(impl, ensure_ascii=False))
    print("model:", json.dumps(model, ensure_ascii=False))
    drv.close()
    return 0 if impl == model else 1
