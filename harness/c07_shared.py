"""C07, round 10 (DESIGN §11.11 E2): the knowledge set SHARED with the filter and mutated in place.

Two streams drive the real code through random histories over {mutate a set object in place,
set_imparted_knowledge, (another assessor clears the class-level cache), taxon_cost, assess / __call__,
run_pipeline with impart commands, direct update_filter} and compare every returned cost with the Lean machine
`SState` (driver op `cost.shared`): (e) a bare `LearningCostAssessor` handed set objects that the harness then mutates
in place; (f) a real `Recommendations` object.

Expectations come from the Lean model only. NEVER build a fresh assessor to compute an expectation: its constructor
clears the class-level memo and hides a stale cache (lesson at the top of stream (c) in harness/c07.py). Where this
module constructs a second assessor it is a modelled step (`clear`).

A history that follows the run_pipeline discipline (`disciplined`: no cost asked while the pointed-to set has been changed
in place since the last set_imparted_knowledge) and returns a cost other than the pure cost under the current
knowledge is a C07 violation; any other model/implementation difference is `corr:`. A stale cost returned OUTSIDE the
discipline (direct `update_filter` then `assess`) is the documented gap of §11.6: counted in
`documented_gap_reproduced`, never a violation.
"""
import contextlib
import copy
import io
from fractions import Fraction

from . import filt

WITNESS_PROGS = {"p.py": {"taxa": {"a/b": [[1, 1]]}}}
WITNESS_OPS = [
    {"kind": "set", "addr": 0},
    {"kind": "assess", "selected": ["p.py"]},
    {"kind": "mutate", "addr": 0, "add": ["a", "a/b"], "del": []},
    {"kind": "assess", "selected": ["p.py"]},
]  # = Props.C07.witnessOps (C07_shared_direct_update_stale)


def frac(x):
    f = Fraction(x)
    return f"{f.numerator}/{f.denominator}"


def req_progs(progs):
    return [[p, [[t, s] for t, s in info["taxa"].items()]] for p, info in progs.items()]


def model_call(drv, strat, progs_req, heap0, ptr0, ops):
    return drv.call("cost.shared", strategy=strat, programs=progs_req, heap0=heap0, ptr0=ptr0, ops=ops)


def first_diff(a, b):
    return next((j for j in range(min(len(a), len(b))) if a[j] != b[j]), None)


def shrink_list(items, fails, keep_first=0, budget=150):
    """Greedy one-at-a-time deletion while `fails(items)` stays true."""
    changed = True
    while changed and budget > 0:
        changed = False
        for i in range(len(items) - 1, keep_first - 1, -1):
            cand = items[:i] + items[i + 1:]
            budget -= 1
            if budget <= 0:
                break
            try:
                if fails(cand):
                    items, changed = cand, True
                    break
            except Exception:  # noqa  (a candidate that cannot even run is not a smaller failing case)
                pass
    return items


# ------------------------------------------------------------------ (e) bare assessor


def exec_bare(strat, progs, heap0, ptr0, ops):
    """Run the history on the real LearningCostAssessor. The set objects live in `objs`; `mutate` changes one IN PLACE."""
    from paroxython.assess_costs import LearningCostAssessor

    objs = {a: set(k) for a, k in heap0}
    a = LearningCostAssessor(progs, strat)
    a.set_imparted_knowledge(objs.setdefault(ptr0, set()))
    other = None
    out = []
    for op in ops:
        k = op["kind"]
        try:
            if k == "mutate":
                o = objs.setdefault(op["addr"], set())
                o.difference_update(op["del"])
                o.update(op["add"])
                out.append(None)
            elif k == "set":
                a.set_imparted_knowledge(objs.setdefault(op["addr"], set()))
                out.append(None)
            elif k == "clear":
                if op.get("how") == "set" and other is not None:
                    other.set_imparted_knowledge({"x"})
                else:
                    other = LearningCostAssessor(progs, strat)  # a modelled step: clears the class-level cache
                    other.set_imparted_knowledge(set())
                out.append(None)
            elif k == "taxon":
                out.append(frac(a.taxon_cost(op["taxon"])))
            else:
                out.append([[frac(c), p] for c, p in a(set(op["selected"]))])
        except Exception as exc:  # noqa
            out.append({"exc": type(exc).__name__})
        if other is not None and op.get("foreign_query"):
            other.taxon_cost(op["foreign_query"])  # another instance's entries live under another key: no model step
    return out


def gen_bare(rng, gen_taxon, gen_knowledge):
    strat = rng.choice(["zeno", "linear"])
    pool = [gen_taxon(rng, 6) for _ in range(6)]
    progs = {}
    for p in rng.sample(filt.PROG_POOL, rng.randint(1, 4)):
        progs[p] = {"taxa": {t: [[1, 1]] for t in rng.sample(pool, rng.randint(0, 5))}}
    n_obj = rng.randint(1, 3)
    heap0 = [[i, sorted(gen_knowledge(rng, pool, closed=True)) if rng.random() < 0.6 else []] for i in range(n_obj)]
    content = {a: set(k) for a, k in heap0}
    ptr = 0

    def g_mut(addr):
        add = sorted(gen_knowledge(rng, rng.sample(pool, rng.randint(1, 3)), closed=rng.random() < 0.8))
        dele = sorted(rng.sample(sorted(content[addr]), min(len(content[addr]), rng.randint(1, 2)))) if rng.random() < 0.2 else []
        content[addr].difference_update(dele)
        content[addr].update(add)
        return {"kind": "mutate", "addr": addr, "add": add, "del": dele}

    def g_taxon():
        t = rng.choice(pool)
        if rng.random() < 0.25:
            e = t.split("/")
            t = "/".join(e[: rng.randint(1, len(e))])
        return {"kind": "taxon", "taxon": t}

    def g_assess():
        return {"kind": "assess", "selected": rng.sample(list(progs), rng.randint(0, len(progs)))}

    ops = []
    if rng.random() < 0.4:  # rounds of the run_pipeline discipline (on the object pointed to)
        for _ in range(rng.randint(1, 3)):
            ops += [g_mut(ptr) for _ in range(rng.randint(0, 3))]
            if rng.random() < 0.3:
                ptr = rng.randrange(n_obj)
            ops += [{"kind": "set", "addr": ptr}, g_assess()]
            ops += [rng.choice([g_taxon, g_taxon, g_assess])() for _ in range(rng.randint(0, 3))]
    else:
        for _ in range(rng.randint(3, 14)):
            r = rng.random()
            if r < 0.28:
                ops.append(g_mut(ptr if rng.random() < 0.7 else rng.randrange(n_obj)))
            elif r < 0.43:
                ptr = rng.randrange(n_obj)
                ops.append({"kind": "set", "addr": ptr})
            elif r < 0.50:
                ops.append({"kind": "clear", "how": rng.choice(["ctor", "set"])})
            elif r < 0.78:
                ops.append(g_taxon())
            else:
                ops.append(g_assess())
            if rng.random() < 0.15:
                ops[-1]["foreign_query"] = rng.choice(pool)
    return strat, progs, heap0, ops


def judge(real, out):
    """-> (kind, index): 'ok' | 'violation' (inside the disciplined prefix the implementation departs from the pure cost
    of the current knowledge) | 'corr' (model and implementation differ elsewhere)."""
    j = first_diff(real, out["model"])
    if j is None:
        return "ok", None
    if j + 1 <= out["disciplined_prefix"] and real[j] != out["spec"][j]:
        return "violation", j
    return "corr", j


def bare_stream(ctx, drv, n, gen_taxon, gen_knowledge, gap):
    rng = ctx.rng
    for _ in range(n):
        strat, progs, heap0, ops = gen_bare(rng, gen_taxon, gen_knowledge)
        real = exec_bare(strat, progs, heap0, 0, ops)
        out = model_call(drv, strat, req_progs(progs), heap0, 0, ops)
        if out["model"] != out["snap"]:
            ctx.broken.append("corr:snapshot-machine")  # contradicts C07_shared_stale_characterised: driver / build problem
        kinds = [o["kind"] for o in ops]
        stale = [j for j in range(len(ops)) if out["model"][j] != out["spec"][j]]
        ctx.count("shared-set histories (bare assessor)", repr((strat, heap0, ops)),
                  nontrivial="mutate" in kinds and any(k in ("taxon", "assess") for k in kinds[kinds.index("mutate"):]))
        ctx.dist("shared:disciplined" if out["disciplined_prefix"] == len(ops) else "shared:undisciplined")
        if stale:
            ctx.dist("shared:model-stale-steps", len(stale))
        verdict, j = judge(real, out)
        if verdict == "ok":
            gap["random_stale_steps_matching_model"] += len(stale)
            if stale and len(ops) <= 6 and len(gap["samples"]) < 1:
                gap["samples"].append({"strategy": strat, "heap0": heap0, "ops": ops[: stale[0] + 1], "impl=model": real[stale[0]],
                                       "pure cost of the current knowledge": out["spec"][stale[0]]})
            continue
        if verdict == "corr":
            ctx.broken.append("corr:shared-bare")
            ctx.notes.append(f"shared-bare: step {j} impl={real[j]!r} model={out['model'][j]!r} ops={ops[: j + 1]!r} heap0={heap0!r}")
            continue

        def fails(cand):
            o = model_call(drv, strat, req_progs(progs), heap0, 0, cand)
            return judge(exec_bare(strat, progs, heap0, 0, cand), o)[0] == "violation"

        small = shrink_list(ops[: j + 1], fails)
        o = model_call(drv, strat, req_progs(progs), heap0, 0, small)
        r = exec_bare(strat, progs, heap0, 0, small)
        ctx.violations.append({
            "what": "an assessment made under the run_pipeline discipline (set_imparted_knowledge after the in-place changes) does not "
                    "reflect the imparted knowledge at the time it is made",
            "replay": {"kind": "shared-bare", "strategy": strat, "programs": progs, "heap0": heap0, "ptr0": 0, "ops": small,
                       "impl_outputs": r, "model_outputs": o["model"], "spec_outputs(pure recomputation)": o["spec"],
                       "knowledge_read_at_each_step": o["knowledge"]},
        })


# ------------------------------------------------------------------ (f) a real Recommendations


def py_data(cmd):
    return [x if isinstance(x, str) else tuple(x) for x in cmd["data"]]


def exec_rec(db, strat, actions):
    """-> (outputs per action, knowledge of the recommender after each action)."""
    from paroxython.recommend_programs import Recommendations

    outs, kn = [], []
    with contextlib.redirect_stdout(io.StringIO()), contextlib.redirect_stderr(io.StringIO()):
        rec = Recommendations(copy.deepcopy(db), assessment_strategy=strat)
        for act in actions:
            try:
                if act["kind"] == "pipeline":
                    rec.run_pipeline(filt.to_py_cmds(act["cmds"]))
                    outs.append([[frac(c), p] for c, p in rec.assessed_programs])
                elif act["kind"] == "update":  # outside the documented entry points (§11.6): no set_imparted_knowledge follows
                    rec.update_filter(py_data(act["cmd"]), act["cmd"]["operation"], "any")
                    outs.append(None)
                elif act["kind"] == "assess":
                    outs.append([[frac(c), p] for c, p in rec.assess(rec.selected_programs)])
                else:
                    outs.append(frac(rec.assess.taxon_cost(act["taxon"])))
            except Exception as exc:  # noqa
                outs.append({"exc": type(exc).__name__})
            kn.append(sorted(rec.imparted_knowledge))
    return outs, kn


def gen_rec(rng):
    db = filt.gen_db(rng)
    strat = rng.choice(["zeno", "linear"])
    taxa = sorted(db["taxa"]) or ["a"]

    def cmd(ops):
        while True:
            c = filt.gen_command(rng, db, ops=ops, odd=False, bad_ok=False, triple_p=0.15)
            if c["data"]:
                return c

    actions = [{"kind": "pipeline", "cmds": [cmd(["impart", "impart", "include", "exclude"]) for _ in range(rng.randint(0, 2))]}]
    for _ in range(rng.randint(1, 6)):
        r = rng.random()
        if r < 0.35:
            actions.append({"kind": "pipeline", "cmds": [cmd(["impart", "impart", "impart", "include", "exclude"]) for _ in range(rng.randint(0, 3))]})
        elif r < 0.55:
            actions.append({"kind": "update", "cmd": cmd(["impart", "impart", "impart", "include", "exclude"])})
        elif r < 0.75:
            actions.append({"kind": "assess"})
        else:
            t = rng.choice(taxa)
            if rng.random() < 0.3:
                e = t.split("/")
                t = "/".join(e[: rng.randint(1, len(e))])
            actions.append({"kind": "taxon", "taxon": t})
    return db, strat, actions


def model_rec(drv, db, strat, actions):
    """The filter model gives the knowledge / selection after every command; the in-place growth of the filter's set
    (address 0) is the difference. -> None when the filter model raises, else (ops, index of the op of each action,
    model knowledge after each action, cost.shared answer)."""
    flat = []
    for act in actions:
        flat += act["cmds"] if act["kind"] == "pipeline" else [act["cmd"]] if act["kind"] == "update" else []
    m = drv.call(**filt.model_request(db, flat, strat))
    if "exc" in m:
        return None
    progs_req = [[p, [[t, []] for t in ts]] for p, ts in m["records"]]
    K, sel = set(), sorted(p for p, _ in m["records"])
    steps = iter(m["steps"])
    ops, at, kn = [], [], []

    def grow(c):
        nonlocal K, sel
        st = next(steps)
        ops.append({"kind": "mutate", "addr": 0, "add": sorted(set(st["knowledge"]) - K), "del": []})
        K, sel = set(st["knowledge"]), st["selected"]

    for act in actions:
        if act["kind"] == "pipeline":
            for c in act["cmds"]:
                grow(c)
            ops.append({"kind": "set", "addr": 0})
            ops.append({"kind": "assess", "selected": list(sel)})
        elif act["kind"] == "update":
            grow(act["cmd"])
        elif act["kind"] == "assess":
            ops.append({"kind": "assess", "selected": list(sel)})
        else:
            ops.append({"kind": "taxon", "taxon": act["taxon"]})
        at.append(len(ops) - 1)
        kn.append(sorted(K))
    return ops, at, kn, model_call(drv, strat, progs_req, [[0, []]], 0, ops)


def judge_rec(drv, db, strat, actions):
    """-> (verdict, action index, real outputs, per-action model / spec outputs, extra)."""
    mr = model_rec(drv, db, strat, actions)
    if mr is None:
        return "skip", None, None, None, None, None
    ops, at, kn, out = mr
    real, rkn = exec_rec(db, strat, actions)
    mod = [out["model"][i] for i in at]
    spec = [out["spec"][i] for i in at]
    info = {"ops": ops, "out": out, "at": at}
    jk = first_diff(rkn, kn)
    j = first_diff(real, mod)
    if jk is not None and (j is None or jk <= j):
        return "filter", jk, real, mod, spec, info  # the filter departs from ITS model: C04/C06's business, reported as corr here
    if j is None:
        return "ok", None, real, mod, spec, info
    if at[j] + 1 <= out["disciplined_prefix"] and real[j] != spec[j]:
        return "violation", j, real, mod, spec, info
    return "corr", j, real, mod, spec, info


def rec_stream(ctx, drv, n, gap):
    rng = ctx.rng
    for _ in range(n):
        db, strat, actions = gen_rec(rng)
        verdict, j, real, mod, spec, info = judge_rec(drv, db, strat, actions)
        if verdict == "skip":
            ctx.dist("shared-rec:filter-model-raises")
            continue
        out, at = info["out"], info["at"]
        kinds = [a["kind"] for a in actions]
        ctx.count("shared-set histories (recommender)", repr((sorted(db["programs"]), strat, actions)),
                  nontrivial=any(o["kind"] == "mutate" and o["add"] for o in info["ops"]) and len(actions) >= 3)
        for k in kinds:
            ctx.dist("shared-rec:" + k)
        ctx.dist("shared-rec:disciplined" if out["disciplined_prefix"] == len(info["ops"]) else "shared-rec:undisciplined")
        if out["model"] != out["snap"]:
            ctx.broken.append("corr:snapshot-machine")
        if verdict == "ok":
            stale = [i for i in range(len(actions)) if mod[i] != spec[i]]
            gap["random_stale_steps_matching_model"] += len(stale)
            if stale and len(gap["samples"]) < 2:
                gap["samples"].append({"recommender": True, "programs": sorted(db["programs"]), "strategy": strat,
                                       "actions": actions[: stale[0] + 1], "impl=model": real[stale[0]],
                                       "pure cost of the current knowledge": spec[stale[0]]})
            continue
        if verdict in ("corr", "filter"):
            ctx.broken.append("corr:shared-recommender" if verdict == "corr" else "corr:shared-recommender-filter-knowledge")
            ctx.notes.append(f"shared-rec ({verdict}): action {j} of {actions!r} impl={real[j]!r} model={mod[j]!r} db={db!r}")
            continue
        small = shrink_list(actions[: j + 1], lambda cand: judge_rec(drv, db, strat, cand)[0] == "violation", keep_first=0)
        v, jj, r, mo, sp, inf = judge_rec(drv, db, strat, small)
        ctx.violations.append({
            "what": "costs assessed by a recommender used through run_pipeline do not reflect the imparted knowledge at the time they are made",
            "replay": {"kind": "shared-recommender", "db": db, "strategy": strat, "actions": small, "impl_outputs": r,
                       "model_outputs": mo, "spec_outputs(pure recomputation)": sp},
        })


# ------------------------------------------------------------------ the witness of C07_shared_direct_update_stale


def witness(ctx, drv, gap):
    """Replay `witnessOps` (set; assess; in-place impart of a/b; assess WITHOUT set) on the real code, both ways."""
    from paroxython.assess_costs import LearningCostAssessor

    out = model_call(drv, "zeno", req_progs(WITNESS_PROGS), [], 0, WITNESS_OPS)
    expected_model = [None, [["3/4", "p.py"]], None, [["3/4", "p.py"]]]
    expected_spec = [None, [["3/4", "p.py"]], None, [["0/1", "p.py"]]]
    if out["model"] != expected_model or out["spec"] != expected_spec or out["disciplined_prefix"] != 3:
        ctx.broken.append("corr:shared-witness-driver")  # the driver disagrees with the theorem's literal values
    bare = exec_bare("zeno", WITNESS_PROGS, [], 0, WITNESS_OPS)
    db = {"programs": {"p.py": {"taxa": {"a/b": [[1, 1]]}, "source": "pass", "labels": {}}}, "taxa": {"a/b": ["p.py"]},
          "importations": {"p.py": []}, "exportations": {"p.py": []}, "labels": {}}
    actions = [{"kind": "pipeline", "cmds": []}, {"kind": "update", "cmd": {"operation": "impart", "data": ["a/b"]}}, {"kind": "assess"}]
    rec, kn = exec_rec(db, "zeno", actions)
    gap["witness"] = {
        "history": "run_pipeline([]); update_filter(['a/b'], 'impart', 'any'); assess(selected_programs)   [no set_imparted_knowledge]",
        "model (C07_shared_direct_update_stale)": out["model"][3], "pure cost of the current knowledge": out["spec"][3],
        "bare assessor returns": bare[3], "Recommendations returns": rec[2], "knowledge of the recommender then": kn[2],
    }
    gap["witness_reproduced_bare"] = bare == out["model"]
    gap["witness_reproduced_recommender"] = [rec[0], rec[2]] == [out["model"][1], out["model"][3]]
    if not gap["witness_reproduced_bare"]:
        ctx.broken.append("corr:shared-witness-bare")
        ctx.notes.append(f"shared witness (bare): impl={bare!r} model={out['model']!r}")
    if not gap["witness_reproduced_recommender"]:
        ctx.broken.append("corr:shared-witness-recommender")
        ctx.notes.append(f"shared witness (recommender): impl={rec!r} model={out['model']!r}")
    # the state the machine does not model: before the first set_imparted_knowledge the attribute does not exist
    a = LearningCostAssessor({}, "zeno")
    try:
        a.taxon_cost("a")
        gap["unset_pointer"] = "no exception"
        ctx.broken.append("corr:shared-unset-pointer")
    except AttributeError:
        gap["unset_pointer"] = "AttributeError (taxon_cost before any set_imparted_knowledge; outside the machine)"
    ctx.count("shared-set witness", "witness", nontrivial=True, n=2)


def run_streams(ctx, drv, gen_taxon, gen_knowledge):
    gap = {"random_stale_steps_matching_model": 0, "samples": []}
    witness(ctx, drv, gap)
    bare_stream(ctx, drv, 400 if ctx.tier == "quick" else 60000, gen_taxon, gen_knowledge, gap)
    rec_stream(ctx, drv, 250 if ctx.tier == "quick" else 30000, gap)
    ctx.cov["documented_gap_reproduced"] = gap


def replay(obj):
    from . import core

    core.import_repo()
    drv = core.Driver()
    try:
        if obj["kind"] == "shared-bare":
            real = exec_bare(obj["strategy"], obj["programs"], obj["heap0"], obj["ptr0"], obj["ops"])
            out = model_call(drv, obj["strategy"], req_progs(obj["programs"]), obj["heap0"], obj["ptr0"], obj["ops"])
            for i, op in enumerate(obj["ops"]):
                print(op, "| reads", out["knowledge"][i], "| impl:", real[i], "| model:", out["model"][i], "| spec:", out["spec"][i])
            print("disciplined prefix:", out["disciplined_prefix"], "of", len(obj["ops"]))
        else:
            v, j, real, mod, spec, info = judge_rec(drv, obj["db"], obj["strategy"], obj["actions"])
            for i, act in enumerate(obj["actions"]):
                print(act, "| impl:", real[i], "| model:", mod[i], "| spec:", spec[i])
            print("verdict:", v, "ops:", info["ops"], "disciplined prefix:", info["out"]["disciplined_prefix"])
    finally:
        drv.close()
    return 0
