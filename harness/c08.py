"""C08 — each span relation means exactly the chain its key spells.

Tie: translator (Gen/CompareSpans.lean is regenerated from compare_spans.py, theorems re-checked).
Correspondence here = translator validation (real lambdas vs PyExpr.eval of the generated entry)
and the failing-input search (real lambdas vs the specification's chain), both complete on the
256 rank environments for order-invariant predicates.
"""
import itertools

from . import core


def order_type(env):
    s = sorted(set(env))
    return tuple(s.index(v) for v in env)


def call_real(f, env):
    try:
        r = f((env[0], env[1]), (env[2], env[3]))
        return "1" if r is True else "0" if r is False else f"<{r!r}>"
    except Exception as exc:  # noqa
        return f"<{type(exc).__name__}>"


def run(ctx):
    core.prove(ctx)
    core.import_repo()
    import importlib

    cs_mod = importlib.import_module("paroxython.compare_spans")
    real = cs_mod.compare_spans
    drv = core.Driver()
    try:
        names = drv.call("c08.names")
        spec_names = {n: k for n, k in names["spec"]}
        model_names = list(names["model"])
        envs = [list(e) for e in itertools.product(range(4), repeat=4)]
        n_rand = 300 if ctx.tier == "quick" else 5000
        for _ in range(n_rand):
            lo = ctx.rng.choice([-5, -1000, 0, 1, 10**6, -(10**12)])
            w = ctx.rng.choice([2, 3, 6, 50, 10**9])
            envs.append([lo + ctx.rng.randrange(w) for _ in range(4)])
        ctx.cov["rule"] = (
            "every name of the real dict and of the specification × (all 256 environments of {0..3}^4 = a superset "
            "of the 75 order types of four endpoints, + random wide/negative integer environments); "
            "distinct non-trivial case = distinct (name, order type of the four endpoints)"
        )
        all_names = list(dict.fromkeys(list(real.keys()) + list(spec_names) + model_names))
        disagreements = 0
        for name in all_names:
            impl = None
            if name in real:
                impl = "".join(call_real(real[name], e) for e in envs) if callable(real[name]) else "<not callable>"
            m = drv.call("c08.model", name=name, envs=envs)
            s = drv.call("c08.spec", name=name, envs=envs)
            for e in envs:
                ctx.count("lambda-vs-model-vs-spec", (name, order_type(e)), nontrivial=True)
            mres = m.get("r")
            sres = s.get("r")
            # (a) the implementation against the specification: the property itself
            if sres is not None:
                if impl is None:
                    ctx.violations.append({
                        "what": f"name {name!r} of the manual/key set is missing from compare_spans",
                        "replay": {"kind": "missing-name", "name": name, "spec_key": spec_names[name]},
                    })
                elif impl != sres:
                    i = next(i for i in range(len(envs)) if impl[i:i + 1] != sres[i])
                    e = envs[i]
                    disagreements += 1
                    ctx.violations.append({
                        "what": f"compare_spans[{name!r}] differs from the chain of its key",
                        "replay": {
                            "kind": "wrong-meaning", "name": name, "spec_key": spec_names[name],
                            "x": [e[0], e[1]], "y": [e[2], e[3]],
                            "impl": call_real(real[name], e), "spec": sres[i],
                            "how": "compare_spans[name](x, y) vs the chain spelled by spec_key",
                        },
                    })
            # (b) translator validation: the implementation against the generated model
            if impl is not None and mres is not None and impl != mres:
                i = next(i for i in range(len(envs)) if impl[i:i + 1] != mres[i])
                ctx.broken.append(f"translator-validation:{name}")
                ctx.notes.append(f"translator validation: {name!r} env {envs[i]} impl {impl[i:i+1]} model {mres[i]}")
            if (impl is None) != (mres is None):
                ctx.broken.append(f"translator-names:{name}")
            if impl is not None and sres is None:
                ctx.notes.append(f"extra name in compare_spans: {name!r}")
                ctx.broken.append(f"extra-name:{name}")
        # mirror images on the real dict
        for r, r2 in names["converses"]:
            if r in real and r2 in real:
                for e in envs:
                    a = call_real(real[r], e)
                    b = call_real(real[r2], [e[2], e[3], e[0], e[1]])
                    ctx.count("mirror", (r, order_type(e)), nontrivial=True)
                    if a != b:
                        ctx.violations.append({
                            "what": f"{r!r} and {r2!r} are not mirror images",
                            "replay": {"kind": "mirror", "r": r, "converse": r2, "x": [e[0], e[1]], "y": [e[2], e[3]],
                                       "r(x,y)": a, "converse(y,x)": b},
                        })
                        break
        ctx.cov["disagreements_checked"] = disagreements
        ctx.cov["exhaustive"] = True
        ctx.cov["names_real"] = len(real)
        ctx.cov["names_spec"] = len(spec_names)
        ctx.sample({"name": "started by", "x": [1, 3], "y": [1, 2],
                    "impl": call_real(real["started by"], [1, 3, 1, 2]) if "started by" in real else None,
                    "model": drv.call("c08.model", name="started by", envs=[[1, 3, 1, 2]]).get("r"),
                    "spec": drv.call("c08.spec", name="started by", envs=[[1, 3, 1, 2]]).get("r")})
        ctx.sample({"name": "x<y=x≤y", "envs": "all 256 of {0..3}^4", "impl_true_count": sum(
            call_real(real["x<y=x≤y"], e) == "1" for e in envs[:256]) if "x<y=x≤y" in real else None})
    finally:
        drv.close()
    ctx.cov["trusted_base"] = core.BASE_TRUST + [
        "translator /verif/translator/gen.py (compare_spans.py -> Gen/CompareSpans.lean), validated on every run by "
        "evaluating the real lambdas on the 256 rank environments against PyExpr.eval of the generated entries",
        "PyExpr.eval (Python comparison-chain / and / or / not semantics, lean/Paroxy/Model/CompareSpans.lean)",
        "the transcription of the manual's table of Allen names, converses and synonyms (Spec/CompareSpans.lean)",
    ]
    ctx.assumptions += [
        "spans are pairs of Python ints (no NaN-like values); names are compared as code-point lists",
    ]
    if not ctx.violations and (not ctx.proofs_ok or ctx.broken):
        # a proof or the tie no longer checks, and the complete enumeration found no failing input
        ctx.violations.append({
            "no_input": True,
            "what": "proof or translator tie no longer checks",
            "replay": {
                "kind": "no-failing-input-found",
                "no_longer_checks": ctx.broken,
                "translator": ctx.cov.get("translator"),
                "build_errors": ctx.cov.get("build_errors"),
                "searched": "all names × 256 rank environments + random integer environments against the real lambdas: no difference with the specification",
            },
        })
    return core.finish(ctx)
