"""C14 — one bad file never aborts tagging or collecting.

Proved (lean/Paroxy/Props/C14.lean) about the exception-flow skeleton `Paroxy.Collect.collect` /
`tagMain`, for all behaviours of the externals: abort-or-record characterisation, every file reported
whatever the cleaning raises (fix c7d362e), others unaffected, closure terminates, `tag` reports.

Tie (this file): directories mixing valid programs with a malformed stream, under both cleanup
strategies, through the real `TagDatabase` and `cli_tag.main`; the behaviour of the externals
(`Cleanup.run`, `get_program`, `ast.parse`, the feature search) is recorded per text with the real
components and given to the model, which predicts abort (and the exception class) vs the database.
Exercised only: what CPython's tokenizer/parser raise on a given text.
"""
import ast
import contextlib
import io
import json
from pathlib import Path

from . import core
from . import c11


VALID = [
    "x = 1\n",
    # finding F50: a sys.path injection statement written on several lines is a valid program under --cleanup full too
    '__import__("sys").path[0:0] = [\n    "a",\n    "b",\n]\n# comment\nx = 1\n', '__import__("sys").path[0:0] = ["a",\n "b"]\n# comment\nx = 1\n',
    '__import__("sys").path[0:0] = [\n        "a",\n    "b"]\n# comment\nx = 1\n',
    "import os\nprint(os.getcwd())\n",
    "def f(n):\n    if n < 2:\n        return n\n    return f(n - 1) + f(n - 2)\n",
    "for i in range(3):\n    print(i)\n",
    "s = 'abc'\nt = (1,\n     2)\n",
    "class K:\n    def m(self):\n        return [i for i in range(3)]\n",
    "while True:\n    break\n",
    'd = {"k": [1, 2]}\nprint(d["k"])\n',
    "é = 1\nprint(é)\n",
    's = "a\x0bb"\nprint(s)\n',
    "t = 'x\x0cy\u2028z'\nu = 'k\x1cl\x85m'\n",
    'import os\nw = """one\x1dtwo\u2029three"""\nprint(os.sep, w)\n',
    # valid programs whose sys.path injection statement spans several lines (finding F50: the line-based suppression
    # left an untokenizable or invalid remainder; seed C14-l: the tokenizer's exception then escaped from collect)
    '__import__("sys").path[0:0] = [\n        "a",\n    "b"]\n# comment\nx = 1\n',
    '__import__("sys").path[0:0] = """a\nb""".split()\n# comment\nx = 1  # c2\n',
    '__import__("sys").path[0:0] = [\n    "a",\n    "b",\n]\nimport os\nprint(os.sep)\n',
    'x = 1\n__import__("sys").path[0:0] = ["a",\n "b"]\ny = 2\n',
]

COMMENT_ONLY = [
    "# just a comment\n", "# coding: utf-8\n", "#!/usr/bin/env python\n# -*- coding: utf-8 -*-\n",
    "# a\n\n# b\n\n", "\n\n# after blank lines\n", "   # indented comment\n", "# no newline at the end",
    "#\n", "\t# tab then comment\n\n", "# one\n# two\n# three\n",
]

# benign programs whose first lines hold a comment that *looks like* a PEP 263 declaration (unknown codec names,
# prose containing "coding:" / "coding="), a latin-1 cookie on a UTF-8 file with non-ASCII characters, a BOM
CODING_LIKE = [
    "# coding: utf8x\nx = 1\n",
    "# avoid hard-coding: values\nx = 1\n",
    "x = 0\n# hard-coding=magic numbers is bad\ny = 1\n",
    "#!/usr/bin/env python\n# vim: set fileencoding=utf-42 :\nprint(1)\n",
    "# -*- coding: latin-1 -*-\ns = 'é'\nprint(s)\n",
    "\ufeff# coding: utf-8\nx = 1\n",
    "# -*- coding: utf-8 -*-\nx = 'é'\n",
    "# decoding: rot13 of nothing\nx = 2\n",
    "   # coding=none-of-your-business\n",
    "# coding: ascii\ns = 'é'\n",
]

# texts made only of characters that str.strip() removes: the information separators 0x1c-0x1f (which the regex
# module's \s does NOT match), and every other Unicode white space, alone and mixed with blanks and newlines
UNICODE_WS = ["\x1c", "\x1d", "\x1e", "\x1f", "\x0b", "\x0c", "\x85", "\xa0", "\u1680", "\u2000", "\u2003", "\u200a",
              "\u2028", "\u2029", "\u202f", "\u205f", "\u3000"]
WS_ONLY = ["\x1c\n \x1d\t\n\x1e\x1f\n", "\x1c", "\x1f\n", " \x1e ", "\n\x1d\n", "\x1c\x1d\x1e\x1f"] + UNICODE_WS[4:] + [
    " " + c + "\n\t" + c + " \n" for c in UNICODE_WS]

# invalid files whose ONLY syntax errors sit in / after / beside a trailing `if __name__ == "__main__":` block
# (Python-2 prints in a self-test): under BOTH strategies the content is not valid Python
GUARD_INVALID = [
    "x = 1\nif __name__ == '__main__':\n    print \"x\"\n",
    'def f():\n    return 1\nif __name__ == "__main__":\n    print f()\n    exec "1"\n',
    'if __name__ == "__main__":\n    print "self-test"\n',
    'x = 1\nif __name__ == "__main__": print "x"\n',
    'x = 1\nif __name__ == "__main__":\n    pass\nelse:\n    print "imported"\n',
    'import os\nif __name__ == "__main__":\n    main()\nprint "after"\n',
    'y = 2\nif __name__ == "__main__":\n    for i in range(3):\n        print i\n\n',
    'def g(n):\n    return n\n\nif __name__   ==   "__main__"  :\n    print g(1),\n    x = = 2\n',
]

# texts whose ONLY error sits inside something full cleaning removes (a leading comment block, a shebang, an inline or
# indented comment, a docstring, a blank line, the main-guard part): a NUL character makes the whole text invalid
# wherever it stands. Seeded change C14-k: the text was parsed only after the leading comments were gone.
NOISE_INVALID = [
    "#!/usr/bin/env python3\n# exported by the grader\x00\nfor i in range(3):\n    print(i)\n",
    "# nothing here yet\x00\n", "#\x00", "# a\n# b\x00\n\n# c\nx = 1\n", "#!/bin/sh\x00\nx = 1\n",
    "x = 1  # inline\x00\n", "def f():\n    # indented\x00\n    return 1\n", '"""doc\x00"""\nx = 1\n',
    'def f():\n    """doc\x00"""\n    return 1\n', "x = 1\n\x00\ny = 2\n", "x = 1\n  \x00  \n",
    'x = 1\nif __name__ == "__main__":\n    pass  # \x00\n', 'x = 1\nif __name__ == "__main__":\n    print("\x00")\n',
    "# coding: utf-8\x00\nx = 1\n", "# c\n\n\n# d\x00\nif x:\n    pass\n", "x = 1\n# trailing comment\x00",
    "pass\npass  # \x00\nx = 1\n", '__import__("sys").path[0:0] = ["a"]  # \x00\nx = 1\n',
]

FIXED_BAD = COMMENT_ONLY + GUARD_INVALID[:3] + WS_ONLY[:8] + GUARD_INVALID[3:] + [
    "x = (1,\n", 'x = """abc\n', "if x:\n        y = 1\n    z = 2\n", "x = 1\x00\n", "", "   \n\n", "\t",
    "x = 1\x0c\n", "def (:\n", "x = 'a\n", "\\", "x = 1 \\", "if x:\n\ty=1\n        z=2\n", "\ufeffx = 1\n",
    "x = $\n", "x = 1\r y = 2\n", "x = 0777\n", "a = 1\n  b = 2\n", "\x00", "\n", "pass\n", "x = )\n", "]\n",
    "def f():\nreturn 1\n", "x = 1\x1a\n", "print('a' 'b'\n", "'''\n", "x = f'{\n", "lambda: (yield)\n",
    "class:\n", "\x7f\n", "x = 1;;\n", "return\n", "a = b = \n", "0x\n", "1_\n", "x = '\\\n",
] + NOISE_INVALID


def mutate(rng, text):
    """One malformed-stream mutation of a valid program."""
    kind = rng.choice(["trunc", "trunc", "bracket", "quote", "indent", "dedent", "ctrl", "nul", "delete",
                       "dup", "tab", "backslash", "empty", "blank", "comments", "comments", "noise_err", "noise_err"])
    if kind == "noise_err":
        # the error (a NUL) inside a piece of noise added to the valid program: leading comment block, shebang,
        # inline comment, comment line inside the code, docstring, trailing comment, blank line, main-guard part
        where = rng.choice(["lead", "lead", "shebang", "inline", "inner", "doc", "trail", "blank", "guard", "only"])
        lines = text.split("\n")
        c = rng.choice(["# note\x00", "#\x00", "# a \x00 b", "#\x00 note"])
        if where == "lead":
            head = [rng.choice(["# first", "#!/usr/bin/env python", "# coding: utf-8"])] * rng.randint(0, 2) + [c] + ["# more"] * rng.randint(0, 1)
            return "\n".join(head + [""] * rng.randint(0, 1) + lines), kind
        if where == "shebang":
            return "#!/usr/bin/env python\x00\n" + text, kind
        if where == "inline":
            j = rng.randrange(len(lines))
            lines[j] = lines[j] + "  " + c if lines[j].strip() else c
            return "\n".join(lines), kind
        if where == "inner":
            j = rng.randrange(len(lines) + 1)
            ind = (lines[j][:len(lines[j]) - len(lines[j].lstrip())] if j < len(lines) else "")
            return "\n".join(lines[:j] + [ind + c] + lines[j:]), kind
        if where == "doc":
            return '"""module doc\x00"""\n' + text, kind
        if where == "trail":
            return text.rstrip("\n") + "\n" + c + rng.choice(["", "\n"]), kind
        if where == "blank":
            j = rng.randrange(len(lines) + 1)
            return "\n".join(lines[:j] + [rng.choice(["\x00", " \x00", "\x00 "])] + lines[j:]), kind
        if where == "guard":
            return text.rstrip("\n") + '\nif __name__ == "__main__":\n    pass  ' + c + "\n", kind
        return c + rng.choice(["", "\n", "\n\n# and nothing else\n"]), kind
    if rng.random() < 0.12:
        # only white space of some Unicode kind (information separators included), alone or mixed with blanks
        k = rng.randint(1, 6)
        return "".join(rng.choice(UNICODE_WS + [" ", "\n", "\t", "\n"]) for _ in range(k)) if rng.random() < 0.6 else rng.choice(WS_ONLY), "unicode_ws"
    if rng.random() < 0.08:
        # a valid program followed by a main guard whose block (or else part, or what follows it) is Python 2
        tail = rng.choice(['    print "done"\n', '    print f(1)\n    exec "x"\n', '    pass\nelse:\n    print "imported"\n',
                           '    main()\nprint "after"\n', '    for i in range(3):\n        print i\n'])
        q = rng.choice(['"', "'"])
        return text.rstrip("\n") + f"\nif __name__ == {q}__main__{q}:\n" + tail, "guard"
    if kind == "comments":
        # only ordinary comments (and blank lines) are left: parses to an empty module
        how = rng.choice(["all", "all", "blanks", "fixed", "code_removed"])
        if how == "fixed":
            return rng.choice(COMMENT_ONLY), kind
        lines = [("# " + l if l.strip() else l) for l in text.split("\n")]
        if how == "blanks":
            lines = [x for l in lines for x in (l, "")]
        if how == "code_removed":
            lines = ["# " + text.split("\n")[0], "", "    # what was here is gone", ""]
        return "\n".join(lines), kind
    if kind == "empty":
        return "", kind
    if kind == "blank":
        return rng.choice([" ", "\n", "  \n\n", "\t\n", " \x0c\n", "\n\n\n"]), kind
    if not text:
        return "", "empty"
    i = rng.randrange(len(text))
    if kind == "trunc":
        return text[:i], kind
    if kind == "bracket":
        return text[:i] + rng.choice("([{)]}") + text[i:], kind
    if kind == "quote":
        return text[:i] + rng.choice(['"', "'", '"""', "'''"]) + text[i:], kind
    if kind == "indent":
        lines = text.split("\n")
        j = rng.randrange(len(lines))
        lines[j] = " " * rng.choice([1, 2, 3, 5, 8]) + lines[j]
        return "\n".join(lines), kind
    if kind == "dedent":
        lines = text.split("\n")
        cands = [j for j, l in enumerate(lines) if l.startswith(" ")]
        if not cands:
            return text[:i], "trunc"
        j = rng.choice(cands)
        lines[j] = lines[j][rng.choice([1, 2, 3]):]
        return "\n".join(lines), kind
    if kind == "ctrl":
        return text[:i] + rng.choice(["\x0c", "\x1a", "\x01", "\x7f", "\r", "\x0b", "\ufeff", "\u2028"]) + text[i:], kind
    if kind == "nul":
        return text[:i] + "\x00" + text[i:], kind
    if kind == "delete":
        return text[:i] + text[i + 1:], kind
    if kind == "dup":
        return text[:i] + text[i] * 2 + text[i + 1:], kind
    if kind == "tab":
        lines = text.split("\n")
        cands = [j for j, l in enumerate(lines) if l.startswith("    ")]
        if not cands:
            return "\t" + text, kind
        j = rng.choice(cands)
        lines[j] = "\t" + lines[j][4:]
        return "\n".join(lines), kind
    return text[:i] + "\\" + text[i:], "backslash"


IMPORTER_SIG = ("importer of a bad file: its import label is import_internally:<b> (taxon import/personal) while the bad file is "
                "collected and import:<b> (import/third_party/... or import/standard/...) when it is absent; nothing else differs")


def only_importer_deviation(rec_with, rec_without, badset):
    """True iff the two records differ ONLY by the internal/external status of the imports of bad files: same source and
    timestamp; un-relabelling the `…_internally:` labels that name a bad file gives exactly the other label dictionary; the
    taxa differ only under `import/`."""
    if rec_with["source"] != rec_without["source"] or rec_with["timestamp"] != rec_without["timestamp"]:
        return False
    back = {}
    for name, spans in rec_with["labels"].items():
        if name.startswith(("import_internally:", "import_module_internally:")):
            target = name.split(":", 2)[1]
            if target + ".py" in badset:
                name = name.replace("_internally:", ":", 1).replace("/", ".")
        if name in back:
            return False
        back[name] = spans
    if back != rec_without["labels"]:
        return False
    ta = {k: v for k, v in rec_with["taxa"].items() if not k.startswith("import/")}
    tb = {k: v for k, v in rec_without["taxa"].items() if not k.startswith("import/")}
    return ta == tb


ODD_CHARS = set("\x00\x0b\x0c\r\x1c\x1d\x1e\x1f\x85\u2028\u2029\ufeff")


def raw_class(text):
    try:
        tree = ast.parse(text)
        return "empty" if not tree.body else "valid"
    except (SyntaxError, ValueError, RecursionError) as e:
        return type(e).__name__


def repair_shape(raw):
    """The shapes in which, before fix F48, passes of the full cleaning made an invalid content valid (kept to label the
    replays; none is excused)."""
    if "\t" in raw:
        return "tab"
    if raw.rstrip(" \n").endswith("\\"):
        return "backslash-eof"
    if "#" in raw:
        return "comment-lines"
    if ODD_CHARS & set(raw):
        return "control-or-separator-character"
    return None


STRIP_SIG = ("get_program's final strip(): a raw content rejected by ast.parse whose str.strip() is a valid or an empty program "
             "(indented first line, only U+001C-U+001F / Unicode white space, a last line ending in U+2028 / VT ...) is reported as "
             "that program, not as meta/ast/<Error> — under both cleanup strategies and by tag")


def strip_shape(raw):
    """The precise predicate of recorded finding F49: the raw text does not parse, but the text `get_program` stores for a
    hint-free content — `raw.strip()` (blank ends trimmed) — is a valid or an empty program. Nothing else is excused."""
    return raw_class(raw) not in ("valid", "empty") and raw_class(raw.strip()) in ("valid", "empty")


def is_error_record(taxa):
    return len(taxa) == 1 and taxa[0].startswith("meta/ast/") and taxa[0] != "meta/ast/EmptyProgramError"


def raw_content_oracle(ctx, files_read, by_strategy, files):
    """The property speaks of the file's CONTENT: a raw text that `ast.parse` rejects must be reported with the single
    taxon meta/ast/<Error>, under `--cleanup none` AND under `--cleanup full`. A valid-program or empty-program record is a
    violation; it carries the signature of F49 exactly when `strip_shape(raw)` holds."""
    for strategy, js in by_strategy.items():
        for p, raw in files_read.items():
            if "paroxython" in raw.lower() or raw_class(raw) in ("valid", "empty") or p not in js["programs"]:
                continue
            taxa = list(js["programs"][p]["taxa"])
            if is_error_record(taxa):
                ctx.count("raw-content-oracle", (strategy, p, raw), nontrivial=True)
                continue
            known = strip_shape(raw)
            ctx.dist(f"raw-oracle.{strategy}.{'strip-shape' if known else 'OTHER'}")
            ctx.violations.append({
                "what": f"{p}: the raw content is not valid Python ({raw_class(raw)}) but --cleanup {strategy} reports "
                        f"{'an empty program' if taxa == ['meta/ast/EmptyProgramError'] else 'a valid program'}",
                "signature": STRIP_SIG if known else None,
                "replay": {"kind": "raw-content", "files": {p: files[p]}, "cleanup": strategy, "strip_shape": known,
                           "shape": repair_shape(raw),
                           "impl": {"taxa": taxa[:8], "stored": js["programs"][p]["source"][:300]},
                           "model": "the externals are recorded on the stored text: the model cannot see this",
                           "spec": f"single taxon meta/ast/{raw_class(raw)} under both strategies (content that is not valid Python)"}})


def exc_info(e):
    # what ProgramParser.__call__ catches around ast.parse + flatten_ast (fix d1e6a10)
    return {"exc": type(e).__name__, "caught": isinstance(e, (SyntaxError, ValueError, RecursionError))}


# valid programs whose FLATTENING fails (int literal beyond the 4300-digit str limit inside ast.dump: ValueError;
# a tree far too deep for the recursive traversal: RecursionError), and deep-but-fine ones, well below every limit
UNFLATTENABLE = [
    "x = 0x" + "f" * 6000 + "\n",
    "y = 0b" + "1" * 20000 + "\nprint(y)\n",
    "import os\nz = 0o" + "7" * 9000 + "\n",
    "if a == 0:\n    pass\n" + "".join(f"elif a == {i}:\n    pass\n" for i in range(1, 1500)),
    "def f(a):\n    if a == 0:\n        return 0\n" + "".join(f"    elif a == {i}:\n        return {i}\n" for i in range(1, 2000)),
    "t = " + "7" * 5000 + "\n",                      # too long for the PARSER itself: SyntaxError
    "v = " + "[" * 90 + "1" + "]" * 90 + "\n",       # deep but fine
]


class Oracle:
    """Records the behaviour of the real externals, per text (memoised)."""

    def __init__(self):
        from paroxython.parse_program import ProgramParser
        self.parser = ProgramParser()
        self.clean = {"full": {}, "none": {}}
        self.prepare = {}
        self.gate = {}
        self.prepare_errors = []
        self.parse = {}

    def clean_of(self, strategy, raw):
        """The external `clean` of the model: `Cleanup.full_cleaning` itself (which may raise) for `full`, the
        identity for `none`. The catch-all fallback of `safe_full_cleaning` is in the model (`safeClean`)."""
        from paroxython.preprocess_source import Cleanup
        t = self.clean[strategy]
        if raw not in t:
            if strategy != "full":
                t[raw] = {"ok": raw}
            else:
                try:
                    t[raw] = {"ok": str(Cleanup.full_cleaning(raw))}
                except RecursionError:
                    raise
                except Exception as e:  # noqa
                    t[raw] = exc_info(e)
        return t[raw]

    def raw_gate_of(self, raw):
        """Does `ast.parse(raw)` raise (any Exception)? The model only needs ok / error for the raw text."""
        if raw not in self.gate:
            try:
                ast.parse(raw)
                self.gate[raw] = {"empty": True}  # placeholder for "parses": the model only tests the failure
            except (Exception, RecursionError) as e:  # noqa
                self.gate[raw] = exc_info(e)
        return self.gate[raw]

    def prepare_of(self, text):
        from paroxython.list_programs import get_program
        if text not in self.prepare:
            try:
                self.prepare[text] = str(get_program(text, Path("x.py")).source)
            except RecursionError:
                raise
            except Exception as e:  # noqa  (get_program must not raise on a hint-free text: the run will report it)
                self.prepare_errors.append({"text": text[:200], "exc": type(e).__name__})
                self.prepare[text] = text.strip()
        return self.prepare[text]

    def parse_of(self, src):
        from paroxython.list_programs import get_program
        if src not in self.parse:
            try:
                tree = ast.parse(src)
            except (Exception, RecursionError) as e:  # noqa
                self.parse[src] = exc_info(e)
                return self.parse[src]
            if not tree.body:
                self.parse[src] = {"empty": True}
                return self.parse[src]
            # the external `flatten` of the model: flatten_ast on a non-empty tree (it may raise on a valid program)
            try:
                from paroxython.flatten_ast import flatten_ast
                flatten_ast(tree)
            except (Exception, RecursionError) as e:  # noqa
                self.parse[src] = {"flatten_exc": exc_info(e)}
                return self.parse[src]
            # the rest of ProgramParser.__call__ = the feature search, on a program holding that source
            try:
                program = get_program(src, Path("x.py"))
            except RecursionError:
                raise
            except Exception as e:  # noqa
                self.prepare_errors.append({"text": src[:200], "exc": type(e).__name__})
                self.parse[src] = {"features_exc": exc_info(e)}
                return self.parse[src]
            if program.source != src:
                program = program._replace(source=src)
            try:
                labels = self.parser(program)
                self.parse[src] = {"labels": [[l.name, [c11.span3(s) for s in l.spans]] for l in labels]}
            except Exception as e:  # noqa
                self.parse[src] = {"features_exc": exc_info(e)}
        return self.parse[src]

    def tables(self, strategy, raws):
        cl, pr, pa = [], [], []
        raw_gate = []
        for raw in dict.fromkeys(raws):
            c = self.clean_of(strategy, raw) if strategy else {"ok": raw}
            cl.append([raw, c])
            # safe_full_cleaning (fixes c7d362e, F48): a text that does not parse is left as it is; so is one whose
            # cleaning raises
            gate = self.raw_gate_of(raw) if strategy == "full" else None
            if gate is not None:
                raw_gate.append([raw, gate])
            text = raw if (gate is not None and "exc" in gate) else (c["ok"] if "ok" in c else raw)
            s = self.prepare_of(text)
            pr.append([text, s])
            pa.append([s, self.parse_of(s)])
        # the model asks `parse` about the RAW text too (only whether it fails): cheap entries, never overriding the
        # full entry of a stored source with the same text
        for raw, gate in raw_gate:
            if raw not in [k for k, _ in pa]:
                pa.append([raw, gate])
        return {"clean": cl, "prepare": [list(x) for x in dict.fromkeys(map(tuple, pr))],
                "parse": [x for i, x in enumerate(pa) if x[0] not in [y[0] for y in pa[:i]]]}


def read_back(root, files):
    """The texts as `list_programs` reads them (`Path.read_text`: universal newlines)."""
    return {p: (root / p).read_text() for p in files}


def real_collect(root, out_dir, strategy):
    from paroxython.make_db import TagDatabase
    rec = c11.Recorder()
    try:
        with c11.recording(rec), c11.deadline(c11.DEADLINE):
            db = c11.quiet(TagDatabase, root, ignore_timestamps=True, cleanup_strategy=strategy)
    except c11.Watchdog:
        return {"exc": "Timeout", "msg": f"TagDatabase did not return within {c11.DEADLINE} s: collecting must terminate "
                                          "for every import graph"}, rec
    except RecursionError:
        return {"exc": "RecursionError"}, rec
    except Exception as e:  # noqa
        return {"exc": type(e).__name__, "msg": str(e)[:150]}, rec
    return {"json": json.loads(db.get_json()), "paths": list(db.programs_infos)}, rec


def judge(ctx, drv, orc, files, root, out_dir, strategy):
    """One directory under one strategy. Returns (verdict dict)."""
    raws = read_back(root, files)
    paths = sorted(raws, key=lambda p: (root / p))
    impl, rec = real_collect(root, out_dir, strategy)
    tables = orc.tables(strategy, [raws[p] for p in paths])
    taxa = []
    if "json" in impl and len(rec.taxa) == len(impl["paths"]):
        taxa = [[p, [[n, [c11.span3(s) for s in sp]] for n, sp in rec.taxa[i]]] for i, p in enumerate(impl["paths"])]
    order = impl.get("paths") or paths
    m = drv.call("c14.collect", files=[[p, raws[p]] for p in order], taxa=taxa, **tables)
    info = []
    for p in order:
        c = next(v for k, v in tables["clean"] if k == raws[p])
        gate = orc.raw_gate_of(raws[p]) if strategy == "full" else None
        text = raws[p] if (gate is not None and "exc" in gate) else (c["ok"] if "ok" in c else raws[p])
        s = next(v for k, v in tables["prepare"] if k == text)
        pr = next(v for k, v in tables["parse"] if k == s)
        info.append({"path": p, "clean": "ok" if "ok" in c else c["exc"],
                     "parse": None if pr is None else ("empty" if "empty" in pr else "valid" if "labels" in pr
                                                       else "features:" + pr["features_exc"]["exc"] if "features_exc" in pr
                                                       else pr["flatten_exc"]["exc"] if "flatten_exc" in pr else pr["exc"]),
                     "unflattenable": bool(pr and "flatten_exc" in pr)})
    for i in info:
        if i.get("unflattenable"):
            ctx.dist(f"{strategy}.flatten.{i['parse']}")
        ctx.dist(f"{strategy}.clean.{i['clean']}")
        if i["parse"] is not None:
            ctx.dist(f"{strategy}.parse.{i['parse']}")
    v = {"info": info, "impl": {k: impl[k] for k in impl if k != "json"}, "model": {k: m[k] for k in m if k not in ("db", "sqlite")}}
    if "exc" in impl:
        # the property is violated: the collection aborted
        agree = "exc" in m and m["exc"] == impl["exc"]
        what = (f"collect does not terminate (cleanup={strategy})" if impl["exc"] == "Timeout"
                else f"collect aborted with {impl['exc']} (cleanup={strategy})")
        v.update(kind="violation", what=what, signature=None,
                 model_agrees=agree)
        if not agree:
            v["corr_broken"] = True
        return v
    if "exc" in m:
        # model predicts an abort, the implementation returned: is the property satisfied by the output?
        ok = spec_check(drv, info, impl["json"])
        v.update(kind="broken" if ok else "violation",
                 what=f"model predicts abort ({m['exc']} at {m.get('stage')}), implementation returns"
                      + ("" if ok else " a database that does not report every file as the property says"))
        return v
    from paroxython.preprocess_source import Cleanup
    for p in order:
        if "paroxython" in raws[p].lower() or p not in impl["json"]["programs"]:
            continue
        c = next(v_ for k_, v_ in tables["clean"] if k_ == raws[p])
        gate = orc.raw_gate_of(raws[p]) if strategy == "full" else None
        expected = (raws[p] if (gate is not None and "exc" in gate) else (c["ok"] if "ok" in c else raws[p])).strip()
        stored = impl["json"]["programs"][p]["source"]
        if stored != expected:
            v.update(kind="violation", what=f"stored source of {p} is not verbatim the cleaned, hint-free source",
                     stored=stored, expected=expected)
            return v
    d = c11.first_diff(impl["json"], c11.model_to_obj(m))
    if d is not None:
        ok = spec_check(drv, info, impl["json"])
        v.update(kind="broken" if ok else "violation", what=f"database differs from the model at {d}", json=impl["json"])
        return v
    if not spec_check(drv, info, impl["json"]):
        v.update(kind="violation", what="a file is not reported as the property says (single meta/ast/<Error> taxon)",
                 taxa={p: list(r["taxa"]) for p, r in impl["json"]["programs"].items()})
        return v
    v.update(kind="ok", json=impl["json"])
    return v


def spec_check(drv, info, js):
    files = []
    for i in info:
        pr = i["parse"]
        valid = pr == "valid" or (pr or "").startswith("features:")
        f = {"path": i["path"], "valid": valid, "empty": pr == "empty"}
        if pr is not None and not valid and pr != "empty":
            f["err"] = pr  # the class name of the error ast.parse raises on the stored text
        files.append(f)
    keys = [[p, list(r["taxa"])] for p, r in js["programs"].items()]
    return drv.call("c14.spec_check", files=files, taxa_keys=keys)["r"]


def gen_dir(rng):
    n_good = rng.choice([0, 1, 1, 2, 2, 3])
    n_bad = rng.choice([1, 1, 1, 2])
    names = ["a", "b", "c", "d", "e", "m"]
    rng.shuffle(names)
    files, bad = {}, []
    kinds = []
    for i in range(n_good):
        body = rng.choice(VALID + CODING_LIKE[:4]) if rng.random() < 0.85 else rng.choice(CODING_LIKE)
        if i > 0 and rng.random() < 0.5:
            body = f"import {names[0]}\n" + body
        files[f"{names[i]}.py"] = body
    for j in range(n_bad):
        if rng.random() < 0.08:
            t, k = rng.choice(UNFLATTENABLE), "unflattenable"
        elif rng.random() < 0.3:
            t, k = rng.choice(FIXED_BAD), "fixed"
        else:
            t, k = mutate(rng, rng.choice(VALID))
        nm = f"{names[n_good + j]}.py"
        if rng.random() < 0.2 and n_good:
            nm = f"pkg/{names[n_good + j]}.py"
        files[nm] = t
        bad.append(nm)
        kinds.append(k)
    if rng.random() < 0.25:
        # an import cycle (length 1-3) reached from 1-2 programs outside it, named to sort before / after its members
        k = rng.choice([1, 2, 3])
        members = rng.sample(["m_utils", "n_vectors", "o_core"], k)
        for j, nm in enumerate(members):
            files[f"{nm}.py"] = f"import {members[(j + 1) % k]}\n" + rng.choice(VALID)
        for o in rng.sample(["a_main", "zz_main", "b_entry"], rng.choice([1, 2])):
            files[f"{o}.py"] = f"import {rng.choice(members)}\n" + rng.choice(VALID)
    if n_good >= 1 and rng.random() < 0.2:
        # a (bad or empty) file named like a dotted module, and a good file importing that uncollected module
        mod = rng.choice(["os.path", "xml.dom", "a.b", "pkg.sub.m"])
        nm = rng.choice([f"{mod}.py", mod.rsplit(".", 1)[0] + "/" + mod.rsplit(".", 1)[1] + ".py" if mod.count(".") > 1 else f"{mod}.py"])
        t, k = (rng.choice(FIXED_BAD), "fixed") if rng.random() < 0.6 else mutate(rng, rng.choice(VALID))
        files[nm] = t
        bad.append(nm)
        kinds.append(k)
        g = f"{names[0]}.py"
        files[g] = f"import {mod}\n" + files[g]
    if n_good >= 1 and bad and rng.random() < 0.4:
        # a good file importing the bad one's module
        g = f"{names[0]}.py"
        files[g] = f"import {bad[0][:-3].replace('/', '.')}\n" + files[g]
    return files, bad, kinds


def write_files(root, files):
    root.mkdir(parents=True, exist_ok=True)
    for rel, text in files.items():
        f = root / rel
        f.parent.mkdir(parents=True, exist_ok=True)
        with open(f, "w", encoding="utf-8", newline="") as fh:
            fh.write(text)


def record_violation(ctx, v, files, strategy, name=None):
    entry = {
        "what": v["what"], "signature": v.get("signature"),
        "replay": {"kind": "directory", "files": files, "cleanup": strategy, "what": v["what"],
                   "externals": v["info"], "impl": v["impl"], "model": v["model"],
                   "spec": "C14: TagDatabase returns a database with one record per file; invalid text -> single taxon "
                           "meta/ast/<ErrorName>, empty -> meta/ast/EmptyProgramError (Spec/Collect.lean: Reported / reportedB)",
                   "how": "write the files under a fresh directory D (bytes as given, utf-8); "
                          "TagDatabase(D, ignore_timestamps=True, cleanup_strategy=cleanup)"}}
    if name:
        entry["name"] = name
    ctx.violations.append(entry)


def shrink(ctx, drv, orc, base, files, strategy, v0, tag):
    """Drop files, then truncate the texts, while the same kind of violation persists."""
    counter = [0]

    def fails(cand):
        counter[0] += 1
        root = base / f"{tag}-s{counter[0]}" / "progs"
        write_files(root, cand)
        w = judge(ctx, drv, orc, cand, root, root.parent, strategy)
        return w["kind"] == "violation" and w["what"] == v0["what"] and w.get("signature") == v0.get("signature")

    files = dict(files)
    cap = 6 if "terminate" in v0["what"] else 40  # a non-terminating candidate costs a whole deadline
    for p in list(files):
        if len(files) > 1 and counter[0] < cap:
            cand = {k: t for k, t in files.items() if k != p}
            if fails(cand):
                files = cand
    for p in list(files):
        lines = files[p].split("\n")
        i = 0
        while i < len(lines) and len(lines) > 1 and counter[0] < cap:
            cand = dict(files)
            cand[p] = "\n".join(lines[:i] + lines[i + 1:])
            if fails(cand):
                lines = lines[:i] + lines[i + 1:]
                files = cand
            else:
                i += 1
    return files


def stream_dirs(ctx, drv, orc, n_dirs):
    base = ctx.scratch_dir()
    fixed = [
        ({"a.py": "x = 1\n", "b.py": "x = (1,\n"}, ["b.py"]),
        ({"a.py": "x = 1\n", "b.py": 'x = """abc\n'}, ["b.py"]),
        ({"a.py": "import b\n", "b.py": "if x:\n        y = 1\n    z = 2\n"}, ["b.py"]),
        ({"a.py": "", "b.py": "   \n", "c.py": "x = 1\x00\n"}, ["a.py", "b.py", "c.py"]),
        ({"a.py": "import b\nx = 1\n", "b.py": "import a\n", "c.py": "def (:)\n"}, ["c.py"]),
        ({"a.py": "x = $\n"}, ["a.py"]),
        ({"a.py": "x = 1\n", "b.py": "# just a comment\n"}, ["b.py"]),
        # the shapes of recorded finding F49 (get_program's final strip()), one file each
        ({"a.py": "x = 1\n", "tab_first.py": "\tx = 1\n", "sp_first.py": "  y = 2\nz = 3\n", "seps.py": "\x1c\n \x1d\t\n\x1e\x1f\n",
          "ls_last.py": "x = 1\u2028\n", "vt_last.py": "w = 0\nx = 1\x0b", "nel_only.py": "\x85\n"},
         ["tab_first.py", "sp_first.py", "seps.py", "ls_last.py", "vt_last.py", "nel_only.py"]),
        ({"a.py": "x = 1\n", "selftest.py": GUARD_INVALID[0]}, ["selftest.py"]),
        ({"a.py": GUARD_INVALID[1], "b.py": GUARD_INVALID[2], "c.py": GUARD_INVALID[3], "d.py": "import a\n"}, ["a.py", "b.py", "c.py"]),
        ({"a.py": GUARD_INVALID[4], "b.py": GUARD_INVALID[5], "c.py": GUARD_INVALID[6], "d.py": GUARD_INVALID[7], "e.py": "z = 0\n"},
         ["a.py", "b.py", "c.py", "d.py"]),
        # valid programs whose flattening fails, next to normal files (fix d1e6a10)
        ({"a.py": "x = 1\n", "big.py": UNFLATTENABLE[0]}, ["big.py"]),
        ({"a.py": "import os\nprint(os.sep)\n", "chain.py": UNFLATTENABLE[3], "bits.py": UNFLATTENABLE[1], "deep.py": UNFLATTENABLE[6]},
         ["chain.py", "bits.py"]),
        ({"f.py": UNFLATTENABLE[4], "o.py": UNFLATTENABLE[2], "t.py": UNFLATTENABLE[5], "z.py": "y = 2\n"}, ["f.py", "o.py", "t.py"]),
        ({"a.py": "x = 1\n", "b.py": WS_ONLY[0]}, ["b.py"]),
        ({"a.py": WS_ONLY[1], "b.py": WS_ONLY[3], "c.py": "import a\n", "d.py": WS_ONLY[5]}, ["a.py", "b.py", "d.py"]),
        ({"a.py": WS_ONLY[9], "b.py": WS_ONLY[12], "c.py": WS_ONLY[-1], "d.py": WS_ONLY[-5], "e.py": "y = 2\n"},
         ["a.py", "b.py", "c.py", "d.py"]),
        # an importer of the bad file (review finding: internality depends on the presence of the file)
        ({"g.py": "import b\n", "b.py": "x = (1,\n"}, ["b.py"]),
        ({"g.py": "from pkg.b import f\nimport os\nprint(f(os.sep))\n", "pkg/b.py": "def f(:\n", "h.py": "x = 1\n"}, ["pkg/b.py"]),
        # import cycles reached from a program OUTSIDE the cycle whose name sorts before its members
        ({"broken.py": "x = (1,\n", "main.py": "import utils\nprint(1)\n", "utils.py": "import vectors\n",
          "vectors.py": "import utils\n"}, ["broken.py"]),
        ({"a.py": "import b\n", "b.py": "import b\nx = 1\n", "c.py": "def (:)\n"}, ["c.py"]),
        ({"a_main.py": "import n\n", "m.py": "import n\n", "n.py": "import o\n", "o.py": "import m\n",
          "zz.py": "import o\n", "bad.py": ""}, ["bad.py"]),
        ({"a.py": CODING_LIKE[0], "b.py": CODING_LIKE[1], "c.py": "x = (1,\n"}, ["c.py"]),
        ({"a.py": CODING_LIKE[2], "b.py": CODING_LIKE[3], "c.py": CODING_LIKE[4], "d.py": ""}, ["d.py"]),
        ({"a.py": CODING_LIKE[5], "b.py": CODING_LIKE[6], "c.py": CODING_LIKE[7], "d.py": CODING_LIKE[8], "e.py": CODING_LIKE[9]}, ["d.py"]),
        ({"a.py": "# coding: utf-8\n", "b.py": "# a\n\n# b\n\n", "c.py": "import a\n"}, ["a.py", "b.py"]),
        # a bad file named like a dotted module, next to a program importing that (uncollected) module
        ({"a.py": "import os.path\nx = 1\n", "os.path.py": "x = (1,\n"}, ["os.path.py"]),
        ({"u.py": "import xml.dom\nimport p.q\ny = 2\n", "xml.dom.py": "def (:)\n", "p.q/r.py": ""}, ["xml.dom.py", "p.q/r.py"]),
        # CPython 3.12's tokenizer raises SystemError (not TokenError) on a NUL after an indented line
        # (seeded change C14-a narrowed the catch-all of safe_full_cleaning and was missed by one seed of two)
        ({"a.py": "x = 1\n", "b.py": "def f():\n    x = 1\ny = 2\x00\n"}, ["b.py"]),
        ({"a.py": "import b\n", "b.py": "if x:\n    y = 1\n\x00\x00\x00\n"}, ["b.py"]),
        ({"b.py": "x = 1\ny = 2\x00\n", "c.py": "x = 'a\n"}, ["b.py", "c.py"]),
    ]
    seen_known = 0
    for i in range(len(fixed) + n_dirs):
        if i < len(fixed):
            files, bad = fixed[i]
            kinds = ["fixed"] * len(bad)
        else:
            files, bad, kinds = gen_dir(ctx.rng)
        for k in kinds:
            ctx.dist(f"mutation.{k}")
        by_strategy, files_read = {}, {}
        for strategy in ("full", "none", "oracle"):
            if strategy == "oracle":
                raw_content_oracle(ctx, files_read, by_strategy, files)
                break
            tag = f"d{i}-{strategy}"
            root = base / tag / "progs"
            write_files(root, files)
            files_read = read_back(root, files)
            v = judge(ctx, drv, orc, files, root, root.parent, strategy)
            if "json" in v:
                by_strategy[strategy] = v["json"]
            key = (json.dumps(files, sort_keys=True), strategy)
            nontrivial = any(x["parse"] not in ("valid",) for x in v["info"])
            ctx.count("directories", key, nontrivial=nontrivial)
            ctx.dist(f"verdict.{strategy}.{v['kind']}" + (".known" if v.get("signature") else ""))
            if v.get("corr_broken"):
                ctx.broken.append("corr:abort-class")
                ctx.notes.append({"files": files, "cleanup": strategy, "impl": v["impl"], "model": v["model"]})
            if v["kind"] == "broken":
                ctx.broken.append("corr:directories")
                ctx.notes.append({"files": files, "cleanup": strategy, "what": v["what"], "externals": v["info"],
                                  "impl": v["impl"], "model": v["model"]})
            if v["kind"] == "ok" or (v["kind"] == "broken" and "json" in v):
                if nontrivial and v["kind"] == "ok":
                    ctx.sample({"files": files, "cleanup": strategy, "externals": v["info"],
                                "taxa(impl=model)": {p: list(r["taxa"]) for p, r in v["json"]["programs"].items()}}, limit=3)
                # others unaffected: remove the bad files, compare the records of the others (implementation level)
                if bad and len(files) > len(bad) and (i < len(fixed) or ctx.rng.random() < 0.5):
                    others = {p: t for p, t in files.items() if p not in bad}
                    root2 = base / f"{tag}-others" / "progs"
                    write_files(root2, others)
                    w = judge(ctx, drv, orc, others, root2, root2.parent, strategy)
                    ctx.count("others-unaffected", key, nontrivial=True)
                    if w["kind"] == "ok" or (w["kind"] == "broken" and "json" in w):
                        badset = set(bad)
                        for p in others:
                            # NotImporting (Proofs/Collect.lean): no label of p names a bad file's module
                            names = list(w["json"]["programs"][p]["labels"])
                            found = drv.call("c11.relabel", paths=[], names=names)["search"]
                            imports_bad = any(m is not None and m.replace(".", "/") + ".py" in badset for m in found)
                            rec_with, rec_without = v["json"]["programs"][p], w["json"]["programs"][p]
                            if rec_with == rec_without:
                                continue
                            if not imports_bad:
                                ctx.violations.append({
                                    "what": f"record of {p} changes when the bad files are removed",
                                    "replay": {"kind": "others", "files": files, "bad": bad, "cleanup": strategy,
                                               "impl": {"with": rec_with, "without": rec_without},
                                               "model": "C14_others_unaffected: equal records", "spec": "equal records"}})
                                continue
                            # p imports a bad file: the property text has no proviso ("every other program gets the same
                            # record as if the bad file were absent"), so any difference is a violation. The ONE expected
                            # deviation (internality is decided by the presence of the file) gets the narrow signature.
                            ctx.dist("others.importer_of_bad_file")
                            sig = IMPORTER_SIG if only_importer_deviation(rec_with, rec_without, badset) else None
                            small_files = {p: files[p], **{b: files[b] for b in bad if b in files}}
                            ctx.violations.append({
                                "what": f"record of {p}, which imports a bad file, differs from its record when the bad file is absent"
                                        + ("" if sig else " in MORE than the internal/external status of that import"),
                                "signature": sig,
                                "replay": {"kind": "others-importer", "files": files, "bad": bad, "program": p, "cleanup": strategy,
                                           "minimal": small_files,
                                           "impl": {"with": {"labels": sorted(n for n in rec_with["labels"] if "import" in n),
                                                             "taxa": sorted(n for n in rec_with["taxa"] if n.startswith("import/"))},
                                                    "without": {"labels": sorted(n for n in rec_without["labels"] if "import" in n),
                                                                "taxa": sorted(n for n in rec_without["taxa"] if n.startswith("import/"))}},
                                           "model": "Props/C14.lean C14_importer_relabel: import_internally:<b> with the file, import:<b> without",
                                           "spec": "C14 text: the same record as if the bad file were absent"}})
            elif v["kind"] == "broken":
                pass
            else:
                if seen_known >= 2:
                    record_violation(ctx, v, files, strategy)  # enough shrunk instances
                    continue
                small = shrink(ctx, drv, orc, base, files, strategy, v, tag)
                root3 = base / f"{tag}-min" / "progs"
                write_files(root3, small)
                w = judge(ctx, drv, orc, small, root3, root3.parent, strategy)
                if w["kind"] != "violation":
                    small, w = files, v
                seen_known += 1
                record_violation(ctx, w, small, strategy)
        if sum(1 for x in ctx.violations if "terminate" in x.get("what", "")) >= 3:
            ctx.notes.append("directory stream stopped after three non-terminating runs (each costs a deadline)")
            break
        if i % 10 == 9:
            import shutil
            for sub in base.iterdir():
                shutil.rmtree(sub, ignore_errors=True)


def parse_table(text):
    rows = []
    for line in text.split("\n")[2:]:
        cells = [c.strip() for c in line.strip().strip("|").split("|")]
        if cells and cells[0]:
            rows.append(cells[0].strip("`"))
    return rows


def stream_tag(ctx, drv, orc, n):
    """cli_tag.main on malformed and valid texts."""
    from paroxython import cli_tag
    from paroxython.map_taxonomy import Taxonomy

    taxonomy = Taxonomy()
    texts = list(FIXED_BAD[:8]) + [VALID[0]] + WS_ONLY[:3] + [VALID[-1], UNFLATTENABLE[0], UNFLATTENABLE[3],
                                                              "\tx = 1\n", "x = 1\u2028\n"]
    while len(texts) < n:
        t, _ = mutate(ctx.rng, ctx.rng.choice(VALID))
        texts.append(t)
    for raw in texts[:n]:
        out = {}
        for tags in ("Label", "Taxon"):
            try:
                out[tags] = parse_table(c11.quiet(cli_tag.main, raw, tags=tags))
            except RecursionError:
                out[tags] = {"exc": "RecursionError"}
            except Exception as e:  # noqa
                out[tags] = {"exc": type(e).__name__}
        tables = orc.tables(None, [raw])
        src = next(v for k, v in tables["prepare"] if k == raw)
        pr = next(v for k, v in tables["parse"] if k == src)
        # the taxonomy's answer on the labels the model will produce (oracle)
        mlab = drv.call("c14.tag", source=raw, taxa=[], **tables)
        kind = ("empty" if "empty" in pr else "valid" if "labels" in pr else "features_exc" if "features_exc" in pr
                else pr["flatten_exc"]["exc"] if "flatten_exc" in pr else pr["exc"])
        ctx.dist(f"tag.parse.{kind}")
        ctx.count("tag", raw, nontrivial=kind != "valid")
        if "exc" in mlab:
            impl_exc = out["Label"].get("exc") if isinstance(out["Label"], dict) else None
            if impl_exc != mlab["exc"]:
                ctx.broken.append("corr:tag")
                ctx.notes.append({"source": raw, "impl": out, "model": mlab})
            else:
                ctx.violations.append({"what": f"`tag` raises {impl_exc}",
                                       "replay": {"kind": "tag", "source": raw, "impl": out, "model": mlab,
                                                  "spec": "tag terminates and reports the program"}})
            continue
        from paroxython.user_types import Label, Span
        labels = [Label(n_, [Span(a, b, pth) for a, b, pth in sp]) for n_, sp in mlab["labels"]]
        taxa = taxonomy.to_taxa(labels)
        m = drv.call("c14.tag", source=raw, taxa=[[t.name, [c11.span3(s) for s in t.spans]] for t in taxa], **tables)
        model_labels = sorted(n_ for n_, _ in m["labels"])
        model_taxa = sorted(m["taxa"])
        if isinstance(out["Label"], dict) or isinstance(out["Taxon"], dict):
            ctx.violations.append({"what": f"`tag` raises {out}", "replay": {
                "kind": "tag", "source": raw, "impl": out, "model": m, "spec": "tag terminates and reports the program"}})
            continue
        if ("paroxython" not in raw.lower() and raw_class(raw) not in ("valid", "empty") and isinstance(out["Taxon"], list)
                and not is_error_record(out["Taxon"])):
            known = strip_shape(raw)
            ctx.dist(f"raw-oracle.tag.{'strip-shape' if known else 'OTHER'}")
            ctx.violations.append({
                "what": f"tag: the raw content is not valid Python ({raw_class(raw)}) but is reported as "
                        f"{'an empty' if out['Taxon'] == ['meta/ast/EmptyProgramError'] else 'a valid'} program",
                "signature": STRIP_SIG if known else None,
                "replay": {"kind": "tag-raw-content", "source": raw, "strip_shape": known, "impl": {"Taxon": out["Taxon"][:8]},
                           "model": "the externals are recorded on the stored text", "spec": f"meta/ast/{raw_class(raw)}"}})
        exp = None
        if kind not in ("valid", "features_exc"):
            exp = ["meta/ast/EmptyProgramError"] if kind == "empty" else [f"meta/ast/{kind}"]
        if exp is not None and out["Taxon"] != exp:
            ctx.violations.append({"what": "`tag` does not report the single taxon meta/ast/<ErrorName>",
                                   "replay": {"kind": "tag", "source": raw, "impl": out, "model": m, "spec": exp}})
        elif out["Label"] != model_labels or out["Taxon"] != model_taxa:
            ctx.broken.append("corr:tag")
            ctx.notes.append({"source": raw, "impl": out, "model": {"labels": model_labels, "taxa": model_taxa}})


def check_meta_ast_hypotheses(ctx, names):
    """The three oracle hypotheses of Props/C14.lean `C14_meta_ast`, evaluated with the real `regex` engine on the real
    taxonomy.tsv for every error name met: the label does not look like a taxon; the row
    (meta/ast/\\1, ast_construction:(.+)) matches it entirely and expands to meta/ast/<E>; no other row applies."""
    import regex
    from paroxython.map_taxonomy import is_literal
    text = (core.REPO / "paroxython" / "resources" / "taxonomy.tsv").read_text().partition("-- EOF")[0].strip()
    rows = [tuple(line.strip().split(maxsplit=2)[:2]) for line in text.split("\n")[1:]]
    ast_row = ("meta/ast/\\1", "ast_construction:(.+)")
    looks = regex.compile(r"^\w+/.+$").match
    bad = []
    for e in sorted(names):
        label = f"ast_construction:{e}"
        if looks(label):
            bad.append((e, "looks like a taxon"))
        applied = []
        for (t, pat) in rows:
            if is_literal(pat):
                if pat == label:
                    applied.append(((t, pat), t))
            else:
                m = regex.fullmatch(pat, label)
                if m:
                    applied.append(((t, pat), m.expand(t)))
        if applied != [(ast_row, f"meta/ast/{e}")]:
            bad.append((e, applied[:3]))
        ctx.count("meta-ast-oracle-hypotheses", e, nontrivial=True)
    if bad:
        ctx.broken.append("hyp:C14_meta_ast")
        ctx.notes.append({"C14_meta_ast hypotheses fail for the real regex engine / table": bad})
    ctx.cov["meta_ast_error_names"] = sorted(names)


def stream_classes(ctx, n):
    """Implementation-only: exception classes of ast.parse / Cleanup('full').run on the malformed stream."""
    from paroxython.preprocess_source import Cleanup
    full = Cleanup("full")
    outside = []
    for _ in range(n):
        t, _k = mutate(ctx.rng, ctx.rng.choice(VALID))
        if ctx.rng.random() < 0.3:
            t, _k = mutate(ctx.rng, t)
        try:
            ast.parse(t)
        except (SyntaxError, ValueError) as e:
            ctx.dist(f"classes.ast.{type(e).__name__}")
        except Exception as e:  # noqa
            outside.append({"text": t, "exc": type(e).__name__})
        try:
            full.run(t)
        except Exception as e:  # noqa
            ctx.dist(f"classes.clean.{type(e).__name__}")
        ctx.count("exception-classes", None)
    ctx.cov["ast_parse_classes_outside_assumption"] = outside[:5]
    return outside


def run(ctx):
    import warnings
    warnings.simplefilter("ignore")
    core.prove(ctx)
    core.import_repo()
    drv = core.Driver()
    orc = Oracle()
    quick = ctx.tier == "quick"
    ctx.cov["rule"] = (
        "directories: distinct (directory, cleanup strategy) holding at least one file that is not valid non-empty "
        "Python; tag: distinct text that is not valid non-empty Python; others-unaffected: distinct directory with a "
        "bad file removed"
    )
    try:
        outside = stream_classes(ctx, 1500 if quick else 30000)
        for o in outside[:1]:
            ctx.violations.append({"what": f"ast.parse raises {o['exc']}, a class ProgramParser does not catch",
                                   "replay": {"kind": "class", "text": o["text"], "impl": o["exc"],
                                              "model": "ParseCaught is an assumption", "spec": "SyntaxError/ValueError"}})
        stream_tag(ctx, drv, orc, 50 if quick else 400)
        stream_dirs(ctx, drv, orc, 100 if quick else 1200)
        if orc.prepare_errors:
            ctx.notes.append({"get_program raised on hint-free texts": orc.prepare_errors[:5]})
            if not ctx.violations:
                ctx.broken.append("oracle:get_program-raises")
        names = {"EmptyProgramError", "SyntaxError", "IndentationError", "TabError", "ValueError"}
        names |= {k.split(".")[-1] for k in ctx.cov["distribution"] if ".parse." in k and k.split(".")[-1][:1].isupper()}
        check_meta_ast_hypotheses(ctx, names)
    finally:
        drv.close()
    ctx.cov["proved"] = [t for t, ax in ctx.cov.get("theorems", {}).items() if ax != "DOES-NOT-CHECK"]
    ctx.cov["exercised_only"] = [
        "which exception class CPython's tokenizer (inside Cleanup.full_cleaning) and ast.parse raise on a given text "
        "(recorded per text and fed to the model; an implementation-only stream looks for classes outside "
        "SyntaxError/ValueError)",
        "the taxonomy maps ast_construction:<E> to the single taxon meta/ast/<E> (checked on the implementation's output "
        "by c14.spec_check; `toTaxa` is an oracle in the theorems)",
        "the feature search does not raise on valid programs (FeaturesTotal is a hypothesis; DESIGN finding 17 is an input where it does)",
    ]
    ctx.cov["trusted_base"] = core.BASE_TRUST + [
        "the externals clean/prepare/parse/features are parameters of the model; the harness instantiates them with the "
        "recorded behaviour of Cleanup.run, get_program, ast.parse and ProgramParser.__call__ on the very texts of the case",
        "C11's model of make_db.py (Paroxy.DB.makeDb) for the database assembly",
    ]
    ctx.assumptions += [
        "texts contain no Paroxython hint comment (property quantifier); nesting below the interpreter's limits",
        "ast.parse raises only SyntaxError/ValueError instances whose class name has no colon (ParseCaught)",
    ]
    if (not ctx.proofs_ok or ctx.broken) and not any(v.get("signature") is None for v in ctx.violations):
        ctx.violations.append({
            "no_input": True, "what": "a proof or a correspondence stream no longer checks",
            "replay": {"kind": "no-failing-input-found", "no_longer_checks": ctx.broken,
                       "build_errors": ctx.cov.get("build_errors"), "notes": ctx.notes[:5], "searched": ctx.cov["streams"]}})
    return core.finish(ctx)


def replay(ctx, path):
    core.import_repo()
    obj = json.loads(Path(path).read_text(encoding="utf-8"))
    drv = core.Driver()
    try:
        if obj.get("kind") == "directory":
            orc = Oracle()
            root = ctx.scratch_dir() / "replay" / "progs"
            write_files(root, obj["files"])
            v = judge(ctx, drv, orc, obj["files"], root, root.parent, obj.get("cleanup", "full"))
            print(json.dumps({k: v.get(k) for k in ("kind", "what", "info", "impl", "model", "signature")},
                             indent=1, ensure_ascii=False, default=str))
            return 1 if v["kind"] == "violation" else 0
        print(json.dumps(obj, indent=1, ensure_ascii=False))
        return 0
    finally:
        drv.close()
