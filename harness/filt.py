"""Shared generator / runners / shrinker for the filter core (C04, C05, C06, C07, C17).

Databases are generated WELL-FORMED by construction (index = inverse of records, importations
transitively closed, exportations = inverse, an entry for every program): exactly the hypothesis
`Ctx.WF` of the theorems, which C11 establishes for real databases.
"""
import contextlib
import copy
import io
import itertools
from fractions import Fraction

from . import core

TAXA_POOL = [
    "meta/program", "meta/count/x", "a", "a/b", "a/bc", "a/b_c", "a/b/c", "a/b/c/d", "flow/loop",
    "flow/loop/for", "flow/loop/while", "flow/conditional", "op/mult", "op/multiply", "var/assignment",
    "x", "x/y", "call/print", "def/function",
    # non-word characters INSIDE a segment: a pattern stops at a word boundary, not at a slash (seeded change C04-d)
    "import/standard/urllib", "import/standard/urllib.request", "import/standard/xml.etree.ElementTree", "a/b-c", "a/b.c",
    # names that START with "meta" without being under `meta/` (seeded changes C07-c, C17-e): ordinary taxa
    "metaclass/definition", "meta", "meta_x/y", "meta-programming/x",
    # taxa under meta/ other than meta/program: `add_imported_taxa` does not copy them under the importers, so that an
    # importer meets such a pattern through its imports only via the exportations (seed C04-l: `programs_of_taxa(follow)`
    # rewritten over the copied taxa)
    "meta/topic/game", "meta/count/sloc/5",
]
# some paths, read as regular expressions, match OTHER paths too ("q.py" matches "q_py.py", "zz.py" matches "zzapy.py"):
# a `.py` criterion is a pattern matched from the start, never a mere path (seeded change C04-c)
PROG_POOL = ["p1.py", "p2.py", "p10.py", "dir/p1.py", "dir/q.py", "q.py", "zz.py", "p1_bis.py", "q_py.py", "zzapy.py", "p1.pyx.py"]
TAXON_PATTERNS = [
    "a", "a/b", "a/b$", "a/(b|bc)", "a/b.", "flow", "flow/loop", "flow/lo", "flow/.*for", ".*", "op|var", "op/mult",
    "op/mult$", "meta", "meta/program", "x", "x/y", "nothing/here", "var/assignment", "call", "a/b/c", "a/b_", "def/function",
    "flow/conditional", "[ax]", "import/standard/urllib", "import/standard/xml", "import/standard/xml.etree", "a/b-",
    "import/standard/urllib\\.", "import",
    # constructs of the documented dialect (the third-party `regex` module) that the stdlib `re` reads differently or
    # rejects (seeded change C04-h): POSIX classes, possessive quantifiers, Unicode properties
    "[[:lower:]]+/b", "a/[[:alpha:]]", "flow/[[:lower:]]++", "\\p{L}+/\\p{L}+", "op/mult(?|iply|)",
]
PROG_PATTERNS = ["p1.py", "p1\\.py", "dir/.*\\.py", "q.py", ".*\\.py", "p.*py$|zz.py", "zz.py", "nothing.py", "p1_bis.py", "(dir/)?p1.py",
                 "p[[:digit:]]+\\.py", "[[:lower:]]++[[:digit:]]*\\.py", "\\p{Ll}\\d?\\.py"]
PREDICATES = [
    "contains", "inside", "after", "before", "is", "equals", "x≤y≤y≤x", "x<y", "y1 < x1 == x2 <= y2", "x == y",
    "overlaps", "meets", "started by", "finishes", "in", "y≤x≤x≤y", "x<x<y<y", "x=x=y=y", "X <= Y", "during",
]
NEG_FORMS = [("", ""), ("", ""), ("not ", ""), ("!", ""), ("is not ", ""), ("", " not"), ("! ", ""),
             # "adding the word not": any white space separates it (seeded change C05-e: literal "not " only)
             ("not\t", ""), ("", "\tnot"), ("not\n", ""), ("not  ", ""), ("NOT\t", ""), ("  !", ""), ("", " \t not")]
BAD_PREDICATES = ["foobar", "x>y", "is  after", ""]
OPERATIONS = ["include", "exclude", "impart", "hide", "include all", "exclude all", "include any", "exclude any",
              "include", "exclude"]
ODD_OPERATIONS = ["include all all", "delete", "hide all", "impart any", "exclude  all", "Include"]


def gen_span(rng, n):
    a = rng.randint(1, n)
    b = rng.randint(a, n) if rng.random() < 0.6 else a
    return [a, b]


def gen_db(rng, max_programs=6, meta_program="mostly", imports=True, min_programs=1, import_p=0.6, edge_p=0.3):
    k = rng.randint(min_programs, max_programs)
    paths = rng.sample(PROG_POOL, k)
    programs = {}
    lines = {}
    for p in paths:
        # mostly short listings; one in seven is long, so that two-digit line numbers and long span enumerations (wrapped
        # into <details> by the report) occur
        n = rng.randint(2, 7) if rng.random() < 0.85 else rng.randint(12, 40)
        lines[p] = n
        taxa = {}
        present = meta_program == "always" or (meta_program == "mostly" and rng.random() < 0.85)
        if present:
            taxa["meta/program"] = [[1, n]]
        for t in rng.sample(TAXA_POOL[1:], rng.randint(0, 5)):
            cnt = rng.choice([1, 1, 1, 2, 2, 3]) if rng.random() < 0.9 else rng.randint(8, 14)
            spans = [gen_span(rng, n) for _ in range(cnt)]
            if cnt > 1 and rng.random() < 0.3:
                spans[1] = list(spans[0])  # duplicate span value
            taxa[t] = sorted(spans)
        # keep a plausible dict order: sorted names, as make_db does
        programs[p] = {"source": "\n".join(f"line{i}" for i in range(1, n + 1)), "taxa": dict(sorted(taxa.items())), "labels": {}}
    direct = {p: set() for p in paths}
    if imports and k > 1 and rng.random() < import_p:
        order = list(paths)
        rng.shuffle(order)
        for i, p in enumerate(order):
            for q in order[:i]:
                if rng.random() < edge_p:
                    direct[p].add(q)
    closure = {}

    def close(p):
        if p not in closure:
            r = set()
            for q in direct[p]:
                r.add(q)
                r |= close(q)
            closure[p] = r
        return closure[p]

    for p in paths:
        close(p)
    importations = {p: sorted(closure[p]) for p in sorted(paths)}
    exportations = {p: sorted(q for q in paths if p in closure[q]) for p in sorted(paths)}
    taxa_index = {}
    for p in sorted(paths):
        for t in programs[p]["taxa"]:
            taxa_index.setdefault(t, []).append(p)
    return {
        "programs": {p: programs[p] for p in sorted(paths)},
        "taxa": dict(sorted(taxa_index.items())),
        "labels": {},
        "importations": importations,
        "exportations": exportations,
    }


def gen_taxon_pattern(rng, db):
    r = rng.random()
    names = list(db["taxa"]) or TAXA_POOL
    if r < 0.45:
        t = rng.choice(names)
        if rng.random() < 0.4:
            cut = rng.randint(1, len(t))
            t = t[:cut]
        return t
    return rng.choice(TAXON_PATTERNS)


def gen_predicate(rng, negated=None, bad_ok=True):
    if bad_ok and rng.random() < 0.03:
        return rng.choice(BAD_PREDICATES)
    pre, post = rng.choice(NEG_FORMS) if negated is None else (rng.choice([f for f in NEG_FORMS if (f != ("", "")) == negated]))
    return pre + rng.choice(PREDICATES) + post


def gen_criterion(rng, db, op, triple_p=0.35, negated=None, bad_ok=True):
    if op in ("impart", "hide") or rng.random() > triple_p:
        if rng.random() < 0.3:
            progs = list(db["programs"])
            return rng.choice(progs + PROG_PATTERNS) if rng.random() < 0.6 else rng.choice(PROG_PATTERNS)
        return gen_taxon_pattern(rng, db)
    p1 = gen_taxon_pattern(rng, db)
    p2 = p1 if rng.random() < 0.3 else gen_taxon_pattern(rng, db)
    return [p1, gen_predicate(rng, negated, bad_ok), p2]


def gen_command(rng, db, ops=None, odd=True, **kw):
    operation = rng.choice(ops or OPERATIONS)
    if odd and rng.random() < 0.04:
        operation = rng.choice(ODD_OPERATIONS)
    base = operation.split()[0].lower() if operation.split() else operation
    n = rng.choice([1, 1, 1, 2, 2, 3]) if rng.random() > 0.03 else 0
    return {"operation": operation, "data": [gen_criterion(rng, db, base, **kw) for _ in range(n)]}


def gen_pipeline(rng, db, n, reuse_p=0.35, **kw):
    """Commands for one filter. A taxon pattern met earlier in the pipeline is reused with probability `reuse_p`
    (alone or inside a triple): commands that resolve to the same set of taxa must not influence one another
    (seeded change C06-d: a memoised set of programs mutated in place by a negated triple)."""
    memory, cmds = [], []
    for _ in range(n):
        c = gen_command(rng, db, **kw)
        data = []
        for crit in c["data"]:
            if memory and isinstance(crit, str) and not crit.endswith(".py") and rng.random() < reuse_p:
                crit = rng.choice(memory)
            elif memory and isinstance(crit, list):
                crit = [rng.choice(memory) if rng.random() < reuse_p else crit[0], crit[1],
                        rng.choice(memory) if rng.random() < reuse_p / 2 else crit[2]]
            data.append(crit)
        c["data"] = data
        cmds.append(c)
        for crit in data:
            for pat in ([crit] if isinstance(crit, str) else [crit[0], crit[2]]):
                if not pat.endswith(".py") and pat not in memory:
                    memory.append(pat)
    return cmds


def all_patterns(cmds):
    out = []
    for c in cmds:
        for crit in c.get("data", []):
            if isinstance(crit, str):
                out.append(crit)
            else:
                out += [crit[0], crit[2]]
    return list(dict.fromkeys(out))


def oracle_for(db, cmds):
    """The regex engine's answers, computed with the real `regex` module exactly as the property
    words them: a taxon pattern matches a taxon from the start up to a word boundary; a program
    pattern matches a path from the start."""
    import regex

    taxon, prog = [], []
    for pat in all_patterns(cmds):
        mt = regex.compile(f"{pat}\\b").match
        mp = regex.compile(pat).match
        taxon.append([pat, [t for t in db["taxa"] if mt(t)]])
        prog.append([pat, [p for p in db["programs"] if mp(p)]])
    return {"taxon": taxon, "prog": prog}


def db_to_driver(db):
    return {
        "programs": [[p, [[t, spans] for t, spans in info["taxa"].items()]] for p, info in db["programs"].items()],
        "taxa": [[t, ps] for t, ps in db["taxa"].items()],
        "importations": [[p, qs] for p, qs in db["importations"].items()],
        "exportations": [[p, qs] for p, qs in db["exportations"].items()],
    }


def model_request(db, cmds, strategy="zeno"):
    return {"op": "flt.run", "db": db_to_driver(db), "oracle": oracle_for(db, cmds), "cmds": cmds, "strategy": strategy}


def frac(x):
    f = Fraction(x)
    return f"{f.numerator}/{f.denominator}"


def to_py_cmds(cmds):
    """Triples are tuples in a real pipeline file (lists work too); keep lists -> tuples to be faithful."""
    out = []
    for c in cmds:
        if not isinstance(c, dict) or "raw" in c:
            out.append(c["raw"] if isinstance(c, dict) else c)  # a command handed over as is (malformed / shell forms)
            continue
        out.append({"operation": c["operation"], "data": [x if isinstance(x, str) else tuple(x) for x in c["data"]]})
    return out


def run_real(db, cmds, strategy="zeno", steps=False, split=False):
    """Recommendations(db).run_pipeline(cmds) on the real code -> canonical dict. With `split`, the commands are given
    one `run_pipeline` call at a time to the SAME recommender (successive commands are successive commands, however
    they are handed over; seeded change C06-e)."""
    from paroxython.recommend_programs import Recommendations

    def once(cs):
        d = copy.deepcopy(db)
        with contextlib.redirect_stdout(io.StringIO()), contextlib.redirect_stderr(io.StringIO()):
            try:
                rec = Recommendations(d, assessment_strategy=strategy)
                if split:
                    for c in cs:
                        rec.run_pipeline(to_py_cmds([c]))
                    if not cs:
                        rec.run_pipeline([])
                else:
                    rec.run_pipeline(to_py_cmds(cs))
            except Exception as exc:  # noqa
                return {"exc": type(exc).__name__}, None
        st = {
            "selected": sorted(rec.selected_programs),
            "knowledge": sorted(rec.imparted_knowledge),
            "hiddenTaxa": sorted(rec.hidden_taxa),
            "hiddenPrograms": sorted(rec.hidden_programs),
        }
        return st, rec

    final, rec = once(cmds)
    if rec is None:
        return final
    out = {
        "final": final,
        "ranking": [[frac(c), p] for c, p in rec.assessed_programs],
        "records": [[p, sorted(info["taxa"])] for p, info in rec.db_programs.items()],
    }
    if steps:
        out["steps"] = []
        for i in range(1, len(cmds) + 1):
            st, r = once(cmds[:i])
            out["steps"].append(st)
    return out


def canon_model(m, steps=False):
    if "exc" in m:
        return {"exc": m["exc"]}
    out = {"final": m["final"], "ranking": m["ranking"], "records": m["records"]}
    if steps:
        out["steps"] = m["steps"]
    return out


def compare(db, cmds, drv, strategy="zeno", steps=False):
    """-> (equal?, impl, model)"""
    impl = run_real(db, cmds, strategy, steps)
    model = canon_model(drv.call(**model_request(db, cmds, strategy)), steps)
    return impl == model, impl, model


# ------------------------------------------------------------------------------------ shrinking

def _drop_program(db, p):
    d = copy.deepcopy(db)
    d["programs"].pop(p)
    for k in ("importations", "exportations"):
        d[k].pop(p, None)
        for q in d[k]:
            d[k][q] = [x for x in d[k][q] if x != p]
    for t in list(d["taxa"]):
        d["taxa"][t] = [x for x in d["taxa"][t] if x != p]
        if not d["taxa"][t]:
            del d["taxa"][t]
    return d


def _drop_taxon(db, p, t):
    d = copy.deepcopy(db)
    d["programs"][p]["taxa"].pop(t)
    d["taxa"][t] = [x for x in d["taxa"][t] if x != p]
    if not d["taxa"][t]:
        del d["taxa"][t]
    return d


def shrink(db, cmds, still_fails, budget=400):
    """Greedy delta debugging on (db, cmds): remove commands, criteria, programs, taxa, spans, imports."""
    changed = True
    while changed and budget > 0:
        changed = False
        for i in range(len(cmds)):
            cand = cmds[:i] + cmds[i + 1:]
            budget -= 1
            if still_fails(db, cand):
                cmds, changed = cand, True
                break
        if changed:
            continue
        for i, c in enumerate(cmds):
            for j in range(len(c["data"])):
                if len(c["data"]) <= 1:
                    continue
                cand = copy.deepcopy(cmds)
                del cand[i]["data"][j]
                budget -= 1
                if still_fails(db, cand):
                    cmds, changed = cand, True
                    break
            if changed:
                break
        if changed:
            continue
        for p in list(db["programs"]):
            if len(db["programs"]) <= 1:
                break
            cand = _drop_program(db, p)
            budget -= 1
            if still_fails(cand, cmds):
                db, changed = cand, True
                break
        if changed:
            continue
        for p in list(db["programs"]):
            for t in list(db["programs"][p]["taxa"]):
                cand = _drop_taxon(db, p, t)
                budget -= 1
                if still_fails(cand, cmds):
                    db, changed = cand, True
                    break
                spans = db["programs"][p]["taxa"][t]
                if len(spans) > 1:
                    cand = copy.deepcopy(db)
                    cand["programs"][p]["taxa"][t] = spans[:-1]
                    budget -= 1
                    if still_fails(cand, cmds):
                        db, changed = cand, True
                        break
            if changed:
                break
        if changed:
            continue
        if any(db["importations"][p] for p in db["importations"]):
            cand = copy.deepcopy(db)
            for p in cand["importations"]:
                cand["importations"][p] = []
                cand["exportations"][p] = []
            budget -= 1
            if still_fails(cand, cmds):
                db, changed = cand, True
    return db, cmds


def nontrivial(impl, db):
    """The pipeline changed something and the final selection is neither empty nor everything."""
    if "exc" in impl:
        return False
    f = impl["final"]
    n = len(db["programs"])
    return 0 < len(f["selected"]) < n or bool(f["knowledge"]) or bool(f["hiddenTaxa"]) or bool(f["hiddenPrograms"])


def report_disagreement(ctx, pid_what, db, cmds, drv, strategy="zeno", steps=False, signature=None):
    """impl ≠ model on a well-formed database: by the proved theorems model = specification, so the
    implementation violates the property on this input. Shrink and record."""

    def still(d, c):
        try:
            eq, _, _ = compare(d, c, drv, strategy, steps)
            return not eq
        except core.MachineryError:
            return False
        except Exception:  # noqa
            return False

    sdb, scmds = shrink(db, cmds, still)
    eq, impl, model = compare(sdb, scmds, drv, strategy, steps)
    ctx.violations.append({
        "what": pid_what,
        "signature": signature,
        "replay": {
            "kind": "filter-disagreement", "db": sdb, "cmds": scmds, "strategy": strategy, "steps": steps,
            "impl": impl, "model(=spec, by the theorems)": model,
            "how": "Recommendations(db).run_pipeline(cmds) vs the Lean model driver op flt.run",
        },
    })


def replay(ctx, path):
    import json

    core.import_repo()
    obj = json.load(open(path, encoding="utf-8"))
    drv = core.Driver()
    eq, impl, model = compare(obj["db"], obj["cmds"], drv, obj.get("strategy", "zeno"), obj.get("steps", False))
    print("impl :", json.dumps(impl, ensure_ascii=False))
    print("model:", json.dumps(model, ensure_ascii=False))
    print("equal:", eq)
    drv.close()
    return 0 if eq else 1
