"""C18 — the command line does what the library does, for every option.

Proved (lean/Paroxy/Props/C18.lean): the documented decision rules on the *plans* the wrappers compute from
the option record and file-system facts.  Tie = correspondence, in a scratch tree:

 * `paths`      — the pathlib model (parse / parent / name / str / resolve) against `pathlib`, bounded-exhaustive;
 * `names`      — `prefixOf` against the prefix `recommend` really applies (observed through the default report name),
                  the structural default skip (R3) against `regex.fullmatch` of the model's default pattern,
                  bounded-exhaustive; `default-patterns` — what list_programs / collect list without options;
 * `listing`    — `list_programs` on generated directories against `selectPrograms` fed with the real glob
                  result and the real `fullmatch` answers (R1 oracles);
 * `collect` / `recommend` / `tag` — the real entry point `paroxython.cli.main()` (sys.argv patched, in-process)
                  on random option combinations: exit / files written / stdout compared with what the model's
                  plan prescribes, the content being produced by the LIBRARY call the plan names
                  (`TagDatabase(**plan).get_json()`, `Recommendations(**plan)`, `cli_tag.main(**plan)`);
 * `module-entry` — once per run `python -m paroxython.cli …` with PYTHONPATH=$PAROXY_REPO;
 * `collect-twice` — `collect`, then `collect` AGAIN onto the SAME output (explicit `-o` .json / .sqlite / .sql and the
                  default DIRECTORY_db.json; in-process and `python -m paroxython.cli`) with a glob / skip selecting a
                  smaller, larger, disjoint or equal set, after deleting / adding a source file, or from another
                  directory: the file must hold exactly the database the library builds for the SECOND run (JSON text
                  = `get_json()`, SQLite rows = rows of a fresh `write_sqlite`), listing exactly the files the second
                  glob / skip select.

docopt, glob, file I/O and the library calls themselves are outside the model (exercised only).
"""
import contextlib
import hashlib
import io
import itertools
import json
import os
import re
import shutil
import sqlite3
import subprocess
import sys
import warnings
from ast import literal_eval
from pathlib import Path

from . import core

PROGRAMS = {
    "a.py": "x = 1\nprint(x)\n",
    "b.py": "for i in range(3):\n    print(i)  # paroxython: my_hint\n",
    "b_test.py": "assert 1 + 1 == 2\n",
    "__init__.py": "",
    "setup.py": "import sys\n",
    "sub/c.py": "import a\n\ndef f(n):\n    \"\"\"Doc.\"\"\"\n    return n + 1\n",
    "sub/d-tests.py": "y = [1, 2]\n",
}
SIBLING_TAXONOMY = "Taxa\tLabels\nsibling/\\1\t(.+)\n"
EXPLICIT_TAXONOMY = "Taxa\tLabels\nexplicit/\\1\t([a-z_]+).*\nexplicit/other\t.*[A-Z].*\n"
PIPELINES = {
    "progs_pipe.py": '[{"operation": "include", "data": ["sibling/.*", "var.*", "explicit/.*", "flow.*", "call.*", "def.*", "import.*", "meta.*"]}]\n',
    "progs-pipe.py": '[{"operation": "exclude", "data": ["a.py"]}]\n',
    "custom_pipe.py": '[{"operation": "impart", "data": ["flow/loop"]}, {"operation": "hide", "data": ["b.py"]}]\n',
    "base_pipe.py": '[{"operation": "exclude", "data": "cat {base_path}/criteria.txt"}]\n',
    "bad_pipe.py": "[{'operation': 'include', 'data': [}\n",
    "pipe.py": '[{"operation": "include", "data": ["sub/c.py"]}]\n',
}


# ----------------------------------------------------------------------------------------- helpers

def snapshot(root):
    out = {}
    for p in sorted(root.rglob("*")):
        if p.is_file():
            out[str(p)] = hashlib.blake2b(p.read_bytes(), digest_size=8).hexdigest()
    return out


def listing(root):
    dirs, files = [str(root)], []
    for p in root.rglob("*"):
        (dirs if p.is_dir() else files).append(str(p))
    # ancestors of the scratch root exist as directories too
    q = root
    while q != q.parent:
        q = q.parent
        dirs.append(str(q))
    return dirs, files


def world_of(root, cwd):
    dirs, files = listing(root)
    bad, unreadable = [], []
    for f in files:
        try:
            text = Path(f).read_text()
        except Exception:  # noqa
            unreadable.append(f)
            continue
        if f.endswith(".py") and Path(f).parent == root:
            try:
                literal_eval(text)
            except Exception:  # noqa
                bad.append(f)
    return {"dirs": dirs, "files": files, "badPipes": bad, "unreadable": unreadable, "cwd": str(cwd)}


def run_cli(cli, argv, cwd):
    """The real entry point, in-process. Returns dict(exit=..., stdout=..., stderr=..., exc=...)."""
    old_argv, old_cwd = sys.argv, os.getcwd()
    out, err = io.StringIO(), io.StringIO()
    res = {"exit": None, "exc": None}
    os.chdir(cwd)
    sys.argv = ["paroxython"] + list(argv)
    try:
        with contextlib.redirect_stdout(out), contextlib.redirect_stderr(err):
            try:
                cli.main()
            except SystemExit as exc:
                res["exit"] = exc.code if exc.code is not None else 0
            except Exception as exc:  # noqa
                res["exc"] = type(exc).__name__
    finally:
        sys.argv = old_argv
        os.chdir(old_cwd)
    res["stdout"], res["stderr"] = out.getvalue(), err.getvalue()
    return res


def docopt_args(mod, command, argv):
    """The option record, obtained exactly as cli.main() obtains it (docopt is outside the model)."""
    from docopt import docopt

    doc = re.sub(r"(?m)^ *```.*\n", "", mod.__doc__)
    with contextlib.redirect_stdout(io.StringIO()), contextlib.redirect_stderr(io.StringIO()):
        return dict(docopt(doc, argv=[command] + list(argv)))


def sqlite_dump(path):
    con = sqlite3.connect(path)
    try:
        return "\n".join(con.iterdump())
    finally:
        con.close()


def in_dir(cwd):
    @contextlib.contextmanager
    def cm():
        old = os.getcwd()
        os.chdir(cwd)
        try:
            yield
        finally:
            os.chdir(old)
    return cm()


def quiet():
    return contextlib.redirect_stdout(io.StringIO())


# ------------------------------------------------------------------------------- model validation

def stream_paths(ctx, drv):
    alphabet = ["/", "a", ".", "..", "b.py", "-"]
    maxlen = 5 if ctx.tier == "quick" else 7
    cases = ["".join(t) for n in range(maxlen + 1) for t in itertools.product(alphabet, repeat=n)]
    cases = [c for c in cases if not (c.startswith("//") and not c.startswith("///"))]  # POSIX `//` root: not modelled
    cwd = "/w/x"
    res = drv.call("c18.model.paths", paths=cases, cwd=cwd)["r"]
    for c, m in zip(cases, res):
        p = Path(c)
        resolved = os.path.normpath(os.path.join(cwd, c)) if c else cwd
        impl = [str(p), str(p.parent), p.name, resolved]
        ctx.count("paths", c, nontrivial=str(p) != c)
        if impl != m:
            ctx.cov["disagreements_checked"] += 1
            ctx.broken.append("corr:paths")
            ctx.notes.append(f"pathlib model: {c!r}: impl {impl} model {m}")
            return
    ctx.cov.setdefault("exhaustive_streams", {})["paths"] = {"alphabet": alphabet, "all_sequences_up_to_length": maxlen}
    ctx.sample({"stream": "paths", "input": "a/./b//../c.py", "impl": [str(Path("a/./b//../c.py")), str(Path("a/./b//../c.py").parent)],
                "model": drv.call("c18.model.paths", paths=["a/./b//../c.py"], cwd=cwd)["r"][0][:2]})


EMPTY_DB = '{"programs": {}, "labels": {}, "taxa": {}, "importations": {}, "exportations": {}}\n'


def observed_prefix(cli, box, name):
    """The prefix rule as `paroxython recommend` APPLIES it (no reading of its source): with a database called
    `name`, the empty pipeline and no `-o`, the report is written as PREFIX + "recommendations.md"."""
    for p in box.iterdir():
        p.unlink()
    (box / name).write_text(EMPTY_DB)
    impl = run_cli(cli, ["recommend", "--pipe=[]", "./" + name], box)
    written = sorted(p.name for p in box.iterdir() if p.name != name)
    if impl["exit"] not in (None, 0) or impl["exc"] or len(written) != 1 or not written[0].endswith("recommendations.md"):
        return None, {"exit": str(impl["exit"]), "exc": impl["exc"], "written": written}
    return written[0][:-len("recommendations.md")], None


def stream_names(ctx, drv, cli, root):
    import regex

    spec = drv.call("c18.spec.names", names=[])
    quick = ctx.tier == "quick"
    # (a) the prefix rule, behaviourally: every file name over the token alphabet up to the stated length
    alphabet, maxlen = ["db.json", "_", "-", "a", ".", "db", "json", "x_"], (3 if quick else 4)
    names = ["".join(t) for n in range(1, maxlen + 1) for t in itertools.product(alphabet, repeat=n)]
    names = sorted({n for n in names if n not in (".", "..") and not n.endswith("recommendations.md")})
    box = root / "prefix-box"
    box.mkdir()
    model = drv.call("c18.spec.names", names=names)["prefix"]
    for n, m in zip(names, model):
        impl, err = observed_prefix(cli, box, n)
        ctx.count("names:prefix", n, nontrivial=bool(impl))
        if impl != m:
            ctx.cov["disagreements_checked"] += 1
            replay = {"kind": "prefix", "db_name": n, "impl": impl if err is None else err, "model": m}
            if err is None:
                ctx.violations.append({"what": "paroxython recommend: the default report name does not follow the documented PREFIX rule",
                                       "replay": replay, "signature": None})
            else:
                ctx.broken.append("corr:names:prefix")
                ctx.notes.append(json.dumps(replay, ensure_ascii=False))
            shutil.rmtree(box)
            return
    shutil.rmtree(box)
    ctx.cov.setdefault("exhaustive_streams", {})["names:prefix"] = {"alphabet": alphabet, "all_sequences_up_to_length": maxlen,
                                                                    "observed_through": "default report name of `recommend --pipe=[] NAME`"}
    # (b) R3: the structural default skip of the model = the regex engine on the MODEL's default pattern
    #     (what list_programs / collect really do without options is pinned down behaviourally in `listing`)
    skip_re = regex.compile(spec["defaultSkip"])
    alphabet, maxlen = ["__init__", "setup", "test", "tests", "-", "_", ".py", "a", ".", "s", "\n"], (4 if quick else 5)
    names = ["".join(t) for n in range(maxlen + 1) for t in itertools.product(alphabet, repeat=n)]
    r = drv.call("c18.spec.names", names=names)
    for i, n in enumerate(names):
        impl, model = bool(skip_re.fullmatch(n)), r["defaultSkips"][i]
        ctx.count("names:default-skip", n, nontrivial=bool(impl))
        if impl != model:
            ctx.cov["disagreements_checked"] += 1
            ctx.broken.append("corr:names:default-skip")
            ctx.notes.append(f"names:default-skip: {n!r}: regex {impl!r} model {model!r}")
            return
    ctx.cov.setdefault("exhaustive_streams", {})["names:default-skip"] = {"alphabet": alphabet, "all_sequences_up_to_length": maxlen}


DEFAULTS_DIR = ["__init__.py", "setup.py", "x_test.py", "y_tests.py", "z-test.py", "w-tests.py", "test_a.py", "b.py", "sub/c.py",
                "sub/__init__.py", "d.txt", "e.pyc", ".hidden", ".dot.py", "sub/deep/f_test.py", "sub/deep/g.py", "setup.py.py",
                "tests.py", "a-b.py", "a/b.py"]


def stream_default_patterns(ctx, drv, cli, lp_mod, root):
    """The default glob / skip patterns pinned down by what they DO: `list_programs(directory)` and `collect DIRECTORY`
    without --glob / --skip on a fixed directory, against the model's listing under ITS default patterns."""
    spec = drv.call("c18.spec.names", names=[])
    d = root / "defaults" / "progs"
    for f in DEFAULTS_DIR:
        (d / f).parent.mkdir(parents=True, exist_ok=True)
        (d / f).write_text("x = 1\n")
    globbed = list(d.glob(spec["defaultGlob"]))
    rel = [str(p.relative_to(d)) for p in globbed]
    sk = drv.call("c18.spec.names", names=[p.name for p in globbed])["defaultSkips"]
    model = drv.call("c18.model.select", paths=rel, skips=sk)["r"]
    with quiet():
        impl_lib = [p.path for p in lp_mod.list_programs(d, cleanup_strategy="none")]
    res = run_cli(cli, ["collect", "--no_timestamp", "-o", "out.json", "progs"], d.parent)
    out = d.parent / "out.json"
    impl_cli = list(json.loads(out.read_text())["programs"]) if out.exists() else {"exit": str(res["exit"]), "exc": res["exc"]}
    ctx.count("default-patterns", "list_programs", nontrivial=True)
    ctx.count("default-patterns", "collect", nontrivial=True)
    for what, impl in (("list_programs(directory)", impl_lib), ("paroxython collect DIRECTORY", impl_cli)):
        if impl != model:
            ctx.cov["disagreements_checked"] += 1
            ctx.violations.append({
                "what": f"{what} without glob / skip options does not list the files the documented default patterns select",
                "replay": {"kind": "default-patterns", "files": DEFAULTS_DIR, "impl": impl, "model": model,
                           "spec": {"glob": spec["defaultGlob"], "skip": spec["defaultSkip"]}},
                "signature": None})
            break
    ctx.sample({"stream": "default-patterns", "files": DEFAULTS_DIR, "impl": impl_lib, "model": model}, limit=14)
    shutil.rmtree(root / "defaults")


def stream_listing(ctx, drv, lp_mod, root):
    import regex

    spec = drv.call("c18.spec.names", names=[])
    n_cases = 300 if ctx.tier == "quick" else 3000
    pool = ["a.py", "b.py", "a-b.py", "a_test.py", "x-tests.py", "test.py", "tests.py", "setup.py", "__init__.py",
            "__init__.pyc", "A.PY", "é.py", ".hidden.py", "a.txt", "ab.py", "a.py.py", "setup_.py", "b-test.py",
            "conftest.py", "a b.py", "z.py"]
    subdirs = ["", "", "sub", "sub/deep", "a", "a-b", "zz", "Sub"]
    globs = ["", "", "*.py", "**/*.py", "sub/*.py", "**/a*.py", "*/*.py", "**/*.txt", "[ab].py", "sub/**/*.py"]
    skips = ["", "", "", r"a.*", r".*_test\.py", r"(a|b)\.py", r".*", r"sub/.*", r"[^.]+\.py", r"A\.PY|é\.py", r"\..*"]
    for i in range(n_cases):
        d = root / f"ls{i}"
        files = set()
        for _ in range(ctx.rng.randrange(0, 9)):
            sd = ctx.rng.choice(subdirs)
            files.add((sd + "/" if sd else "") + ctx.rng.choice(pool))
        d.mkdir()
        for f in files:
            (d / f).parent.mkdir(parents=True, exist_ok=True)
            (d / f).write_text("x = 1  # paroxython: h\n")
        g, s = ctx.rng.choice(globs), ctx.rng.choice(skips)
        try:
            with quiet():
                impl = [p.path for p in lp_mod.list_programs(d, cleanup_strategy="none", glob_pattern=g, skip_pattern=s)]
        except Exception as exc:  # noqa
            impl = f"<{type(exc).__name__}>"
        eg, es = g or spec["defaultGlob"], s or spec["defaultSkip"]
        globbed = [p for p in d.glob(eg)]
        ctx.rng.shuffle(globbed)
        rel = [str(p.relative_to(d)) for p in globbed]
        sk = [bool(regex.fullmatch(es, p.name)) for p in globbed]
        model = drv.call("c18.model.select", paths=rel, skips=sk)["r"]
        ctx.count("listing", (tuple(sorted(files)), g, s), nontrivial=len(globbed) > 1 and any(sk) and not all(sk))
        ctx.dist("listing:default-glob" if not g else "listing:custom-glob")
        ctx.dist("listing:default-skip" if not s else "listing:custom-skip")
        if not s:  # R3: the structural default skip = the engine on the default pattern
            ds = drv.call("c18.spec.names", names=[p.name for p in globbed])["defaultSkips"]
            if ds != sk:
                ctx.broken.append("corr:listing:default-skip")
        if impl != model:
            ctx.cov["disagreements_checked"] += 1
            # the property itself, on the implementation's output: sorted glob minus fully matched names
            expected = [str(p.relative_to(d)) for p in sorted(globbed) if not regex.fullmatch(es, p.name)]
            replay = {"kind": "listing", "files": sorted(files), "glob": g, "skip": s, "impl": impl, "model": model,
                      "spec": expected}
            if impl != expected:
                ctx.violations.append({"what": "list_programs does not list exactly the globbed files whose name the skip pattern does not fully match, sorted",
                                       "replay": replay, "signature": None})
            else:
                ctx.broken.append("corr:listing")
                ctx.notes.append(json.dumps(replay, ensure_ascii=False)[:600])
            return
        shutil.rmtree(d)
    ctx.sample({"stream": "listing", "files": sorted(files), "glob": g, "skip": s, "impl": impl, "model": model})


# ------------------------------------------------------------------------------- workspaces

class Workspace:
    def __init__(self, root, name, make_db_mod):
        self.root = root / name
        self.root.mkdir()
        for rel, text in PROGRAMS.items():
            p = self.root / "progs" / rel
            p.parent.mkdir(parents=True, exist_ok=True)
            p.write_text(text)
        for dotted in ("programs.v2", "tp1.2-sorting"):  # directory names containing a dot (name != stem)
            for rel in ("a.py", "sub/c.py"):
                p = self.root / dotted / rel
                p.parent.mkdir(parents=True, exist_ok=True)
                p.write_text(PROGRAMS[rel])
        (self.root / "mytaxo.tsv").write_text(EXPLICIT_TAXONOMY)
        (self.root / "out").mkdir()
        (self.root / "deep" / "er").mkdir(parents=True)
        for n, t in PIPELINES.items():
            (self.root / n).write_text(t)
        for b, crit in (("base1", "a.py\n"), ("base2", "b.py\nsub/c.py\n")):
            (self.root / b).mkdir()
            (self.root / b / "criteria.txt").write_text(crit)
        (self.root / "binary.py").write_bytes(b"\xff\xfe\x00")
        self.lib_cache = {}
        self.make_db = make_db_mod
        # a database to recommend from, built by the library
        with in_dir(self.root), quiet():
            self.db_text = make_db_mod.TagDatabase(directory=Path("progs"), ignore_timestamps=True).get_json()

    def set_sibling_taxonomy(self, present):
        p = self.root / "taxonomy.tsv"
        if present:
            p.write_text(SIBLING_TAXONOMY)
        elif p.exists():
            p.unlink()

    def library_db(self, plan, cwd=None):
        """`TagDatabase(**plan)` — what the plan prescribes; cached per distinct keyword set."""
        cwd = cwd or self.root
        key = str(cwd) + json.dumps({k: plan[k] for k in ("directory", "ignore_timestamps", "cleanup_strategy", "skip_pattern",
                                                           "glob_pattern", "taxonomy_path")}, sort_keys=True)
        tx = plan["taxonomy_path"]
        if tx is not None:
            full = (cwd / tx) if not os.path.isabs(tx) else Path(tx)
            key += hashlib.blake2b(full.read_bytes() if full.is_file() else b"<missing>", digest_size=8).hexdigest()
        if key not in self.lib_cache:
            with in_dir(cwd), quiet():
                try:
                    db = self.make_db.TagDatabase(
                        directory=Path(plan["directory"]),
                        ignore_timestamps=plan["ignore_timestamps"],
                        cleanup_strategy=plan["cleanup_strategy"],
                        skip_pattern=plan["skip_pattern"],
                        glob_pattern=plan["glob_pattern"],
                        print_performances=plan["print_performances"],
                        taxonomy_path=Path(tx) if tx is not None else None,
                    )
                    tmp = self.root / "out" / "__lib.sqlite"
                    db.write_sqlite(tmp)
                    self.lib_cache[key] = {"json": db.get_json(), "sqlite": sqlite_dump(tmp)}
                    tmp.unlink()
                except BaseException as exc:  # noqa
                    self.lib_cache[key] = {"exc": type(exc).__name__}
        return self.lib_cache[key]


def argv_of(rng, options, positional):
    """Spell the options the way a user may: short or long, `=` or separate."""
    short = {"--output": "-o", "--taxonomy": "-t", "--cleanup": "-c", "--skip": "-e", "--glob": "-g", "--pipe": "-p",
             "--base": "-b", "--cost": "-c", "--format": "-f", "--labels": "-l"}
    argv = []
    items = list(options.items())
    rng.shuffle(items)
    for k, v in items:
        if v is True:
            argv.append(short[k] if k in short and rng.random() < 0.5 else k)
        elif rng.random() < 0.4 and k in short:
            argv += [short[k], v]
        elif rng.random() < 0.5:
            argv.append(f"{k}={v}")
        else:
            argv += [k, v]
    return argv + [positional]


# ------------------------------------------------------------------------------- collect

def collect_fixed_cases(ws):
    """Always run, first: explicit RELATIVE and ABSOLUTE `-t` paths × DIRECTORY given as a nested relative path,
    an absolute path and `.`/`..`-relative forms — the current directory being different from DIRECTORY's parent —
    with and without a `taxonomy.tsv` next to DIRECTORY, and with a decoy of the same name next to DIRECTORY."""
    root = ws.root
    cases = []
    for cwd, directories, taxos in (
        (root, ["progs/sub", "./progs/sub", "deep/../progs/sub", str(root / "progs" / "sub"), "progs"],
         ["mytaxo.tsv", "./mytaxo.tsv", "deep/../mytaxo.tsv", str(root / "mytaxo.tsv"), None]),
        (root / "deep", ["../progs", "../progs/sub", "./../progs", str(root / "progs")],
         ["../mytaxo.tsv", str(root / "mytaxo.tsv"), None]),
        (root / "progs", ["sub", ".", "../progs"], ["../mytaxo.tsv", None]),
    ):
        for d in directories:
            for t in taxos:
                for sibling in (False, True):
                    opts = {"--no_timestamp": True, "--output": os.path.relpath(root / "out" / "fixed.json", cwd)}
                    if t is not None:
                        opts["--taxonomy"] = t
                    cases.append({"cwd": cwd, "directory": d, "opts": opts, "sibling": sibling, "decoy": False})
    # default output (no -o) for directory names containing a dot, and for `.` / `..` forms
    for cwd, d in ((root, "programs.v2"), (root, "./tp1.2-sorting/"), (root, str(root / "programs.v2")), (root, "deep/../programs.v2"),
                   (root / "deep", "../tp1.2-sorting"), (root / "programs.v2", "."), (root / "progs", "."),
                   (root / "progs" / "sub", ".."), (root, "progs/sub/.."), (root / "progs", "../progs/sub/..")):
        for t in (None, os.path.relpath(root / "mytaxo.tsv", cwd)):
            for sibling in (True, False):
                opts = {"--no_timestamp": True}
                if t is not None:
                    opts["--taxonomy"] = t
                cases.append({"cwd": cwd, "directory": d, "opts": opts, "sibling": sibling, "decoy": False, "keep": True})
    # a file with the name of the explicit taxonomy next to DIRECTORY must not be preferred to the one named
    cases.append({"cwd": root, "directory": "progs/sub", "opts": {"--taxonomy": "mytaxo.tsv", "--no_timestamp": True},
                  "sibling": False, "decoy": True})
    # relative -o from another directory
    cases.append({"cwd": root / "deep", "directory": "../progs", "opts": {"--output": "../out/rel.json", "--no_timestamp": True},
                  "sibling": True, "decoy": False})
    cases.append({"cwd": root / "deep", "directory": "../progs/sub", "opts": {"--no_timestamp": True}, "sibling": True, "decoy": False})
    return cases


def stream_collect(ctx, drv, cli, ws, n):
    import paroxython.cli_collect as cc

    fixed = collect_fixed_cases(ws)
    if ctx.tier == "quick":  # the whole matrix in thorough; in quick: every (cwd, DIRECTORY, -t) once, sibling alternating
        fixed = [c for k, c in enumerate(fixed) if c["decoy"] or c.get("keep") or "rel.json" in str(c["opts"].get("--output"))
                 or (k // 2 + k) % 2 == 0]
    for i in range(len(fixed) + n):
        r = ctx.rng
        for stale in list(ws.root.rglob("taxonomy.tsv")) + [ws.root / "progs" / "mytaxo.tsv"]:
            if stale.exists():
                stale.unlink()
        if i < len(fixed):
            case = fixed[i]
            cwd, directory, opts = case["cwd"], case["directory"], dict(case["opts"])
            parent = Path(os.path.normpath(cwd / directory)).parent
            if case["sibling"]:
                (parent / "taxonomy.tsv").write_text(SIBLING_TAXONOMY)
            if case["decoy"]:
                (parent / "mytaxo.tsv").write_text(SIBLING_TAXONOMY)
            ctx.dist("collect:fixed-matrix")
        else:
            cwd = ws.root
            ws.set_sibling_taxonomy(r.random() < 0.5)
            directory = r.choice(["progs", "progs", "./progs", "progs/", str(ws.root / "progs"), "progs/sub", "out/../progs",
                                  "nodir", "mytaxo.tsv", "deep/../progs/sub", "programs.v2", "tp1.2-sorting", "./programs.v2/",
                                  "tp1.2-sorting/sub"])
            if directory.endswith("sub") and r.random() < 0.5:
                (ws.root / "progs" / "taxonomy.tsv").write_text(SIBLING_TAXONOMY)
            opts = {}
            if r.random() < 0.45:
                opts["--taxonomy"] = r.choice(["mytaxo.tsv", "mytaxo.tsv", "./mytaxo.tsv", "", str(ws.root / "mytaxo.tsv")])
            if r.random() < 0.6:
                opts["--output"] = r.choice(["out/x.json", "out/y.sqlite", "out/z.sql", "out/w.txt", "out/v.JSON", "x.json",
                                             "out/json", str(ws.root / "out" / "abs.json"), "out/a.sql.json"])
            if r.random() < 0.4:
                opts["--cleanup"] = r.choice(["full", "none", "other"])
            if r.random() < 0.4:
                opts["--skip"] = r.choice([r"b.*", r".*", r"c\.py", r"(__init__|setup)\.py", r"sub/.*"])
            if r.random() < 0.4:
                opts["--glob"] = r.choice(["*.py", "sub/*.py", "**/[ab]*.py", "**/*.py"])
            if r.random() < 0.5:
                opts["--no_timestamp"] = True
        sibling_files = sorted(os.path.relpath(p, ws.root) for p in ws.root.rglob("taxonomy.tsv"))
        argv = ["collect"] + argv_of(r, opts, directory)
        args = docopt_args(cc, "collect", argv[1:])
        model = drv.call("c18.model.collect", args=args, world=world_of(ws.root, cwd))
        before = snapshot(ws.root)
        impl = run_cli(cli, argv, cwd)
        after = snapshot(ws.root)
        written = sorted(k for k in after if before.get(k) != after[k])
        nontrivial = "plan" in model and (bool(opts.get("--taxonomy")) or "--output" in opts or bool(sibling_files))
        ctx.count("collect", json.dumps([argv, str(cwd), sibling_files]), nontrivial=nontrivial)
        problem = None
        expected = None
        if "exit" in model:
            ctx.dist(f"collect:exit:{model['exit']}")
            if impl["exit"] is None or "no directory at" not in str(impl["exit"]) or written:
                problem = "the model stops (no directory) but the command did not"
        else:
            plan = model["plan"]
            kind, path = plan["out"]
            ctx.dist(f"collect:out:{kind}")
            ctx.dist("collect:taxonomy:" + ("bundled" if plan["taxonomy_path"] is None else
                                          "explicit" if opts.get("--taxonomy") else "sibling"))
            lib = ws.library_db(plan, cwd)
            if "exc" in lib:
                ctx.dist(f"collect:library-raises:{lib['exc']}")
                if impl["exc"] != lib["exc"] and not (impl["exit"] not in (None, 0)):
                    problem = f"the library call of the plan raises {lib['exc']}, the command gave {impl['exc'] or impl['exit']}"
            elif impl["exit"] not in (None, 0) or impl["exc"]:
                problem = f"the command stopped ({impl['exit'] or impl['exc']}) where the plan runs"
            else:
                target = None if path is None else str((cwd / path) if not os.path.isabs(path) else Path(path))
                target = None if target is None else os.path.normpath(target)
                expected = {"written": [target] if target else [], "format": kind}
                if [os.path.normpath(w) for w in written] != expected["written"]:
                    problem = f"files written {written}, plan says {expected['written']}"
                elif kind == "json" and Path(target).read_text() != lib["json"]:
                    problem = "the JSON written is not TagDatabase(**plan).get_json()"
                elif kind == "sqlite" and sqlite_dump(target) != lib["sqlite"]:
                    problem = "the SQLite database written is not what TagDatabase(**plan).write_sqlite gives"
        sig = None
        if problem is None and "plan" in model and Path(directory).name in ("", ".."):
            # DIRECTORY is `.`, `..`, `a/..`: its LEXICAL parent (what the code and the model use) is not
            # DIRECTORY/.. — compare with the DOCUMENTED locations instead of the model's plan
            plan = model["plan"]
            real = Path(os.path.normpath(cwd / directory))
            absp = lambda q: None if q is None else os.path.normpath(str(cwd / q) if not os.path.isabs(q) else q)  # noqa
            doc_tax = absp(plan["taxonomy_path"]) if opts.get("--taxonomy") else (
                str(real.parent / "taxonomy.tsv") if (real.parent / "taxonomy.tsv").is_file() else None)
            doc_out = absp(plan["out"][1]) if opts.get("--output") else str(real.parent / f"{real.name}_db.json")
            ctx.dist("collect:dot-directory")
            if doc_tax != absp(plan["taxonomy_path"]) or doc_out != absp(plan["out"][1]):
                problem = (f"DIRECTORY={directory!r}: documented taxonomy {doc_tax} / output {doc_out}, "
                           f"the command used {absp(plan['taxonomy_path'])} / {absp(plan['out'][1])} (lexical parent of DIRECTORY)")
                expected = {"documented_taxonomy": doc_tax, "documented_output": doc_out}
                sig = "C18:collect-dot-lexical-parent"
        for w in written:
            Path(w).unlink()
        if problem and sig is not None:
            ctx.cov["disagreements_checked"] += 1
            ctx.dist(f"collect:known:{sig}")
            if not getattr(ctx, "_c18_dot_reported", False):
                ctx._c18_dot_reported = True
                ctx.violations.append({
                    "what": f"paroxython collect: {problem}",
                    "name": "collect-dot",
                    "replay": {"kind": "collect", "argv": argv, "cwd": os.path.relpath(cwd, ws.root), "root": str(ws.root),
                               "taxonomy_files": sibling_files, "decoy": False,
                               "impl": {"written": [os.path.relpath(w, ws.root) for w in written]}, "model": model, "spec": expected},
                    "signature": sig,
                })
            continue
        if problem:
            ctx.cov["disagreements_checked"] += 1
            ctx.violations.append({
                "what": f"paroxython collect: {problem}",
                "replay": {"kind": "collect", "argv": argv, "cwd": os.path.relpath(cwd, ws.root), "root": str(ws.root),
                           "taxonomy_files": sibling_files,
                           "decoy": (ws.root / "progs" / "mytaxo.tsv").exists(),
                           "impl": {"exit": str(impl["exit"]), "exc": impl["exc"], "written": [os.path.relpath(w, ws.root) for w in written]},
                           "model": model, "spec": expected},
                "signature": None,
            })
            return
        if i == 0 or (nontrivial and len([s for s in ctx.cov["samples"] if s.get("stream") == "collect"]) < 2):
            ctx.sample({"stream": "collect", "argv": argv, "impl": {"exit": str(impl["exit"]), "written": [os.path.relpath(w, ws.root) for w in written]},
                        "model": model}, limit=12)


# ------------------------------------------------------------------------------- collect twice onto the same output

TWICE_POOL = {
    "alpha.py": "x = 1\nprint(x)\n",
    "beta.py": "for i in range(3):\n    print(i)  # paroxython: my_hint\n",
    "gamma.py": "def f(n):\n    return n + 1\n",
    "sub/eps.py": "import alpha\ny = [1, 2]\n",
}
TWICE_OTHER = {"alpha.py": "while True:\n    break\n", "zeta.py": "z = 'a' + 'b'\n", "sub/eta.py": "assert 1 + 1 == 2\n"}
TWICE_EXTRA = ("omega.py", "w = {1: 2}\nprint(len(w))\n")
TWICE_GLOBS = [None, "*.py", "**/*.py", "sub/*.py", "**/[ab]*.py", "[!a]*.py", "**/*a.py"]
TWICE_SKIPS = [None, r"beta\.py", r"(alpha|beta)\.py", r"[^a].*", r"a.*", r".*", r"eps\.py", r"(gamma|eps)\.py"]
TWICE_OUTPUTS = ["out/t.json", "out/t.sqlite", "out/t.sql", None]  # None: the documented default DIRECTORY_db.json
TWICE_VARIATIONS = ["smaller", "larger", "disjoint", "equal", "delete", "add", "other-dir"]


def twice_is_output(rel):
    return rel.startswith("out/") or rel.endswith("_db.json")


def twice_apply(root, tree):
    """Bring the sources of the case tree to `tree` (rel -> text); what earlier `collect` runs wrote stays on disk."""
    for q in sorted(root.rglob("*"), reverse=True):
        rel = str(q.relative_to(root))
        if q.is_file() and not twice_is_output(rel) and rel not in tree:
            q.unlink()
    for rel, text in tree.items():
        q = root / rel
        q.parent.mkdir(parents=True, exist_ok=True)
        if not q.is_file() or q.read_text() != text:  # unchanged sources keep their timestamp
            q.write_text(text)
    for d in ("out", "deep", "progs", "other"):
        (root / d).mkdir(exist_ok=True)


def twice_selection(directory, g, s, spec):
    """The property's own listing: sorted glob result minus the names the skip pattern fully matches."""
    import regex

    eg, es = g or spec["defaultGlob"], s or spec["defaultSkip"]
    return [str(q.relative_to(directory)) for q in sorted(directory.glob(eg)) if q.is_file() and not regex.fullmatch(es, q.name)]


def sqlite_rows(path):
    con = sqlite3.connect(path)
    try:
        tables = sorted(r[0] for r in con.execute("SELECT name FROM sqlite_master WHERE type='table'"))
        return {t: sorted((list(r) for r in con.execute(f"SELECT * FROM {t}")), key=repr) for t in tables}
    finally:
        con.close()


def twice_invoke(cli, form, argv, cwd):
    if form == "in-process":
        return run_cli(cli, argv, cwd)
    env = dict(os.environ, PYTHONPATH=str(core.REPO))
    code, out, _ = core.run([sys.executable, "-m", "paroxython.cli"] + list(argv), cwd=cwd, env=env, timeout=120)
    return {"exit": code, "exc": None, "stdout": out, "stderr": ""}


def twice_run(cli, drv, mdb, root, case, spec):
    """Run the two commands of `case` on the case tree. Returns (problem or None, report)."""
    import paroxython.cli_collect as cc

    if root.exists():
        shutil.rmtree(root)
    root.mkdir(parents=True)
    lib_tmp = root.parent / "__twice_lib.sqlite"
    report = {}
    for step in (1, 2):
        twice_apply(root, case[f"tree{step}"])
        argv, cwd = case[f"argv{step}"], Path(os.path.normpath(root / case[f"cwd{step}"]))
        args = docopt_args(cc, "collect", argv[1:])
        model = drv.call("c18.model.collect", args=args, world=world_of(root, cwd))
        before = snapshot(root)
        impl = twice_invoke(cli, case["form"], argv, cwd)
        after = snapshot(root)
        written = sorted(os.path.normpath(k) for k in after if before.get(k) != after[k])
        report[f"model{step}"] = model
        if "plan" not in model:
            return "machinery: the model does not plan a run for this command", report
        plan = model["plan"]
        kind, path = plan["out"]
        target = None if path is None else os.path.normpath(str((cwd / path) if not os.path.isabs(path) else Path(path)))
        report[f"impl{step}"] = {"exit": str(impl["exit"]), "exc": impl["exc"], "written": [os.path.relpath(w, root) for w in written]}
        if impl["exit"] not in (None, 0) or impl["exc"]:
            return f"run {step}: the command stopped ({impl['exit'] or impl['exc']}) where the plan runs", report
        if [w for w in written if w != target] or (target is not None and not Path(target).is_file()):
            return f"run {step}: files written {written}, plan says {[target] if target else []}", report
        if step == 1:
            if target is not None:
                report["first_run_target"] = os.path.relpath(target, root)
            continue  # a single write onto a fresh path is the business of the `collect` stream
        tx = plan["taxonomy_path"]
        with in_dir(cwd), quiet():
            db = mdb.TagDatabase(
                directory=Path(plan["directory"]), ignore_timestamps=plan["ignore_timestamps"],
                cleanup_strategy=plan["cleanup_strategy"], skip_pattern=plan["skip_pattern"], glob_pattern=plan["glob_pattern"],
                print_performances=plan["print_performances"], taxonomy_path=Path(tx) if tx is not None else None)
            lib_json = db.get_json()
            lib_tmp.unlink(missing_ok=True)  # the reference export always goes onto a FRESH path
            db.write_sqlite(lib_tmp)
        lib_rows = sqlite_rows(lib_tmp)
        lib_tmp.unlink()
        expected = twice_selection(Path(os.path.normpath(cwd / plan["directory"])), plan["glob_pattern"], plan["skip_pattern"], spec)
        report["spec"] = {"format": kind, "target": None if target is None else os.path.relpath(target, root),
                          "programs_selected_by_glob_and_skip": expected, "library_programs": list(json.loads(lib_json)["programs"])}
        if list(json.loads(lib_json)["programs"]) != expected:
            return "run 2: the library's database does not list the files selected by the glob and skip patterns", report
        if kind == "json":
            text = Path(target).read_text()
            try:
                listed = list(json.loads(text)["programs"])
            except Exception:  # noqa
                listed = "<not JSON>"
            report["impl2"]["programs"] = listed
            if text != lib_json:
                return (f"run 2: the JSON file at the output path is not TagDatabase(...).get_json() for the second run "
                        f"(programs listed {listed}, expected {expected})"), report
        elif kind == "sqlite":
            rows = sqlite_rows(target)
            listed = sorted(r[0] for r in rows.get("program", []))
            report["impl2"]["programs"] = listed
            report["impl2"]["row_counts"] = {t: len(v) for t, v in rows.items()}
            report["spec"]["row_counts"] = {t: len(v) for t, v in lib_rows.items()}
            if rows != lib_rows:
                stale = {t: [r for r in rows.get(t, []) if r not in lib_rows.get(t, [])][:3] for t in rows}
                missing = {t: [r for r in lib_rows[t] if r not in rows.get(t, [])][:3] for t in lib_rows}
                report["impl2"]["rows_not_in_a_fresh_export"] = {t: [[str(x)[:60] for x in r] for r in v] for t, v in stale.items() if v}
                report["impl2"]["rows_of_a_fresh_export_missing"] = {t: [[str(x)[:60] for x in r] for r in v] for t, v in missing.items() if v}
                return (f"run 2: the SQLite database at the output path does not hold the rows of a fresh export of the second run's "
                        f"database (programs listed {listed}, expected {sorted(expected)}; row counts "
                        f"{report['impl2']['row_counts']} vs {report['spec']['row_counts']})"), report
        elif written:
            return f"run 2: no format for this output, yet files were written: {written}", report
    return None, report


def twice_case(rng, root, spec, output, variation, form):
    """One case: sources, the two command lines. Selections are computed on the materialised tree."""
    names = ["alpha.py", "beta.py"] + [n for n in ("gamma.py", "sub/eps.py") if rng.random() < 0.75]
    tree1 = {"progs/" + n: TWICE_POOL[n] for n in names}
    tree1.update({"other/" + n: t for n, t in TWICE_OTHER.items()})
    tree1["mytaxo.tsv"] = EXPLICIT_TAXONOMY
    if rng.random() < 0.4:
        tree1["taxonomy.tsv"] = SIBLING_TAXONOMY
    tree2 = dict(tree1)
    if root.exists():
        shutil.rmtree(root)
    root.mkdir(parents=True)
    twice_apply(root, tree1)
    pairs = [(g, s) for g in TWICE_GLOBS for s in TWICE_SKIPS]
    sel = {gs: frozenset(twice_selection(root / "progs", gs[0], gs[1], spec)) for gs in pairs}
    relation = {
        "smaller": lambda a, b: sel[b] < sel[a] and sel[b],
        "larger": lambda a, b: sel[a] < sel[b] and sel[a],
        "disjoint": lambda a, b: sel[a] and sel[b] and not (sel[a] & sel[b]),
        "equal": lambda a, b: sel[a] == sel[b] and len(sel[a]) > 1,
    }
    dir1 = dir2 = "progs"
    if variation in relation:
        gs1, gs2 = rng.choice([(a, b) for a in pairs for b in pairs if relation[variation](a, b)])
    else:
        gs1 = rng.choice([gs for gs in pairs if len(sel[gs]) >= 2])
        gs2 = gs1 if rng.random() < 0.7 else rng.choice([gs for gs in pairs if sel[gs]])
        if variation == "delete":
            del tree2["progs/" + rng.choice(sorted(sel[gs1]))]
        elif variation == "add":
            tree2["progs/" + rng.choice(["", "sub/"]) + TWICE_EXTRA[0]] = TWICE_EXTRA[1]
        elif output is None:  # other-dir onto the DEFAULT path: the directory of that name now holds other programs
            tree2 = {k: v for k, v in tree2.items() if not k.startswith("progs/")}
            tree2.update({"progs/" + n: t for n, t in TWICE_OTHER.items()})
        else:
            dir2, gs2 = "other", rng.choice([(None, None), ("**/*.py", None), (None, r"zeta\.py"), ("*.py", None)])

    def command(step, directory, gs):
        cwd = rng.choice([".", ".", "deep"])
        here = Path(os.path.normpath(root / cwd))
        spell = lambda rel: str(root / rel) if rng.random() < 0.2 else os.path.relpath(root / rel, here)  # noqa
        opts = {}
        if output is not None:
            opts["--output"] = spell(output)
        if gs[0] is not None:
            opts["--glob"] = gs[0]
        if gs[1] is not None:
            opts["--skip"] = gs[1]
        if rng.random() < 0.8:
            opts["--no_timestamp"] = True
        if rng.random() < 0.25:
            opts["--taxonomy"] = spell("mytaxo.tsv")
        if rng.random() < 0.25:
            opts["--cleanup"] = rng.choice(["full", "none"])
        d = spell(directory)
        if output is None and Path(d).name in ("", ".."):
            d = os.path.relpath(root / directory, here)
        return ["collect"] + argv_of(rng, opts, d), cwd

    argv1, cwd1 = command(1, dir1, gs1)
    argv2, cwd2 = command(2, dir2, gs2)
    return {"kind": "collect-twice", "variation": variation, "form": form, "root": str(root), "tree1": tree1, "tree2": tree2,
            "argv1": argv1, "cwd1": cwd1, "argv2": argv2, "cwd2": cwd2}


def stream_collect_twice(ctx, drv, cli, mdb, base, n_random):
    """`collect`, then `collect` AGAIN onto the SAME output path with another selection / other sources / another
    directory: the file must hold exactly the database of the SECOND run (nothing left of the first, nothing missing)."""
    spec = drv.call("c18.spec.names", names=[])
    root = base / "twice" / "case"
    matrix = [(o, v, "in-process") for v in TWICE_VARIATIONS for o in TWICE_OUTPUTS]
    matrix += [("out/t.sqlite", "smaller", "python -m paroxython.cli"), (None, "delete", "python -m paroxython.cli")]
    if ctx.tier != "quick":
        matrix += [(o, v, "python -m paroxython.cli") for o, v in (("out/t.sql", "disjoint"), ("out/t.json", "other-dir"),
                                                                   ("out/t.sqlite", "delete"), (None, "smaller"))]
    for _ in range(n_random):
        matrix.append((ctx.rng.choice(TWICE_OUTPUTS + ["out/t.db", "out/t.sqlite"]), ctx.rng.choice(TWICE_VARIATIONS), "in-process"))
    for output, variation, form in matrix:
        case = twice_case(ctx.rng, root, spec, output, variation, form)
        problem, report = twice_run(cli, drv, mdb, root, case, spec)
        fmt = (report.get("spec") or {}).get("format") or ("default" if output is None else Path(output).suffix)
        ctx.count("collect-twice", json.dumps([case["argv1"], case["cwd1"], case["argv2"], case["cwd2"], sorted(case["tree1"]), sorted(case["tree2"])]),
                  nontrivial=variation != "equal")
        ctx.dist(f"collect-twice:{variation}")
        ctx.dist("collect-twice:out:" + ("default" if output is None else Path(output).suffix))
        ctx.dist(f"collect-twice:form:{form}")
        if problem:
            ctx.cov["disagreements_checked"] += 1
            if problem.startswith("machinery"):
                ctx.broken.append("corr:collect-twice")
                ctx.notes.append(json.dumps({"problem": problem, "argv1": case["argv1"], "argv2": case["argv2"]})[:600])
                return
            ctx.violations.append({
                "what": f"paroxython collect, twice onto the same output ({variation}, {fmt}, {form}): {problem}",
                "replay": dict(case, impl={"run1": report.get("impl1"), "run2": report.get("impl2")},
                               model={"run1": report.get("model1"), "run2": report.get("model2")}, spec=report.get("spec")),
                "signature": None})
            return
        if len([s for s in ctx.cov["samples"] if s.get("stream") == "collect-twice"]) < 2 and variation in ("smaller", "other-dir"):
            ctx.sample({"stream": "collect-twice", "variation": variation, "form": form, "argv1": case["argv1"], "argv2": case["argv2"],
                        "impl": report.get("impl2"), "model": report.get("model2", {}).get("plan", {}).get("out"),
                        "spec": report.get("spec")}, limit=14)
    shutil.rmtree(base / "twice", ignore_errors=True)



# ------------------------------------------------------------------------------- recommend

BANNER = re.compile(r"\A(?:Using database '[^\n]*'\.\n|Using pipeline '[^\n]*'\.\n|Using an empty pipeline\.\n)+")


def library_recommend(ws, plan, rp_mod, cwd=None):
    """What the plan prescribes: Recommendations(...) on the plan's database, pipeline, base, cost, title format."""
    with in_dir(cwd or ws.root):
        commands = [] if plan["pipe"] is None else literal_eval(Path(plan["pipe"]).read_text())
        out, err = io.StringIO(), io.StringIO()
        with contextlib.redirect_stdout(out), contextlib.redirect_stderr(err):
            rec = rp_mod.Recommendations(
                db=json.loads(Path(plan["db"]).read_text()),
                base_path=Path(plan["base_path"]),
                assessment_strategy=plan["assessment_strategy"],
                title_format=plan["title_format"],
            )
            rec.run_pipeline(commands)
            if plan["out"] is None:
                return {"stdout": "\n".join(sorted(rec.selected_programs - rec.hidden_programs)) + "\n"}
            return {"markdown": rec.get_markdown()}


def stream_recommend(ctx, drv, cli, ws, n):
    import paroxython.cli_recommend as cr
    import paroxython.recommend_programs as rp

    known = {}
    root = ws.root
    # always, first: RELATIVE -o / --pipe / --base paths (they are relative to the current directory, not to
    # DB_PATH's parent) with a database lying elsewhere, from several current directories
    fixed = []
    for cwd, db, rel in ((root, "deep/x_db.json", ""), (root / "deep", "x_db.json", "../"), (root / "out", "../deep/x_db.json", "../"),
                         (root / "deep", "../progs_db.json", "../"), (root / "deep", str(root / "progs_db.json"), "../")):
        fixed += [
            (cwd, db, {"--pipe": rel + "custom_pipe.py"}),
            (cwd, db, {"--pipe": rel + "custom_pipe.py", "--output": rel + "out/fixed.md"}),
            (cwd, db, {"--pipe": rel + "base_pipe.py", "--base": rel + "base2", "--output": "STDOUT"}),
            (cwd, db, {"--pipe": rel + "base_pipe.py", "--base": rel + "base1", "--output": rel + "out/fixed.md"}),
            (cwd, db, {"--pipe": "[]", "--output": "fixed_here.md"}),
            (cwd, db, {"--output": "stdout"}),
        ]
    for d in ("programs.v2", "tp1.2-sorting", "./programs.v2/"):  # directory shortcut with a dot in the name
        fixed += [(root, d, {"--output": "STDOUT"}), (root, d, {}), (root / "deep", "../" + d.strip("./"), {"--pipe": "[]"})]
    for i in range(len(fixed) + n):
        r = ctx.rng
        cwd = root
        # which databases exist
        for name in ("progs_db.json", "progs-db.json", "progs_db.json-db.json", "other.json", "deep/x_db.json", "deep/er/db.json", "deep/_db.json", "a_b-db.json"):
            p = ws.root / name
            if r.random() < 0.7:
                p.write_text(ws.db_text)
            elif p.exists():
                p.unlink()
        for name in ("progs_pipe.py", "progs-pipe.py", "pipe.py"):
            p = ws.root / name
            if r.random() < 0.7:
                p.write_text(PIPELINES[name])
            elif p.exists():
                p.unlink()
        for name, t in (("deep/x_pipe.py", PIPELINES["custom_pipe.py"]), ("a_b-pipe.py", PIPELINES["progs-pipe.py"]),
                        ("deep/er/pipe.py", PIPELINES["pipe.py"]), ("deep/pipe.py", PIPELINES["pipe.py"]),
                        ("progs_db.json-pipe.py", PIPELINES["progs-pipe.py"])):
            (ws.root / name).write_text(t)
        for name in ("programs.v2_db.json", "programs.v2_pipe.py"):
            p = ws.root / name
            if r.random() < 0.6:
                p.write_text(ws.db_text if name.endswith(".json") else PIPELINES["custom_pipe.py"])
            elif p.exists():
                p.unlink()
        choices = ["progs", "progs", "progs/", "programs.v2", "programs.v2_db.json", "progs_db.json", "progs-db.json", "other.json", "deep/x_db.json",
                   "deep/er/db.json", "deep/_db.json", "a_b-db.json", "missing.json", str(ws.root / "progs_db.json"),
                   "./deep/../progs_db.json", "out"]
        db = r.choice(choices)
        if r.random() < 0.6 and not (ws.root / db).exists():  # mostly existing paths
            db = r.choice([c for c in choices if (ws.root / c).exists()])
        opts = {}
        if r.random() < 0.5:
            opts["--pipe"] = r.choice(["custom_pipe.py", "[]", "[]", "bad_pipe.py", "nopipe.py", "base_pipe.py", "base_pipe.py"])
        if r.random() < 0.6:
            opts["--output"] = r.choice(["STDOUT", "stdout", "StdOut", "out/r.md", "out/stdout.md", "r.txt"])
        if r.random() < 0.5:
            opts["--base"] = r.choice(["base1", "base2", "./base2"])
        if r.random() < 0.4:
            opts["--cost"] = r.choice(["zeno", "linear"])
        if r.random() < 0.5:
            opts["--format"] = r.choice(["vscode", "VSCode", "{name}", "**{path}** in {prefix} ({relative})",
                                        "{absolute}/{path}", "plain", "{nope}"])
        if opts.get("--pipe") == "base_pipe.py" and "--base" not in opts:
            opts["--base"] = "base1"
        if i < len(fixed):
            cwd, db, opts = fixed[i][0], fixed[i][1], dict(fixed[i][2])
            for name in ("deep/x_db.json", "progs_db.json", "programs.v2_db.json", "tp1.2-sorting_db.json"):
                (root / name).write_text(ws.db_text)
            for name in ("programs.v2_pipe.py", "tp1.2-sorting_pipe.py"):
                (root / name).write_text(PIPELINES["custom_pipe.py"])
            (root / "progs_pipe.py").write_text(PIPELINES["progs_pipe.py"])
            ctx.dist("recommend:fixed-relative-paths")
        argv = ["recommend"] + argv_of(r, opts, db)
        args = docopt_args(cr, "recommend", argv[1:])
        model = drv.call("c18.model.recommend", args=args, world=world_of(ws.root, cwd))
        before = snapshot(ws.root)
        impl = run_cli(cli, argv, cwd)
        after = snapshot(ws.root)
        written = sorted(k for k in after if before.get(k) != after[k])
        ctx.count("recommend", json.dumps([argv, str(cwd), sorted(os.path.relpath(k, ws.root) for k in before if k.endswith((".json", "pipe.py")))]),
                  nontrivial="plan" in model)
        problem, sig, expected = None, None, None
        if "exit" in model:
            ctx.dist(f"recommend:exit:{model['exit']}")
            needle = {"noDbPath": "no file or directory at", "noDatabase": "unable to locate a tag database",
                      "malformedPipeline": "Malformed pipeline", "noPipeline": "No pipeline at"}[model["exit"]]
            if impl["exit"] is None or needle not in str(impl["exit"]) or written:
                problem = f"the model stops ({model['exit']}) but the command gave exit={impl['exit']!r} exc={impl['exc']}"
        elif "raises" in model:
            ctx.dist(f"recommend:raises:{model['raises']}")
            if impl["exc"] != model["raises"]:
                problem = f"the model predicts {model['raises']} (title format), the command gave {impl['exc'] or impl['exit']}"
        else:
            plan = model["plan"]
            ctx.dist("recommend:out:" + ("stdout" if plan["out"] is None else "file"))
            ctx.dist("recommend:pipe:" + ("empty" if plan["pipe"] is None else "file"))
            ctx.dist("recommend:db:" + ("looked-up" if plan["announced_db"] else "given"))
            try:
                expected = library_recommend(ws, plan, rp, cwd)
            except BaseException as exc:  # noqa
                expected = {"exc": type(exc).__name__}
            if "exc" in expected:
                ctx.dist(f"recommend:library-raises:{expected['exc']}")
                if impl["exc"] != expected["exc"] and impl["exit"] in (None, 0):
                    problem = f"the library call of the plan raises {expected['exc']}, the command gave {impl['exc']}"
            elif impl["exit"] not in (None, 0) or impl["exc"]:
                problem = f"the command stopped ({impl['exit'] or impl['exc']}) where the plan runs"
            elif plan["out"] is None:
                if written:
                    problem = f"STDOUT mode wrote files {written}"
                elif impl["stdout"] != expected["stdout"]:
                    problem = "STDOUT mode: stdout is not the sorted list of selected, not hidden programs"
                elif plan["messages_on_stderr"] and not BANNER.match(impl["stderr"]):
                    problem = "STDOUT mode: the 'Using …' messages are not on stderr"
            else:
                target = os.path.normpath(str((cwd / plan["out"]) if not os.path.isabs(plan["out"]) else Path(plan["out"])))
                if [os.path.normpath(w) for w in written] != [target]:
                    problem = f"files written {written}, plan says {target}"
                elif Path(target).read_text() != expected["markdown"]:
                    problem = "the report written is not Recommendations(**plan).get_markdown()"
                else:
                    banner = ("Using database '%s'.\n" % plan["db"] if plan["announced_db"] else "") + (
                        "Using an empty pipeline.\n" if plan["pipe"] is None else "Using pipeline '%s'.\n" % plan["pipe"])
                    if plan["messages_on_stderr"] or not impl["stdout"].startswith(banner):
                        problem = f"the announced database / pipeline differ from the plan: {impl['stdout'][:200]!r} vs {banner!r}"
        for w in written:
            Path(w).unlink()
        if problem:
            ctx.cov["disagreements_checked"] += 1
            if sig is not None:
                ctx.dist(f"recommend:known:{sig}")
                if sig in known:
                    continue
                known[sig] = True
            ctx.violations.append({
                "what": f"paroxython recommend: {problem}",
                "name": sig.split(":")[1] if sig else None,
                "replay": {"kind": "recommend", "argv": argv, "cwd": os.path.relpath(cwd, ws.root), "root": str(ws.root),
                           "present": sorted(os.path.relpath(k, ws.root) for k in before if k.endswith((".json", "pipe.py"))),
                           "impl": {"exit": str(impl["exit"]), "exc": impl["exc"], "stdout": impl["stdout"][:600],
                                    "written": [os.path.relpath(w, ws.root) for w in written]},
                           "model": model, "spec": expected if expected is None or "markdown" not in expected else {"markdown": expected["markdown"][:300]}},
                "signature": sig,
            })
            if sig is None:
                return
        elif "plan" in model and len([s for s in ctx.cov["samples"] if s.get("stream") == "recommend"]) < 2:
            ctx.sample({"stream": "recommend", "argv": argv, "impl": {"stdout": impl["stdout"][:200], "written": [os.path.relpath(w, ws.root) for w in written]},
                        "model": model}, limit=12)


# ------------------------------------------------------------------------------- tag

def stream_tag(ctx, drv, cli, ws, n):
    import paroxython.cli_tag as ct
    from paroxython.user_types import Source

    cache = {}
    for i in range(n):
        r = ctx.rng
        f = r.choice(["progs/a.py", "progs/b.py", "progs/sub/c.py", "./progs/sub/../b.py", "missing.py", "progs", "binary.py",
                      str(ws.root / "progs" / "a.py")])
        opts = {}
        if r.random() < 0.6:
            opts["--format"] = r.choice(["md", "tsv", "xyz", "MD"])
        if r.random() < 0.4:
            opts["--labels"] = True
        if r.random() < 0.4:
            opts["--taxonomy"] = r.choice(["mytaxo.tsv", "./mytaxo.tsv"])
        argv = ["tag"] + argv_of(r, opts, f)
        args = docopt_args(ct, "tag", argv[1:])
        model = drv.call("c18.model.tag", args=args, world=world_of(ws.root, ws.root))
        key = json.dumps(argv)
        if key not in cache:
            cache[key] = run_cli(cli, argv, ws.root)
        impl = cache[key]
        ctx.count("tag", key, nontrivial="plan" in model and bool(opts))
        problem, expected = None, None
        if "exit" in model:
            ctx.dist("tag:exit:unreadable")
            if impl["exit"] in (None, 0):
                problem = "the model stops (unreadable file) but the command did not"
        else:
            plan = model["plan"]
            ctx.dist(f"tag:{plan['tags']}:{plan['output_format']}:" + ("bundled" if plan["taxonomy_path"] is None else "explicit"))
            pk = json.dumps(plan, sort_keys=True)
            if pk not in cache:
                with in_dir(ws.root), quiet():
                    cache[pk] = ct.main(
                        source=Source(Path(plan["file"]).read_text()), tags=plan["tags"],
                        relative_path=Path(plan["relative_path"]), output_format=plan["output_format"],
                        taxonomy_path=Path(plan["taxonomy_path"]) if plan["taxonomy_path"] is not None else None)
            expected = cache[pk] + "\n"
            if impl["exit"] not in (None, 0) or impl["exc"]:
                problem = f"the command stopped ({impl['exit'] or impl['exc']}) where the plan runs"
            elif impl["stdout"] != expected:
                problem = "stdout is not cli_tag.main(**plan)"
        if problem:
            ctx.cov["disagreements_checked"] += 1
            ctx.violations.append({
                "what": f"paroxython tag: {problem}",
                "replay": {"kind": "tag", "argv": argv, "impl": {"exit": str(impl["exit"]), "exc": impl["exc"], "stdout": impl["stdout"][:500]},
                           "model": model, "spec": expected and expected[:500]},
                "signature": None,
            })
            return
        if "plan" in model and len([s for s in ctx.cov["samples"] if s.get("stream") == "tag"]) < 1:
            ctx.sample({"stream": "tag", "argv": argv, "impl": impl["stdout"][:200], "model": model}, limit=12)


def stream_module_entry(ctx, drv, cli, ws):
    """`python -m paroxython.cli` once: same files / stdout as the in-process entry point."""
    env = dict(os.environ, PYTHONPATH=str(core.REPO))
    ws.set_sibling_taxonomy(True)
    for argv in (["collect", "-o", "out/m.json", "--no_timestamp", "progs"], ["tag", "-f", "tsv", "progs/a.py"]):
        code, out, _ = core.run([sys.executable, "-m", "paroxython.cli"] + argv, cwd=ws.root, env=env, timeout=120)
        sub_file = (ws.root / "out" / "m.json").read_text() if (ws.root / "out" / "m.json").exists() else None
        if sub_file is not None:
            (ws.root / "out" / "m.json").unlink()
        impl = run_cli(cli, argv, ws.root)
        in_file = (ws.root / "out" / "m.json").read_text() if (ws.root / "out" / "m.json").exists() else None
        if in_file is not None:
            (ws.root / "out" / "m.json").unlink()
        ctx.count("module-entry", json.dumps(argv), nontrivial=True)
        same = code == 0 and sub_file == in_file and (argv[0] != "tag" or out.strip() == impl["stdout"].strip())
        if not same:
            ctx.violations.append({
                "what": "python -m paroxython.cli does not behave like paroxython.cli.main()",
                "replay": {"kind": "module-entry", "argv": argv, "subprocess": {"code": code, "out": out[-600:]},
                           "in_process": {"exit": str(impl["exit"]), "stdout": impl["stdout"][-300:]}},
                "signature": None})
            return


# ------------------------------------------------------------------------------- run

def run(ctx):
    warnings.filterwarnings("ignore", category=SyntaxWarning)
    core.prove(ctx)
    core.import_repo()
    import importlib

    cli = importlib.import_module("paroxython.cli")
    lp = importlib.import_module("paroxython.list_programs")
    mdb = importlib.import_module("paroxython.make_db")
    quick = ctx.tier == "quick"
    root = Path(os.path.realpath(ctx.scratch_dir()))
    drv = core.Driver()
    try:
        stream_paths(ctx, drv)
        stream_names(ctx, drv, cli, root)
        stream_default_patterns(ctx, drv, cli, lp, root)
        stream_listing(ctx, drv, lp, root)
        ws = Workspace(root, "ws", mdb)
        stream_tag(ctx, drv, cli, ws, 30 if quick else 120)
        stream_recommend(ctx, drv, cli, ws, 250 if quick else 3000)
        stream_collect(ctx, drv, cli, ws, 70 if quick else 800)
        stream_module_entry(ctx, drv, cli, ws)
        stream_collect_twice(ctx, drv, cli, mdb, root, 0 if quick else 150)
    finally:
        drv.close()
    ctx.cov["rule"] = (
        "paths / names:* — every sequence over the stated token alphabet up to the stated length; listing — random "
        "directory contents × glob × skip (non-trivial: the skip pattern removes some but not all globbed files); "
        "collect / recommend / tag — random option combinations (short/long spellings) over a generated scratch tree with "
        "random presence of sibling taxonomy, databases and pipelines; non-trivial = the command runs (a plan, not an exit) "
        "with at least one non-default option or file-system alternative in play; collect-twice — every output "
        "(-o .json / .sqlite / .sql, default path) × every variation (second selection smaller / larger / disjoint / equal, "
        "source deleted / added, other directory) of a second `collect` onto the output of a first one, over 2–4 tiny "
        "programs, plus `python -m paroxython.cli` forms (and random extras in thorough); the output is compared with a "
        "FRESH library export of the second run; non-trivial = the two runs do not select the same set"
    )
    ctx.cov["proved"] = [n.split(".")[-1] for n, ax in ctx.cov.get("theorems", {}).items() if ax != "DOES-NOT-CHECK"]
    ctx.cov["exercised_only"] = [
        "docopt's parsing of the command line into the option record",
        "pathlib.glob, regex.fullmatch on the user's skip pattern, file reading/writing",
        "that the real entry points write/print exactly what the library call named by the plan produces "
        "(TagDatabase.get_json / write_sqlite, Recommendations.get_markdown / selection, cli_tag.main)",
        "that a `collect` onto an output path which already holds the database of an earlier `collect` leaves exactly "
        "the database of the later run (no stale programs / labels / taxa, none missing), for JSON and SQLite",
        "python -m paroxython.cli = paroxython.cli.main()",
    ]
    ctx.cov["trusted_base"] = core.BASE_TRUST + [
        "the pathlib model (PPath) and the two fixed regexes (prefix rule, default skip pattern) are validated "
        "bounded-exhaustively against pathlib / the regex engine on every run, not proved",
        "docopt, pathlib.glob, the regex engine on user patterns, the file system, sqlite3, json: outside the model",
        "POSIX `//` root and symbolic links are not modelled",
    ]
    ctx.assumptions += [
        "theorems quantify over all option records and all file-system facts (isDir / isFile / readable / pipelineParses as arbitrary functions)",
        "str.format in --format is modelled for `{identifier}` fields and doubled braces only",
    ]
    unexplained = [v for v in ctx.violations if v.get("signature") is None]
    if not unexplained and (not ctx.proofs_ok or ctx.broken):
        ctx.violations.append({
            "no_input": True,
            "what": "a proof or the correspondence no longer checks",
            "replay": {"kind": "no-failing-input-found", "no_longer_checks": ctx.broken, "notes": ctx.notes[:5],
                       "build_errors": ctx.cov.get("build_errors"),
                       "searched": "paths / names / listing / collect / recommend / tag streams of this run"},
        })
    return core.finish(ctx)


def replay(ctx, path):
    core.import_repo()
    import importlib

    cli = importlib.import_module("paroxython.cli")
    lp = importlib.import_module("paroxython.list_programs")
    mdb = importlib.import_module("paroxython.make_db")
    obj = json.loads(Path(path).read_text(encoding="utf-8"))
    root = Path(os.path.realpath(ctx.scratch_dir()))
    drv = core.Driver()
    try:
        kind = obj.get("kind")
        if kind in ("collect", "recommend", "tag"):
            ws = Workspace(root, "ws", mdb)
            if kind == "collect":
                ws.set_sibling_taxonomy(obj.get("sibling_taxonomy", False))
                for rel in obj.get("taxonomy_files", []):
                    (ws.root / rel).write_text(SIBLING_TAXONOMY)
                if obj.get("decoy"):
                    (ws.root / "progs" / "mytaxo.tsv").write_text(SIBLING_TAXONOMY)
            for rel in obj.get("present", []):
                p = ws.root / rel
                p.parent.mkdir(parents=True, exist_ok=True)
                if rel.endswith(".json"):
                    p.write_text(ws.db_text)
                elif not p.exists():
                    p.write_text(PIPELINES.get(Path(rel).name, "[]"))
            if kind == "recommend":
                for name in list(PIPELINES) + ["progs_db.json", "progs-db.json", "other.json"]:
                    p = ws.root / name
                    if name.endswith(("_pipe.py", "-pipe.py", "pipe.py", ".json")) and name not in obj.get("present", []) \
                            and name in ("progs_pipe.py", "progs-pipe.py", "pipe.py", "progs_db.json", "progs-db.json", "other.json") and p.exists():
                        p.unlink()
            mod = importlib.import_module(f"paroxython.cli_{kind}")
            args = docopt_args(mod, kind, obj["argv"][1:])
            cwd = Path(os.path.normpath(ws.root / obj.get("cwd", ".")))
            if obj.get("root"):  # absolute paths of the run that stored the case -> this scratch tree
                obj["argv"] = [a.replace(obj["root"], str(ws.root)) for a in obj["argv"]]
            model = drv.call(f"c18.model.{kind}", args=args, world=world_of(ws.root, cwd))
            impl = run_cli(cli, obj["argv"], cwd)
            print("argv  :", obj["argv"])
            print("impl  :", {"exit": str(impl["exit"]), "exc": impl["exc"], "stdout": impl["stdout"][:400]})
            print("model :", model)
            spec = obj.get("spec")
            if spec is None and kind == "recommend" and "plan" in model:
                rp = importlib.import_module("paroxython.recommend_programs")
                try:
                    spec = {k: v[:400] for k, v in library_recommend(ws, model["plan"], rp, cwd).items()}
                except BaseException as exc:  # noqa
                    spec = {"exc": type(exc).__name__}
            print("spec  :", spec, "(what the library call named by the plan produces)")
            return 0
        if kind == "collect-twice":
            case_root = root / "twice" / "case"
            if obj.get("root"):  # absolute paths of the run that stored the case -> this scratch tree
                for k in ("argv1", "argv2"):
                    obj[k] = [a.replace(obj["root"], str(case_root)) for a in obj[k]]
            spec = drv.call("c18.spec.names", names=[])
            problem, report = twice_run(cli, drv, mdb, case_root, obj, spec)
            print("run 1 :", obj["argv1"], "in", obj["cwd1"], "| sources:", sorted(k for k in obj["tree1"]))
            print("run 2 :", obj["argv2"], "in", obj["cwd2"], "| sources:", sorted(k for k in obj["tree2"]))
            print("impl  :", report.get("impl2"))
            print("model :", report.get("model2"))
            print("spec  :", report.get("spec"), "(a fresh library export for the second run)")
            print("verdict:", problem or "the output holds exactly the second run's database")
            return 0
        if kind == "listing":
            d = root / "ls"
            for f in obj["files"]:
                (d / f).parent.mkdir(parents=True, exist_ok=True)
                (d / f).write_text("x = 1\n")
            with quiet():
                impl = [p.path for p in lp.list_programs(d, cleanup_strategy="none", glob_pattern=obj["glob"], skip_pattern=obj["skip"])]
            print("impl  :", impl)
            print("model :", obj.get("model"))
            print("spec  :", obj.get("spec"))
            return 0
        print(json.dumps(obj, indent=1)[:3000])
        return 0
    finally:
        drv.close()
