"""C13 — full cleaning removes only noise and keeps the program's structure.

Proved (lean/Paroxy/Props/C13.lean): text-level and token-loop-level sentences, for every text and every
token list.  Tie = correspondence:

 * `regex:<pass>`  — the fixed regexes of `Cleanup` (+ strip, tab expansion) against their structural
   Lean models, token-level bounded-exhaustively (DESIGN §3, R2) and on random texts; `regex:sys_path` is, since
   repair F50, a PARSER-ORACLE stream (the statements are delimited by `ast`, as for the guard): impl = model =
   the specification `keepOutsideGuards` on `injectionMarks`;
 * `loop:synthetic` — the real `for` loop of `full_cleaning` fed with arbitrary token lists (the module's
   `generate_tokens` is replaced in-process by a replayer) against the Lean loop;
 * `loop:programs` — real tokens of generated / corpus / malformed programs: model = real output.

Exercised only (CPython's tokenizer and parser are outside the model), stream `property:*`: the cleaned
text is valid Python, has the same AST modulo the four kinds of noise, no comment but hints, every hint
kept, no blank line, invariance under insertion of comments / blank lines / docstrings, idempotence.
A failure there is a violation with the program as replay.  No finding of C13 is open any more: no violation is
explained away (the *neutralisation* machinery stays, with an empty list).  `guard:programs` ties `suppress_main_guard`
(parser = oracle recorded with `ast`) to the model and to the specification `keepOutsideGuards`.
"""
import ast
import io
import itertools
import json
import re
import token as token_mod
import warnings
import tokenize as tokenize_mod
from pathlib import Path

from . import core

HINT = "# paroxython:"

# ------------------------------------------------------------------------------------------ tokens

KINDS = {}


def kind_name(t):
    return KINDS.get(t, "OTHER")


def init_kinds(pp):
    """Kinds by the very constants the module under test compares with."""
    KINDS.clear()
    KINDS.update({pp.COMMENT: "COMMENT", pp.STRING: "STRING", pp.NEWLINE: "NEWLINE", pp.NL: "NL",
                  pp.INDENT: "INDENT", pp.DEDENT: "DEDENT"})
    fm = getattr(pp, "FSTRING_MIDDLE", None)  # compared with in the loop since repair 2488bc4
    if fm is not None:
        KINDS[fm] = "FSTRING_MIDDLE"


def in_alphabet(text):
    """The model alphabet: ASCII 0x09-0x0D and 0x20-0x7E, plus non-ASCII characters that are not spaces."""
    for c in text:
        o = ord(c)
        if o < 0x80:
            if not (0x09 <= o <= 0x0D or 0x20 <= o <= 0x7E):
                return False
        elif c.isspace() or o == 0x85:
            return False
    return True


def real_tokens(text):
    """Tokens exactly as `full_cleaning` obtains them. Returns (tokens, exception name or None)."""
    lines = iter(text.split("\n"))
    out = []
    try:
        for t in tokenize_mod.generate_tokens(lambda: next(lines) + "\n"):
            out.append([kind_name(t.type), t.string, t.start[0], t.start[1], t.end[0], t.end[1]])
    except Exception as exc:  # noqa
        return out, type(exc).__name__
    return out, None


GUARD_DUMP = ast.dump(ast.parse("__name__ == '__main__'", mode="eval").body)


def parser_oracle(text):
    """What `suppress_main_guard` learns from the parser: None when `ast.parse` raises SyntaxError or
    ValueError, else (lineno, end_lineno, is the test `__name__ == '__main__'`) of the top-level `if` statements, in
    source order."""
    try:
        body = ast.parse(text).body
    except (SyntaxError, ValueError):
        return None
    return [[n.lineno, n.end_lineno, int(ast.dump(n.test) == GUARD_DUMP)] for n in body if isinstance(n, ast.If)]


def parser_stmts(text):
    """What `suppress_sys_path_injection` learns from the parser (repair F50): None when `ast.parse` raises
    SyntaxError or ValueError, else (lineno, end_lineno, col_offset == 0) of ALL the top-level statements, in
    source order."""
    try:
        body = ast.parse(text).body
    except (SyntaxError, ValueError):
        return None
    return [[n.lineno, n.end_lineno, int(n.col_offset == 0)] for n in body]


class _Captured(Exception):
    pass


def fed_to_tokenizer(pp, src):
    """The text `full_cleaning` REALLY hands to the tokenizer (steps 1-4, tab expansion included): the
    module's `generate_tokens` is replaced by a recorder that drains `readline` and stops the function."""
    box = {}

    def recorder(readline):
        parts = []
        while True:
            try:
                parts.append(readline())
            except StopIteration:
                break
        box["text"] = "".join(parts)
        raise _Captured()

    original = pp.generate_tokens
    pp.generate_tokens = recorder
    try:
        pp.Cleanup.full_cleaning(src)
    except _Captured:
        pass
    finally:
        pp.generate_tokens = original
    if "text" not in box:
        raise core.MachineryError("full_cleaning did not call generate_tokens")
    t = box["text"]
    return t[:-1] if t.endswith("\n") else t


def preprocess_stream(ctx, drv, pp):
    """Steps 1-4 of full_cleaning as a whole — in particular `text.replace("\\t", "    ")`, which is not a
    function of its own — on every sequence over a token alphabet with tabs in every position."""
    quick = ctx.tier == "quick"
    alphabet = ["\t", " ", "x", "\n", "#", "'", "  \t", "\t "]
    maxlen = 5 if quick else 6
    texts = list(seqs(alphabet, maxlen))
    big = ["\t", " ", "x", "\n", "#", "# paroxython: a", "if __name__ == '__main__':", "    y\n", "pass",
           '__import__("sys").path[0:0] = ', "'", '"""', "  \t", "\\\n"]
    for _ in range(4000 if quick else 40000):
        texts.append("".join(ctx.rng.choice(big) for _ in range(ctx.rng.randrange(0, 12))))
    cases, res = guard_cases(drv, pp.Cleanup, texts)
    changed = 0
    for t, m in zip(texts, res):
        impl = fed_to_tokenizer(pp, t)
        nontrivial = "\t" in t
        changed += nontrivial
        ctx.count("preprocess:fed-to-tokenizer", t, nontrivial=nontrivial)
        if impl != m["preprocess"]:
            ctx.cov["disagreements_checked"] += 1
            small = shrink_text(t, lambda x: fed_to_tokenizer(pp, x) != guard_cases(drv, pp.Cleanup, [x])[1][0]["preprocess"])
            ctx.broken.append("corr:preprocess:fed-to-tokenizer")
            ctx.notes.append("text fed to the tokenizer differs from the model's pre-processing: " + json.dumps(
                {"text": small, "impl": fed_to_tokenizer(pp, small),
                 "model": guard_cases(drv, pp.Cleanup, [small])[1][0]["preprocess"]}, ensure_ascii=False))
            return
    ctx.dist("preprocess:fed-to-tokenizer:with-tabs", changed)
    ctx.cov.setdefault("exhaustive_streams", {})["preprocess:fed-to-tokenizer"] = {
        "alphabet": alphabet, "all_sequences_up_to_length": maxlen}
    ctx.sample({"stream": "preprocess:fed-to-tokenizer", "input": "if x:\n  \ty = 1\t# c",
                "impl": fed_to_tokenizer(pp, "if x:\n  \ty = 1\t# c"),
                "model": guard_cases(drv, pp.Cleanup, ["if x:\n  \ty = 1\t# c"])[1][0]["preprocess"]}, limit=16)


def call(f, *a):
    try:
        return {"ok": f(*a)}
    except Exception as exc:  # noqa
        return {"exc": type(exc).__name__}


# ------------------------------------------------------------------------------- R2 regex streams

def seqs(alphabet, maxlen):
    for n in range(maxlen + 1):
        for tup in itertools.product(alphabet, repeat=n):
            yield "".join(tup)


def guard_templates():
    out = []
    for pre in ["", "x\n", "x", "\n", " "]:
        for sp1 in ["", " ", "  "]:
            for sp2 in ["", " ", "  "]:
                for eq in ["==", "="]:
                    for sp3 in ["", " ", "  "]:
                        for q1 in ["'", '"', "", " ", "\n", "_"]:
                            for main in ["__main__", "_main__"]:
                                for q2 in ["'", "", " ", "\n", ":"]:
                                    for sp4 in ["", " "]:
                                        for colon in [":", ""]:
                                            for tail in ["", "\n", "x", "\n  x\ny\n"]:
                                                out.append(f"{pre}if{sp1}__name__{sp2}{eq}{sp3}{q1}{main}{q2}{sp4}{colon}{tail}")
    return out


def regex_streams(ctx, drv, Cleanup):
    quick = ctx.tier == "quick"
    inj = '__import__("sys").path[0:0] = '
    plans = [
        ("first_comments", Cleanup.suppress_first_comments,
         ["#", "x", "\n", " ", "# paroxython: a", "paroxython", ":", "#PAROXYTHON\t:"], 5 if quick else 6),
        ("normalize", Cleanup.normalize_paroxython_comments,
         ["#", " ", "\t", "paroxython", "PaRoxYthon", ":", "x", "paroxythn", "…"], 4 if quick else 5),
        ("blank_lines", Cleanup.suppress_blank_lines,
         [" ", "\t", "\n", "x", "\r", "\x0c"], 5 if quick else 7),
        ("useless_pass", Cleanup.suppress_useless_pass_statements,
         [" ", "pass", "\n", "x", "  ", "\t", "#", "  # c\n"], 5 if quick else 6),
        ("strip", lambda s: s.strip(), [" ", "\n", "x", "\t", "\x0b"], 5 if quick else 7),
    ]
    for name, f, alphabet, maxlen in plans:
        texts = list(seqs(alphabet, maxlen))
        # random longer sequences over the same alphabet
        for _ in range(2000 if quick else 20000):
            texts.append("".join(ctx.rng.choice(alphabet) for _ in range(ctx.rng.randrange(maxlen + 1, maxlen + 8))))
        compare_pass(ctx, drv, name, f, texts, exhaustive_upto=maxlen, alphabet=alphabet)
    sys_path_stream(ctx, drv, Cleanup)
    # composites on random mixtures of all alphabets
    big = sorted({a for p in plans for a in p[2]} | {inj, inj[:-1]})
    fin = lambda s: Cleanup.suppress_useless_pass_statements(Cleanup.suppress_blank_lines(s.strip()))  # noqa
    for name, f in (("finish", fin),):
        texts = ["".join(ctx.rng.choice(big) for _ in range(ctx.rng.randrange(0, 14)))
                 for _ in range(4000 if quick else 40000)]
        compare_pass(ctx, drv, name, f, texts)


def sys_path_cases(drv, texts):
    cases = [{"text": t, "stmts": parser_stmts(t)} for t in texts]
    out = []
    for i in range(0, len(cases), 2000):
        out += drv.call("c13.model.sys_path", cases=cases[i:i + 2000])["r"]
    return cases, out


def sys_path_stream(ctx, drv, Cleanup):
    """`suppress_sys_path_injection` (repair F50: statements delimited by the PARSER) on every sequence over a
    token alphabet and on random longer ones; the parser is the oracle (`ast` here, as for the guard streams):
    impl = model = the specification `keepOutsideGuards` on `injectionMarks` (the lines of the column-0
    statements whose first line is an injection are removed, all of them, and nothing else)."""
    quick = ctx.tier == "quick"
    stream = "regex:sys_path"
    inj = '__import__("sys").path[0:0] = '
    alphabet = [inj, inj[:-1], "x", "\n", " ", "[", "]", '"""', "\\\n", "; y", "#"]
    maxlen = 4 if quick else 5
    texts = list(seqs(alphabet, maxlen))
    for _ in range(6000 if quick else 60000):
        texts.append("".join(ctx.rng.choice(alphabet) for _ in range(ctx.rng.randrange(maxlen + 1, maxlen + 9))))
    # whole statements around the shapes of finding F50
    parts = [inj + '[\n    "a",\n    "b",\n]', inj + '["a",\n "b"]', inj + '[\n        "a",\n    "b"]', inj + '"""a\nb\n""".split()',
             inj + '\\\n    ["a"]', inj + '["a"]; y = 2', inj + '[\n "a"]; y = 2', 's = """\n' + inj + '["a"]\n"""', inj + '["a"]',
             "x = 1", "# comment", "", "if x:\n    " + inj + "[1]", "x = [\n1]; " + inj + "[2]", 'if __name__ == "__main__":\n    main()',
             inj, inj[:-1] + "1", " " + inj + "[3]", "def f():\n    return [\n" + inj + "[4]\n]"]
    for _ in range(3000 if quick else 30000):
        k = ctx.rng.randrange(1, 6)
        texts.append("\n".join(ctx.rng.choice(parts) for _ in range(k)) + ctx.rng.choice(["", "\n"]))
    texts = F50_INPUTS + texts  # the inputs of finding F50 first: they are the replay if the stage loses a line again
    cases, res = sys_path_cases(drv, texts)
    changed = multi = 0

    def differs(x):
        i, mm = call(Cleanup.suppress_sys_path_injection, x), sys_path_cases(drv, [x])[1][0]
        return i.get("ok") != mm["model"] or mm["model"] != mm["spec"] or not mm["rangesOk"]

    for t, c, m in zip(texts, cases, res):
        impl = call(Cleanup.suppress_sys_path_injection, t)
        nontrivial = impl.get("ok") != t
        changed += nontrivial
        if nontrivial and c["stmts"] and any(a < b and k for a, b, k in c["stmts"]):
            multi += 1
        ctx.count(stream, t, nontrivial=nontrivial)
        if impl.get("ok") != m["model"] or m["model"] != m["spec"] or not m["rangesOk"]:
            ctx.cov["disagreements_checked"] += 1
            is_program = c["stmts"] is not None
            if not is_program:
                # not a program: the property says nothing of it (the parser will report the error); the tie is broken
                if "corr:regex:sys_path" not in ctx.broken:
                    ctx.broken.append("corr:regex:sys_path")
                    small = shrink_text(t, lambda x: parser_stmts(x) is None and differs(x))
                    ctx.notes.append("suppress_sys_path_injection differs from the model on a text that is not a program: " + json.dumps(
                        {"text": small, "impl": call(Cleanup.suppress_sys_path_injection, small),
                         "model": sys_path_cases(drv, [small])[1][0]["model"]}, ensure_ascii=False)[:600])
                continue
            small = t if t in F50_INPUTS else shrink_text(t, lambda x: parser_stmts(x) is not None and differs(x))
            c1, m1 = sys_path_cases(drv, [small])
            replay = {"kind": "sys-path", "text": small, "stmts": c1[0]["stmts"], "impl": call(Cleanup.suppress_sys_path_injection, small),
                      "model": m1[0]["model"], "spec": m1[0]["spec"], "rangesOk": m1[0]["rangesOk"]}
            if replay["impl"].get("ok") != replay["spec"] and replay["model"] == replay["spec"]:
                ctx.violations.append({"what": "suppress_sys_path_injection, on a valid program, does not remove exactly the lines of the "
                                               "top-level statements that begin with an injection (a statement written on several lines "
                                               "is not removed with all its lines, or something else is removed)",
                                       "replay": replay, "signature": "C13:sys-path-injection-statement"})
            else:
                ctx.broken.append("corr:regex:sys_path" if replay["model"] == replay["spec"] else "corr:sys_path:model-vs-spec")
                ctx.notes.append(json.dumps(replay, ensure_ascii=False)[:600])
            return
    ctx.dist(f"{stream}:texts", len(texts))
    ctx.dist(f"{stream}:changed_by_pass", changed)
    ctx.dist(f"{stream}:multi-line-statement-removed", multi)
    ctx.cov.setdefault("exhaustive_streams", {})[stream] = {"alphabet": alphabet, "all_sequences_up_to_length": maxlen,
                                                             "oracle": "ast.parse (top-level statements: lineno, end_lineno, col_offset == 0)"}
    ex = inj + '[\n    "a",\n    "b",\n]\n# comment\nx = 1\n'
    c1, m1 = sys_path_cases(drv, [ex])
    ctx.sample({"stream": stream, "input": ex, "stmts": c1[0]["stmts"], "impl": call(Cleanup.suppress_sys_path_injection, ex),
                "model": m1[0]["model"], "spec": m1[0]["spec"]}, limit=12)


def compare_pass(ctx, drv, name, f, texts, exhaustive_upto=None, alphabet=None):
    stream = f"regex:{name}"
    CH = 20000
    changed = 0
    for i in range(0, len(texts), CH):
        chunk = texts[i:i + CH]
        res = drv.call("c13.model.pass", name=name, texts=chunk)["r"]
        for t, m in zip(chunk, res):
            r = f(t)
            impl = [r[0], r[1]] if isinstance(r, tuple) else r
            nontrivial = (impl != t) if not isinstance(impl, list) else impl[1] > 0
            changed += nontrivial
            ctx.count(stream, t, nontrivial=nontrivial)
            if impl != m:
                ctx.cov["disagreements_checked"] += 1
                regex_disagreement(ctx, drv, name, t, impl, m)
                return
    ctx.dist(f"{stream}:texts", len(texts))
    ctx.dist(f"{stream}:changed_by_pass", changed)
    if exhaustive_upto is not None:
        ctx.cov.setdefault("exhaustive_streams", {})[stream] = {
            "alphabet": alphabet, "all_sequences_up_to_length": exhaustive_upto}
    if texts:
        t = next((x for x in texts if x and (f(x) != x if not isinstance(f(x), tuple) else f(x)[1])), texts[-1])
        r = f(t)
        ctx.sample({"stream": stream, "input": t, "impl": list(r) if isinstance(r, tuple) else r,
                    "model": drv.call("c13.model.pass", name=name, texts=[t])["r"][0]}, limit=12)


def regex_disagreement(ctx, drv, name, t, impl, m):
    """impl != model on a text pass. The passes whose output the property constrains directly are the
    two final ones (no blank line / fixed point); otherwise the tie is broken, not the property."""
    # shrink by deleting characters
    def bad(x):
        fx = PASS_IMPL[name](x)
        fx = [fx[0], fx[1]] if isinstance(fx, tuple) else fx
        return fx != drv.call("c13.model.pass", name=name, texts=[x])["r"][0]
    t = shrink_text(t, bad)
    fx = PASS_IMPL[name](t)
    impl = [fx[0], fx[1]] if isinstance(fx, tuple) else fx
    m = drv.call("c13.model.pass", name=name, texts=[t])["r"][0]
    replay = {"kind": "regex-pass", "pass": name, "text": t, "impl": impl, "model": m}
    if name in ("finish",):
        sp = drv.call("c13.spec.text", texts=[impl])["r"][0]
        replay["spec_on_impl"] = sp
        if not sp["noBlankLine"]:
            ctx.violations.append({"what": "the final text passes leave a blank line", "replay": replay,
                                   "signature": None})
            return
    ctx.broken.append(f"corr:regex:{name}")
    ctx.notes.append(f"regex model/impl disagreement: {json.dumps(replay, ensure_ascii=False)[:600]}")


PASS_IMPL = {}


def shrink_text(t, bad, budget=400):
    t = list(t)
    i = 0
    while i < len(t) and budget > 0:
        cand = t[:i] + t[i + 1:]
        budget -= 1
        if bad("".join(cand)):
            t = cand
        else:
            i += 1
    return "".join(t)


# ------------------------------------------------------------------------------- loop: synthetic

def loop_batch(drv, cases, chunk=500):
    """One request per chunk (a single line each way: no pipe dead-lock)."""
    out = []
    for i in range(0, len(cases), chunk):
        out += drv.call("c13.model.loop", cases=cases[i:i + chunk])["r"]
    return out


def synthetic_tokens(rng, n):
    kinds = ["COMMENT", "STRING", "NEWLINE", "NL", "INDENT", "DEDENT", "OTHER", "OTHER", "FSTRING_MIDDLE"]
    strings = {
        "FSTRING_MIDDLE": ["{", "a}", "b", "{}{", "", "\\N{DIGIT ONE}", "{\\N{X Y}}", "\\N{", "a\\N{b}c}", "\\N{a{b}", "\\\\N{"],
        "COMMENT": ["# c", "# paroxython: a", "#Paroxython :b  ", "#", "# paroxython", "#\tPAROXYTHON\t:\tz # paroxython:q"],
        "STRING": ['"d"', "'''a\n\nb'''", "''"],
        "NEWLINE": ["\n", ""], "NL": ["\n", ""], "INDENT": ["    ", "  "], "DEDENT": [""],
        "OTHER": ["x", "=", "1", ".", "pass", "(", ")", ":", "if", ""],
    }
    toks = []
    row, col = 1, 0
    for _ in range(n):
        k = rng.choice(kinds)
        s = rng.choice(strings[k])
        mode = rng.random()
        if mode < 0.55:  # plausible position: same row, a few columns further
            sr, sc = row, col + rng.choice([0, 0, 1, 1, 2, 4])
        elif mode < 0.85:  # next row
            sr, sc = row + rng.choice([1, 1, 2]), rng.choice([0, 0, 4, 8])
        else:  # implausible
            sr, sc = rng.randrange(-1, 6), rng.randrange(0, 9)
        er, ec = (sr, sc + len(s)) if "\n" not in s[:-1] else (sr + s.count("\n"), 3)
        if rng.random() < 0.05:
            er, ec = rng.randrange(-1, 6), rng.randrange(0, 9)
        toks.append([k, s, sr, sc, er, ec])
        row, col = er, ec
        if k in ("NEWLINE", "NL"):
            row, col = er + 1, 0
    return toks


def loop_synthetic(ctx, drv, pp):
    """Feed the REAL loop with arbitrary token lists by replacing the module's tokenizer."""
    Cleanup = pp.Cleanup
    name2type = {"COMMENT": pp.COMMENT, "STRING": pp.STRING, "NEWLINE": pp.NEWLINE, "NL": pp.NL,
                 "INDENT": pp.INDENT, "DEDENT": pp.DEDENT, "OTHER": token_mod.OP,
                 "FSTRING_MIDDLE": getattr(pp, "FSTRING_MIDDLE", None) or token_mod.OP}
    n = 1500 if ctx.tier == "quick" else 20000
    cases = []
    # bounded-exhaustive part: all kind sequences of length <= 4 over 7 kinds with canonical layout
    kinds = ["COMMENT", "HINT", "STRING", "NEWLINE", "NL", "INDENT", "DEDENT", "OTHER", "FSTRING_MIDDLE"]
    for L in range(0, 5 if ctx.tier == "quick" else 6):
        for ks in itertools.product(kinds, repeat=L):
            toks, row, col = [], 1, 0
            for k in ks:
                s = {"COMMENT": "# c", "HINT": "#paroxython:h", "STRING": '"s"', "NEWLINE": "\n", "NL": "\n",
                     "INDENT": "  ", "DEDENT": "", "OTHER": "x", "FSTRING_MIDDLE": "{a}"}[k]
                kk = "COMMENT" if k == "HINT" else k
                sc = col + (1 if col else 0)
                toks.append([kk, s, row, sc, row, sc + len(s)])
                col = sc + len(s)
                if kk in ("NEWLINE", "NL"):
                    row, col = row + 1, 0
            cases.append(toks)
    n_ex = len(cases)
    for _ in range(n):
        cases.append(synthetic_tokens(ctx.rng, ctx.rng.randrange(0, 12)))
    original = pp.generate_tokens
    current = {}
    pp.generate_tokens = lambda readline: iter(current["toks"])
    try:
        res = loop_batch(drv, cases)
        for c, m in zip(cases, res):
            current["toks"] = [(name2type[k], s, (sr, sc), (er, ec), "") for (k, s, sr, sc, er, ec) in c]
            impl = call(Cleanup.full_cleaning, "")
            nontrivial = any(k in ("COMMENT", "STRING") for k, *_ in c)
            ctx.count("loop:synthetic", json.dumps(c), nontrivial=nontrivial)
            expected = {"exc": m["raises"]} if m.get("raises") else {"ok": m["final"]}
            if impl != expected:
                ctx.cov["disagreements_checked"] += 1
                loop_disagreement(ctx, drv, "loop:synthetic", {"tokens": c}, impl, m)
                break
            if m.get("raises"):
                ctx.dist("loop:synthetic:IndexError(last token is a STRING at statement start)")
        ctx.cov.setdefault("exhaustive_streams", {})["loop:synthetic"] = {
            "alphabet": kinds, "all_sequences_up_to_length": 4 if ctx.tier == "quick" else 5, "cases": n_ex}
        c = [["NEWLINE", "\n", 1, 5, 1, 6], ["COMMENT", "#Paroxython :b", 2, 0, 2, 14], ["NL", "\n", 2, 14, 2, 15],
             ["STRING", '"d"', 3, 0, 3, 3], ["OTHER", ".", 3, 3, 3, 4]]
        current["toks"] = [(name2type[k], s, (sr, sc), (er, ec), "") for (k, s, sr, sc, er, ec) in c]
        ctx.sample({"stream": "loop:synthetic", "tokens": c, "impl": call(Cleanup.full_cleaning, ""),
                    "model": drv.call("c13.model.loop", tokens=c)["final"]}, limit=12)
    finally:
        pp.generate_tokens = original


def loop_disagreement(ctx, drv, stream, case, impl, m):
    replay = {"kind": stream, **case, "impl": impl, "model": m.get("raises") or m.get("final")}
    if "tokens" in case:
        replay["spec_per_token"] = drv.call("c13.spec.loop", tokens=case["tokens"])["rows"]
    if "ok" in impl:
        sp = drv.call("c13.spec.text", texts=[impl["ok"]])["r"][0]
        replay["spec_on_impl"] = sp
        if not sp["noBlankLine"]:
            ctx.violations.append({"what": "the cleaned text has a blank line", "replay": replay, "signature": None})
            return
    ctx.broken.append(f"corr:{stream}")
    ctx.notes.append(f"loop model/impl disagreement: {json.dumps(replay, ensure_ascii=False)[:800]}")


# ------------------------------------------------------------------------------- loop: programs

def guard_cases(drv, Cleanup, texts):
    """Model answers for `suppress_main_guard` / the whole pre-processing, the parser being the oracle."""
    cases = []
    for t in texts:
        t1 = Cleanup.suppress_first_comments(t)
        try:
            t2 = Cleanup.suppress_main_guard(t1)
        except Exception:  # noqa
            t2 = t1
        cases.append({"text": t, "ifs": parser_oracle(t), "ifs1": parser_oracle(t1), "stmts2": parser_stmts(t2)})
    out = []
    for i in range(0, len(cases), 300):
        out += drv.call("c13.model.guard", cases=cases[i:i + 300])["r"]
    return cases, out


def guard_stream(ctx, drv, pp, programs):
    """`suppress_main_guard` alone on whole texts (valid or not): impl = model = the specification
    `keepOutsideGuards` (exactly the lines of the guarded top-level `if` blocks removed)."""
    Cleanup = pp.Cleanup
    programs = [(o, p) for o, p in programs if in_alphabet(p) and "\r" not in p]
    cases, res = guard_cases(drv, Cleanup, [p for _, p in programs])
    for (origin, src), c, m in zip(programs, cases, res):
        impl = call(Cleanup.suppress_main_guard, src)
        nontrivial = "ok" in impl and impl["ok"] != src
        ctx.count("guard:programs", src, nontrivial=nontrivial)
        ctx.dist("guard:programs:" + ("unparsable" if c["ifs"] is None else f"{min(len(c['ifs']), 3)}-top-level-ifs"))
        if nontrivial:
            ctx.dist("guard:programs:block-removed")
        if impl.get("ok") != m["guard"]:
            ctx.cov["disagreements_checked"] += 1
            replay = {"kind": "guard", "origin": origin, "source": src, "ifs": c["ifs"], "impl": impl, "model": m["guard"], "spec": m["spec"]}
            if impl.get("ok") != m["spec"]:
                ctx.violations.append({"what": "suppress_main_guard does not remove exactly the lines of the guarded top-level if blocks",
                                       "replay": replay, "signature": None})
            else:
                ctx.broken.append("corr:guard:programs")
                ctx.notes.append(json.dumps(replay, ensure_ascii=False)[:600])
            return
        if m["guard"] != m["spec"]:
            ctx.broken.append("corr:guard:model-vs-spec")
            return
    ex = next(((o, p) for o, p in programs if "__main__" in p and parser_oracle(p)), None)
    if ex:
        ctx.sample({"stream": "guard:programs", "origin": ex[0], "source": ex[1][:300], "ifs": parser_oracle(ex[1]),
                    "impl": pp.Cleanup.suppress_main_guard(ex[1])[:300]}, limit=16)


def loop_programs(ctx, drv, pp, programs):
    """Real tokens of real texts: model(preprocess), then model(loop+finish) on the recorded tokens,
    against `Cleanup.full_cleaning`."""
    Cleanup = pp.Cleanup
    n_all = len(programs)
    programs = [(o, p) for o, p in programs if in_alphabet(p)]
    ctx.dist("loop:programs:skipped-outside-model-alphabet", n_all - len(programs))
    programs = [(o, p) for o, p in programs if "\r" not in p or "\r\n" in p and p.count("\r") == p.count("\r\n")]
    _, gres = guard_cases(drv, Cleanup, [p for _, p in programs])
    pres = [g["preprocess"] for g in gres]
    reqs, metas = [], []
    for (origin, src), mpre in zip(programs, pres):
        try:
            ipre = fed_to_tokenizer(pp, src)
        except core.MachineryError:
            raise
        except Exception as exc:  # noqa
            ctx.broken.append("corr:loop:programs:preprocess-raises")
            ctx.notes.append(f"preprocess raises {type(exc).__name__} on {origin}: {src[:200]!r}")
            return
        if ipre != mpre:
            ctx.cov["disagreements_checked"] += 1
            ctx.broken.append("corr:loop:programs:preprocess")
            ctx.notes.append(f"preprocess disagreement on {origin}: {src[:300]!r}")
            return
        toks, exc = real_tokens(ipre)
        impl = call(Cleanup.full_cleaning, src)
        ctx.count("loop:programs", src, nontrivial=True)
        ctx.dist(f"loop:programs:{origin.split(':')[0]}")
        if exc is not None:
            ctx.dist(f"loop:programs:tokenizer-raises:{exc}")
            if impl.get("exc") != exc:
                ctx.broken.append("corr:loop:programs:exception")
                ctx.notes.append(f"tokenizer raised {exc} but full_cleaning gave {impl} on {src[:300]!r}")
                return
            continue
        reqs.append({"op": "c13.model.loop", "tokens": toks})
        metas.append((origin, src, impl))
    res = loop_batch(drv, [rq["tokens"] for rq in reqs])
    for (origin, src, impl), m, rq in zip(metas, res, reqs):
        if impl.get("ok") != m["final"]:
            ctx.cov["disagreements_checked"] += 1
            loop_disagreement(ctx, drv, "loop:programs", {"origin": origin, "source": src, "tokens": rq["tokens"]}, impl, m)
            return
    if metas:
        origin, src, impl = metas[0]
        ctx.sample({"stream": "loop:programs", "origin": origin, "source": src[:400], "impl": impl.get("ok", impl)[:400] if "ok" in impl else impl,
                    "model": res[0]["final"][:400]}, limit=12)


# ------------------------------------------------------------------------------- program generator

INJ = '__import__("sys").path[0:0] = '
# § = a place where the noisy layout may put a comment
MULTILINE_INJECTIONS = [
    INJ + '[§\n    "a",§\n    "b",§\n]', INJ + '["a",§\n "b"]', INJ + '[§\n        "a",§\n    "b"]', INJ + '[\n"a",\n        "b"]',
    INJ + '"""a\nb\n""".split()', INJ + "\'\'\'a\n    b\'\'\'.split()", INJ + '\\\n    ["a"]', INJ + '["a"] + \\\n["b"]',
    INJ + '["a"]; y = 2', INJ + '[§\n    "a",§\n]; y = 2', INJ + '(§\n    ["a"]§\n)',
]
# the three inputs of finding F50 (and their neighbours)
F50_INPUTS = [
    INJ + '[\n    "a",\n    "b",\n]\n# comment\nx = 1\n', INJ + '["a",\n "b"]\n# comment\nx = 1\n',
    INJ + '[\n        "a",\n    "b"]\n# comment\nx = 1\n', INJ + '"""a\nb\n""".split()\n# comment\nx = 1\n',
    'x = 1\n' + INJ + '\\\n    ["a"]\ny = 2\n', INJ + '["a"]; y = 2\nx = 1\n', 's = """\n' + INJ + '["a"]\n"""\nx = 1 # c\n',
    'x = 1\n' + INJ + '[\n    "a",\n]', 'x = 1\n' + INJ + '[\n    "a",\n]\nif __name__ == "__main__":\n    main()\n',
]


class ProgGen:
    """A *core* program is a list of items; `render(core, noise)` lays it out with or without noise.

    items: ("code", indent, text, hint|None)     one logical line; `§` marks places (ends of physical
                                                 lines inside brackets) where a comment may go
           ("doc", indent)                       a place where a docstring may be inserted
           ("hint", indent, text)                a hint comment on its own line (part of the core)
    """

    def __init__(self, rng, shapes=True):
        self.r = rng
        self.shapes = shapes  # include the shapes of the known findings
        self.used = set()

    def name(self):
        return self.r.choice(["a", "b", "foo", "bar", "n", "acc", "i", "xs"])

    def string(self):
        r = self.r
        return r.choice(['"s"', "'t'", '"# not a comment"', '"""u"""', "'pass'", 'r"\\d"', 'b"x"', '"a\tb"', "'\t'"])

    def fstring(self):
        r = self.r
        if self.shapes and r.random() < 0.25:
            self.used.add("fstring-doubled-brace")
            return r.choice(['f"{{a}}"', 'f"{{{a}}}"', 'f"x{{"', "f'}}{a}'"])
        if self.shapes and r.random() < 0.2:
            self.used.add("fstring-named-escape")
            return r.choice(['f"\\N{DIGIT ONE}"', 'f"\\N{DIGIT ONE}{a}"', 'f"{{\\N{BULLET}}}{a!r:>{b}}"', 'rf"\\N{a}{{b}}"',
                             'f"{a}\\N{LATIN SMALL LETTER A}{{"', "f'{a:\\N{BULLET}>{b}}'", 'f"""\\N{DIGIT ONE} {a}"""', 'Rf"\\N{b}"',
                             'f"\\\\N{{x}}"'])
        return r.choice(['f"{a}"', 'f"a{b}c"', 'f"{a!r:>{b}}"', "f'{a + 1}'"])

    def atom(self):
        r = self.r
        x = r.random()
        if x < 0.45:
            return self.name()
        if x < 0.7:
            return str(r.choice([0, 1, 2, 10, 3.5]))
        if x < 0.85:
            return self.string()
        if x < 0.93:
            return self.fstring()
        return r.choice(["None", "True", "[]", "{}", "()"])

    def expr(self, d=0):
        r = self.r
        x = r.random()
        if d > 2 or x < 0.4:
            return self.atom()
        if x < 0.6:
            return f"{self.expr(d + 1)} {r.choice(['+', '-', '*', '<', '==', 'and', 'or', '%'])} {self.expr(d + 1)}"
        if x < 0.75:
            return f"{self.name()}({self.expr(d + 1)})"
        if x < 0.85:
            return f"[{self.expr(d + 1)}, {self.expr(d + 1)}]"
        if x < 0.92:
            return f"{self.name()}[{self.expr(d + 1)}]"
        return f"({self.expr(d + 1)})"

    def multiline(self, ind):
        """A bracketed expression over several physical lines; § = comment slot."""
        r = self.r
        pad = " " * (ind + 4)
        kind = r.random()
        if kind < 0.5:
            elems = [self.expr(1) for _ in range(r.randrange(1, 4))]
            body = "".join(f"{pad}{e},§\n" for e in elems)
            return f"{self.name()} = [§\n{body}{' ' * ind}]"
        if kind < 0.8:
            return f"{self.name()} = ({self.expr(1)} +§\n{pad}{self.expr(1)})"
        return f"{self.name()} = {self.name()}(§\n{pad}{self.expr(1)},§\n{pad}{self.name()}={self.expr(1)}§\n{' ' * ind})"

    def continuation(self, ind):
        """An expression broken by a BACKSLASH: word\\⏎word or operator\\⏎word, the continuation line being
        indented more, as much, less than the statement, or not at all."""
        r = self.r
        a, b, c = self.name(), self.name(), self.name()
        left, right = r.choice([
            (f"not", f"{a}"), (f"{a} and", f"{b}"), (f"{a} or", f"not {b}"), (f"{a} if {b} else", f"{c}"),
            (f"{a} in", f"{b}"), (f"{a} is", f"{b}"), (f"{a} is not", f"{b}"), (f"{a} not in", f"{b}"),
            (f"{a} and not", f"{b}"), (f"0 <= {a} and", f"{a} <= 10"), (f"lambda", f"{a}: {a}"),
            (f"{a} +", f"{b}"), (f"{a} ==", f"1"), (f"{a} <", f"{b}({c})"), (f"{a}", f"+ {b}"), (f"{a}", f"and {b}"),
            (f"{a} if {b}", f"else {c}"), (f"[{a} for {a}", f"in {b}]"), (f"[{a} for {a} in", f"{b}]"),
        ])
        self.used.add("backslash-continuation")
        pad = " " * r.choice([ind + 4, ind + 8, ind, max(0, ind - 2), 0, 0, 1])
        return left + " \\\n" + pad + right

    def simple(self, ind, in_def, in_loop):
        r = self.r
        x = r.random()
        hint = None
        if r.random() < 0.12:
            hint = r.choice(["foo", "foo bar", "-baz", "foo... ", "...foo", "a/b:c"])
        if r.random() < 0.10:
            e = self.continuation(ind)
            t = r.choice([f"{self.name()} = {e}", f"return {e}" if in_def else f"{self.name()}({e})", f"assert {e}",
                          f"{self.name()} += {e}"])
            return [("code", ind, t, hint)]
        if x < 0.35:
            t = f"{self.name()} = {self.expr()}"
            if r.random() < 0.15:
                self.used.add("tab-between-tokens")
                t = t.replace(" = ", r.choice(["\t=\t", "\t= ", " =\t"]), 1)
        elif x < 0.45:
            t = f"{self.name()} {r.choice(['+=', '-=', '*='])} {self.expr()}"
        elif x < 0.6:
            t = f"{self.name()}({self.expr()})"
        elif x < 0.68:
            t = self.multiline(ind)
        elif x < 0.74 and in_def:
            t = f"return {self.expr()}"
        elif x < 0.78 and in_loop:
            t = r.choice(["break", "continue"])
        elif x < 0.84:
            t = "pass"
        elif x < 0.88:
            t = r.choice(["import os", "from math import sqrt", "import sys"])
        elif x < 0.91:
            t = f"assert {self.expr()}"
        elif x < 0.94:
            t = f"{self.name()} = {self.name()} + \\\n{' ' * (ind + 4)}{self.expr(1)}"
        elif x < 0.96:
            t = f'{self.name()} = """line 1\n\n   line 3\n"""'
        elif x < 0.98:
            t = f"{self.name()} = 1; {self.name()} = 2"
        elif self.shapes:
            self.used.add("string-leading-statement")
            t = r.choice(['"-".join(xs)', '"a" if a else "b"', "'%s' % a", '"x" + a', "'abc'.upper()", '"a"; b = 1'])
        else:
            t = f"print({self.expr()})"
        return [("code", ind, t, hint)]

    def block(self, ind, depth, in_def=False, in_loop=False, n=None):
        r = self.r
        items = []
        n = n if n is not None else r.randrange(1, 4)
        for _ in range(n):
            if r.random() < 0.06:
                items.append(("hint", ind, r.choice(["foo", "bar baz", "-qux"])))
            x = r.random()
            if depth >= 3 or x < 0.6:
                items += self.simple(ind, in_def, in_loop)
                if self.shapes and items[-1][2] == "pass" and r.random() < 0.3:
                    self.used.add("consecutive-pass")
                    items.append(("code", ind, "pass", None))
                continue
            sub = ind + r.choice([4, 4, 4, 2])
            if x < 0.72:
                test = self.continuation(ind) if r.random() < 0.2 else self.expr(1)
                if self.shapes and r.random() < 0.08:
                    self.used.add("looks-like-main-guard")
                    test = r.choice(['__name__ == "__main__" or a', '__name__ != "__main__"', '"__main__" == __name__', 'not __name__ == "__main__"',
                                     '__name__ == "__main__"' if ind > 0 else '__name__ == "main"', '__name__ == "__main__" == True'])
                items.append(("code", ind, f"if {test}:", None))
                items += self.block(sub, depth + 1, in_def, in_loop)
                if r.random() < 0.4:
                    items.append(("code", ind, f"elif {self.expr(1)}:", None))
                    items += self.block(sub, depth + 1, in_def, in_loop)
                if r.random() < 0.5:
                    items.append(("code", ind, "else:", None))
                    items += self.block(sub, depth + 1, in_def, in_loop)
            elif x < 0.8:
                items.append(("code", ind, f"for {self.name()} in {self.expr(1)}:", None))
                items += self.block(sub, depth + 1, in_def, True)
            elif x < 0.85:
                items.append(("code", ind, f"while {self.continuation(ind) if r.random() < 0.2 else self.expr(1)}:", None))
                items += self.block(sub, depth + 1, in_def, True)
            elif x < 0.93:
                if r.random() < 0.2:
                    items.append(("code", ind, "@deco", None))
                items.append(("code", ind, f"def {self.name()}({r.choice(['', 'a', 'a, b=1', '*args'])}):", None))
                items.append(("doc", sub))
                if self.shapes and r.random() < 0.08:
                    self.used.add("docstring-with-hint")
                    items.append(("code", sub, r.choice(['"""d"""', "'d'"]), r.choice(["foo", "-bar"])))
                if self.shapes and r.random() < 0.05:
                    self.used.add("one-line-def-docstring")
                    items.append(("code", sub, f'def {self.name()}(): "d"', None))
                if self.shapes and r.random() < 0.04:
                    self.used.add("pass-semicolon-pass")
                    items.append(("code", sub, "pass; pass", None))
                items += self.block(sub, depth + 1, True, False)
            elif x < 0.97:
                items.append(("code", ind, f"class {self.name().title()}{r.choice(['', '(Base)'])}:", None))
                items.append(("doc", sub))
                items += self.block(sub, depth + 1, False, False)
            else:
                items.append(("code", ind, "try:", None))
                items += self.block(sub, depth + 1, in_def, in_loop)
                items.append(("code", ind, f"except {r.choice(['ValueError', 'Exception as e'])}:", None))
                items += self.block(sub, depth + 1, in_def, in_loop)
        return items

    def program(self):
        r = self.r
        self.used = set()
        self.style = r.choice(["spaces"] * 5 + ["tab", "space-tab", "tab-space", "mixed"])
        if self.style != "spaces":
            self.used.add(f"indentation:{self.style}")
        items = [("doc", 0)]
        if self.shapes and r.random() < 0.08:
            self.used.add("first-line-hint")
            if r.random() < 0.4:
                self.used.add("first-line-embedded-marker")
                h = ("raw", 0, r.choice(["# x # paroxython: foo", "## paroxython: bar", "#!x #paroxython: foo", "# a # b #  Paroxython : foo"]))
            else:
                h = ("hint", 0, r.choice(["foo", "-bar"]))
            items = [h] + items if r.random() < 0.5 else items + [h]
        def injection(tag, simple):
            """an injection statement: on one line, or (repair F50) on several lines / followed by `; y = 2`"""
            if self.shapes and r.random() < 0.6:
                self.used.add("multi-line-injection")
                self.used.add(f"multi-line-injection:{tag}")
                return r.choice(MULTILINE_INJECTIONS)
            return simple

        if r.random() < 0.15:
            items.append(("code", 0, injection("start", '__import__("sys").path[0:0] = ["programs"]'), None))
        if self.shapes and r.random() < 0.12:
            items += self.block(0, 0, n=r.randrange(1, 3))
            if r.random() < 0.4:
                self.used.add("injection-lookalike-in-string")
                items.append(("code", 0, 's = """\n__import__("sys").path[0:0] = ["kept"]\n"""', None))
            else:
                items.append(("code", 0, injection("middle", '__import__("sys").path[0:0] = ["middle"]'), None))
            items += self.block(0, 0, n=r.randrange(1, 3))
        else:
            items += self.block(0, 0, n=r.randrange(1, 5))
        if self.shapes and r.random() < 0.12:
            self.used.add("injection-line-late")
            self.late_injection = r.choice(["before-guard", "last"])
        else:
            self.late_injection = None

        def guard_header():
            if self.shapes and r.random() < 0.4:
                self.used.add("main-guard-unusual-layout")
                return r.choice(['if\t__name__ == "__main__":', 'if __name__\t==\t"__main__":', 'if __name__ == \\\n        "__main__":',
                                 'if __name__ \\\n== "__main__":', 'if (__name__ == "__main__"):', "if __name__ == \'\'\'__main__\'\'\':",
                                 'if __name__   ==   "__main__"   :', 'if __name__ == """__main__""":', 'if (__name__ ==\n        "__main__"):',
                                 'if __name__ == "__ma" "in__":'])
            return r.choice(['if __name__ == "__main__":', "if __name__=='__main__':", 'if  __name__  ==  "__main__" :'])

        if self.late_injection == "before-guard":
            items.append(("code", 0, injection("before-guard", '__import__("sys").path[0:0] = ["late"]'), None))
        if r.random() < 0.3 or self.late_injection == "before-guard":
            kind = r.random()
            if kind < 0.15:
                self.used.add("one-line-main-guard")
                items.append(("code", 0, guard_header() + " " + r.choice(["main()", "pass", f"{self.name()}({self.expr(1)})"]), None))
            else:
                items.append(("code", 0, guard_header(), None))
                items += self.block(4, 2, n=r.randrange(1, 3))
                if r.random() < 0.2:
                    self.used.add("multi-line-string-in-main-guard")
                    items.append(("code", 4, f'{self.name()} = """line 1\nline 2 at column 0\n\n    line 4"""', None))
                if self.shapes and r.random() < 0.15:
                    self.used.add("main-guard-with-elif")
                    items.append(("code", 0, f"elif {self.name()}:", None))
                    items += self.block(4, 2, n=1)
                if r.random() < 0.25:
                    self.used.add("main-guard-with-else")
                    items.append(("code", 0, "else:", None))
                    items += self.block(4, 2, n=r.randrange(1, 3))
            if self.shapes and r.random() < 0.3:
                self.used.add("hint-comment-after-main-guard")
                items.append(("hint", 0, r.choice(["foo", "-bar"])))
            if self.shapes and r.random() < 0.5:
                self.used.add("code-after-main-guard")
                items += self.block(0, 2, n=r.randrange(1, 3))
                if r.random() < 0.3:
                    self.used.add("two-main-guards")
                    items.append(("code", 0, guard_header(), None))
                    items += self.block(4, 2, n=1)
                    if r.random() < 0.5:
                        items += self.block(0, 2, n=1)
        if self.late_injection == "last":
            items.append(("code", 0, injection("last", '__import__("sys").path[0:0] = ["last"]  '), None))
        return items

    # -- layout
    def noise_lines(self, ind, level, first=False):
        r = self.r
        out = []
        while r.random() < level:
            x = r.random()
            if x < 0.4:
                out.append(r.choice(["", "", "   ", "\t", " " * ind]))
            else:
                i = r.choice([ind, ind, 0, ind + 2, 4])
                c = r.choice(["# lorem", "#ipsum", "# paroxython is great", "#  dolor  ", "# x = 1", "# coding=utf8",
                              "# \"quoted\"", "#", "# paroxython foo"])
                out.append(" " * i + c)
        return out

    def indent_unit(self, width):
        """One more level of indentation, in the style of the program (part of the CORE: both layouts share it)."""
        style = getattr(self, "style", "spaces")
        if style == "mixed":
            style = self.style_rng.choice(["spaces", "tab", "space-tab", "tab-space"])
        return {"spaces": " " * width, "tab": "\t", "space-tab": "  \t", "tab-space": "\t  "}[style]

    def render(self, items, level, variant=False, head=None):
        """level = probability of (another) noise line at each slot; 0 = bare layout."""
        r = self.r
        lines = []
        import random as _random
        self.style_rng = _random.Random(len(items))  # same units in the bare and the noisy layout
        stack = [(0, "")]

        def prefix(ind):
            while stack[-1][0] > ind:
                stack.pop()
            if stack[-1][0] < ind:
                stack.append((ind, stack[-1][1] + self.indent_unit(ind - stack[-1][0])))
            return stack[-1][1]

        if head:
            lines += head
        for idx, it in enumerate(items):
            if it[0] == "doc":
                if level > 0 and r.random() < 0.6:
                    lines += self.noise_lines(it[1], level * 0.5)
                    d = r.choice(['"""Doc."""', "'d'", '"""Lorem.\n\n    Ipsum.\n    """', 'r"""raw"""', '"""x"""'])
                    if self.shapes and r.random() < 0.12:  # docstrings that are not ONE string token alone on its line
                        self.used.add("compound-docstring")
                        d = r.choice(['"a" "b"', '("d")', '"d"; pass', "'a' \\\n" + prefix(it[1]) + "    'b'", '("""a\n' + 'b""")', '"d";'])
                    elif r.random() < 0.35:  # a trailing comment after the docstring (one-line or multi-line)
                        self.used.add("docstring-then-comment")
                        d += r.choice(["  # c", " #", "\t# lorem ipsum", "  # paroxython"])
                    lines.append(prefix(it[1]) + d)
                continue
            lines += self.noise_lines(it[1], level)
            if it[0] == "raw":  # a comment line of the core, verbatim in both layouts
                lines.append(prefix(it[1]) + it[2])
                continue
            if it[0] == "hint":
                marker = r.choice(["#paroxython:", "#  Paroxython  :  ", "# PAROXYTHON :", "#\tparoxython:\t"]) if variant and level > 0 else "# paroxython: "
                lines.append(prefix(it[1]) + marker + it[2])
                continue
            _, ind, text, hint = it
            if level > 0:
                text = "".join(seg + (r.choice(["  # c", " #c", ""]) if k < text.count("§") else "")
                               for k, seg in enumerate(text.split("§")))
            else:
                text = text.replace("§", "")
            line = prefix(ind) + text
            if hint is not None:
                marker = r.choice(["#paroxython:", "#  Paroxython :  ", "# paroxython:   "]) if variant and level > 0 else "# paroxython: "
                line += " " + marker + hint
            elif level > 0 and r.random() < level * 0.6 and "\\\n" not in text and '"""line' not in text:
                line += r.choice(["  # c", " #", "\t# lorem ipsum", "  # paroxython"])
            lines.append(line)
        if not (getattr(self, "late_injection", None) and r.random() < 0.7):
            lines += self.noise_lines(0, level)
        end = r.choice(["\n", "\n", "", "", "\n\n"])
        return "\n".join(lines) + end


# ------------------------------------------------------------------------------- property clauses

def is_main_guard(node):
    if not isinstance(node, ast.If):
        return False
    t = node.test
    return (isinstance(t, ast.Compare) and isinstance(t.left, ast.Name) and t.left.id == "__name__"
            and len(t.ops) == 1 and isinstance(t.ops[0], ast.Eq)
            and isinstance(t.comparators[0], ast.Constant) and t.comparators[0].value == "__main__")


def is_injection(node):
    """A top-level statement that begins, at column 0, with `__import__("sys").path[0:0] = `."""
    try:
        return (isinstance(node, ast.Assign) and node.col_offset == 0
                and ast.unparse(node.targets[0]) == "__import__('sys').path[0:0]")
    except Exception:  # noqa
        return False


def on_injection_lines(body):
    """The property lets the injection LINES go: the statements that share a line with an injection statement
    (`…path[0:0] = ["a"]; y = 2`) go with it."""
    spans = [(n.lineno, n.end_lineno) for n in body if is_injection(n)]
    return [n for n in body if any(a <= n.lineno <= b for a, b in spans)]


def strip_noise(tree):
    """The specification's noise removal, on the tree."""
    body = [s for s in tree.body if not is_main_guard(s)]
    gone = on_injection_lines(body)
    tree.body = [s for s in body if not any(s is g for g in gone)]

    class T(ast.NodeTransformer):
        def generic_visit(self, node):
            super().generic_visit(node)
            for f in ("body", "orelse", "finalbody"):
                b = getattr(node, f, None)
                if isinstance(b, list) and b and isinstance(b[0], ast.stmt):
                    nb = [s for s in b if not (isinstance(s, ast.Expr) and isinstance(s.value, ast.Constant)
                                               and isinstance(s.value.value, str))]
                    nb = [s for i, s in enumerate(nb) if not (isinstance(s, ast.Pass) and i + 1 < len(nb))]
                    setattr(node, f, nb or [ast.Pass()])
            return node

    return T().visit(tree)


def norm_ast(src):
    t = ast.parse(src)
    t = strip_noise(t)
    if not t.body or [type(s) for s in t.body] == [ast.Pass]:
        return "EMPTY"
    for n in ast.walk(t):
        if isinstance(n, ast.Constant) and isinstance(n.value, (str, bytes)):
            n.value = ""
    return ast.dump(t)


def comments_of(text):
    """[(normal form of the comment right-stripped, own line?)] of the hint comments; and the others."""
    hints, others = [], []
    toks, exc = real_tokens(text)
    prev_row = -1
    for k, s, sr, sc, er, ec in toks:
        if k == "COMMENT":
            (n, cnt) = NORMALIZE(s)
            if cnt:
                hints.append((n.rstrip(), sr != prev_row))
            else:
                others.append(s)
        if k not in ("NL", "COMMENT", "INDENT", "DEDENT") or (k == "COMMENT"):
            if k != "COMMENT":
                prev_row = er
    return hints, others, exc


NORMALIZE = None
CLEAN = None


def expected_hints(src):
    """Hint comments the cleaned text must still carry: all those of the source, except the ones inside
    the `__main__` part and on `sys.path` injection lines (which the property lets go)."""
    try:
        tree = ast.parse(src)
    except SyntaxError:
        return None
    dead = set()
    for s in tree.body:
        if is_main_guard(s) or is_injection(s):
            dead.update(range(s.lineno, s.end_lineno + 1))
    toks, exc = real_tokens(src)
    out = []
    prev_row = -1
    for k, s, sr, sc, er, ec in toks:
        if k == "COMMENT":
            (n, cnt) = NORMALIZE(s)
            if cnt and sr not in dead:
                out.append((n.rstrip(), sr != prev_row, sr))
        elif k not in ("NL", "INDENT", "DEDENT"):
            prev_row = er
    return out


def clauses(drv, src):
    """Evaluate the sentences of C13 on one valid program. Returns the list of failed clauses
    [(clause, detail)]; [] = the property holds on `src`."""
    bad = []
    r = call(CLEAN, src)
    if "exc" in r:
        return [("raises", r["exc"])], None
    out = r["ok"]
    try:
        ast.parse(out)
        valid = True
    except SyntaxError as exc:
        valid = False
        bad.append(("valid-python", f"{type(exc).__name__}: {exc.msg} line {exc.lineno}"))
    if valid:
        if norm_ast(out) != norm_ast(src):
            bad.append(("same-ast-modulo-noise", None))
        left = [ast.unparse(s)[:60] for s in ast.parse(out).body if is_main_guard(s) or is_injection(s)]
        if left:
            bad.append(("main-guard-and-injections-dropped", left))
    sp = drv.call("c13.spec.text", texts=[out])["r"][0]
    if not sp["noBlankLine"]:
        bad.append(("no-blank-line", None))
    if valid:
        hints, others, _ = comments_of(out)
        if others:
            bad.append(("only-hint-comments", others[:3]))
        exp = expected_hints(src)
        got = [(h, own) for h, own in hints]
        if exp is not None and [(h, own) for h, own, _ in exp] != got:
            bad.append(("hints-kept", {"expected": exp, "got": got}))
    r2 = call(CLEAN, out)
    if r2.get("ok") != out:
        bad.append(("idempotent", r2.get("ok", r2)))
    return bad, out


# ---- neutralisers: each removes exactly one known offending shape from a program text -------------

def is_docstring_like(node):
    return isinstance(node, ast.Expr) and isinstance(node.value, ast.Constant) and isinstance(node.value.value, str)


def leading_hints(text):
    """Number of hint comments in the leading block of `#` lines (what suppress_first_comments deletes)."""
    n = 0
    lines = text.split("\n")
    for l in lines[:-1]:
        if not l.startswith("#"):
            break
        n += 1 if NORMALIZE(l)[1] else 0
    return n


def n_first_line_hint(src):
    """F08: drop the hint comments that stand in the leading block of `#` lines of the text — or of the
    text cleaned once (the lines above them being noise), where a second cleaning deletes them."""
    lines = src.split("\n")
    n = leading_hints(src)
    if n:
        out, seen = [], 0
        for l in lines:
            if seen < n and l.startswith("#") and NORMALIZE(l)[1]:
                seen += 1
                continue
            out.append(l)
        return "\n".join(out), True
    r = call(CLEAN, src)
    exp = expected_hints(src)
    if "ok" not in r or not exp:
        return src, False
    n = leading_hints(r["ok"])
    got = comments_of(r["ok"])[0]
    if not n or [(h, own) for h, own, _ in exp] != got or not all(own for _, own, _ in exp[:n]):
        return src, False
    kill = {row for _, _, row in exp[:n]}
    return "\n".join(l for i, l in enumerate(lines, 1) if i not in kill), True


def n_string_leading(src):
    """F18: parenthesise the string literal that begins a statement which is not docstring-like."""
    toks, exc = real_tokens(src)
    if exc:
        return src, False
    lines = src.split("\n")
    edits = []
    prev = "NEWLINE"
    for i, (k, s, sr, sc, er, ec) in enumerate(toks):
        if k in ("NL", "COMMENT"):
            continue
        if k == "STRING" and prev in ("NEWLINE", "INDENT", "DEDENT"):
            nxt = next((t for t in toks[i + 1:] if t[0] not in ("COMMENT",)), None)
            if nxt is not None and nxt[0] != "NEWLINE":
                edits.append((sr, sc, er, ec))
        prev = k
    if not edits:
        return src, False
    for sr, sc, er, ec in sorted(edits, reverse=True):
        if sr != er:
            return src, False
        l = lines[sr - 1]
        lines[sr - 1] = l[:sc] + "(" + l[sc:ec] + ")" + l[ec:]
    return "\n".join(lines), True


def n_fstring_braces(src):
    """F19: replace the doubled braces of f-strings by other characters (string contents aside)."""
    fm = getattr(token_mod, "FSTRING_MIDDLE", None)
    if fm is None:
        return src, False
    ls = src.split("\n")
    edits = []
    lines = iter(src.split("\n"))
    try:
        for t in tokenize_mod.generate_tokens(lambda: next(lines) + "\n"):
            if t.type == fm and ("{" in t.string or "}" in t.string):
                if "\n" in t.string:
                    return src, False
                row, col = t.start
                for c in t.string:
                    if c in "{}":
                        if ls[row - 1][col:col + 2] != c * 2:
                            return src, False
                        edits.append((row, col, "((" if c == "{" else "))"))
                        col += 2
                    else:
                        col += 1
    except Exception:  # noqa
        return src, False
    if not edits:
        return src, False
    for row, col, rep in edits:
        ls[row - 1] = ls[row - 1][:col] + rep + ls[row - 1][col + 2:]
    return "\n".join(ls), True


def n_after_guard(src):
    """F20: cut the program where the `__main__` part ends (drop the code that follows the block)."""
    try:
        tree = ast.parse(src)
    except SyntaxError:
        return src, False
    for i, s in enumerate(tree.body):
        if is_main_guard(s) and i + 1 < len(tree.body):
            lines = src.split("\n")
            return "\n".join(lines[:s.end_lineno]) + "\n", True
    return src, False


def n_leading_blank(src):
    """F21: drop the blank lines and hint-less comment lines that precede the first token."""
    lines = src.split("\n")
    i = 0
    out = []
    changed = False
    while i < len(lines) - 1:
        st = lines[i].strip()
        if st == "" or (st.startswith("#") and not NORMALIZE(st)[1] and not lines[i].startswith("#")):
            changed = True
        elif lines[i].startswith("#") and not NORMALIZE(st)[1]:
            out.append(lines[i])  # what suppress_first_comments removes anyway
        else:
            break
        i += 1
    if not changed:
        return src, False
    return "\n".join(out + lines[i:]), True


def n_double_pass(src):
    """F22: in an indented block, a `pass` or docstring-like statement followed by another one: drop the
    first (both become `pass` lines of the same indentation, of which one cleaning removes only one)."""
    try:
        tree = ast.parse(src)
    except SyntaxError:
        return src, False
    lines = src.split("\n")
    kill = set()

    def trivial(n):
        return isinstance(n, ast.Pass) or is_docstring_like(n)

    for node in ast.walk(tree):
        for f in ("body", "orelse", "finalbody"):
            b = getattr(node, f, None)
            if not (isinstance(b, list) and b and isinstance(b[0], ast.stmt)):
                continue
            for x, y in zip(b, b[1:]):
                if x.col_offset > 0 and trivial(x) and trivial(y) and x.end_lineno < y.lineno:
                    head = lines[x.lineno - 1][:x.col_offset]
                    tail = lines[x.end_lineno - 1][x.end_col_offset:].strip()
                    if head.strip() == "" and (tail == "" or (tail.startswith("#") and not NORMALIZE(tail)[1])):
                        kill.update(range(x.lineno, x.end_lineno + 1))
    if not kill:
        return src, False
    return "\n".join(l for i, l in enumerate(lines, 1) if i not in kill), True


def n_pass_then_hint(src):
    """F23: drop a hint comment standing on its own line right under a `pass` (or docstring-like statement)
    of the same indentation: the `pass` is taken for useless although no sibling statement follows."""
    try:
        tree = ast.parse(src)
    except SyntaxError:
        return src, False
    lines = src.split("\n")
    trivial_end = {}
    for node in ast.walk(tree):
        if isinstance(node, ast.Pass) or is_docstring_like(node):
            if lines[node.lineno - 1][:node.col_offset].strip() == "":
                trivial_end[node.end_lineno] = node.col_offset
    kill = set()
    for i, l in enumerate(lines):
        st = l.lstrip(" ")
        if not (st.startswith("#") and NORMALIZE(st)[1]):
            continue
        j = i - 1
        while j >= 0 and (lines[j].strip() == "" or (lines[j].strip().startswith("#") and (j in kill or not NORMALIZE(lines[j])[1]))):
            j -= 1
        if j >= 0 and trivial_end.get(j + 1) == len(l) - len(st):
            kill.add(i)
    if not kill:
        return src, False
    return "\n".join(l for i, l in enumerate(lines) if i not in kill), True


def n_continuation_col0(src):
    """F25: a backslash-continued line that starts at column 0: indent it by one space (same tree)."""
    toks, exc = real_tokens(src)
    if exc:
        return src, False
    lines = src.split("\n")
    rows = set()
    prev = None
    for k, s, sr, sc, er, ec in toks:
        if prev is not None and prev[0] not in ("NEWLINE", "NL", "COMMENT", "INDENT", "DEDENT") and sr > prev[4] \
                and sc == 0 and k not in ("NEWLINE", "NL", "INDENT", "DEDENT") and s != "":
            rows.add(sr)
        prev = (k, s, sr, sc, er, ec)
    if not rows:
        return src, False
    for r in rows:
        lines[r - 1] = " " + lines[r - 1]
    return "\n".join(lines), True


def n_compound_docstring(src):
    """F39: a docstring-like statement that is not ONE string token alone on its logical line (implicit
    concatenation, parentheses, `;`): rewrite the statements of that logical line one per line, the docstring
    as a lone `"d"` (same tree, string contents aside)."""
    try:
        tree = ast.parse(src)
    except (SyntaxError, ValueError):
        return src, False
    lines = src.split("\n")
    edits = []
    for node in ast.walk(tree):
        for f in ("body", "orelse", "finalbody"):
            b = getattr(node, f, None)
            if not (isinstance(b, list) and b and isinstance(b[0], ast.stmt)):
                continue
            for st in b:
                if not is_docstring_like(st):
                    continue
                group = [x for x in b if x.lineno <= st.end_lineno and x.end_lineno >= st.lineno]
                first, last = min(x.lineno for x in group), max(x.end_lineno for x in group)
                seg = "\n".join(lines[first - 1:last])
                toks, exc = real_tokens(seg.lstrip(" \t"))
                kinds = [k for k, *_ in toks if k not in ("COMMENT", "NL") and _[0] != ""] if not exc else None
                if kinds in (["STRING", "NEWLINE"], ["STRING"]):
                    continue  # the plain form
                if not all(isinstance(x, ast.Pass) or is_docstring_like(x) for x in group):
                    continue
                if lines[first - 1][:min(x.col_offset for x in group if x.lineno == first)].strip(" \t(") != "":
                    continue  # shares its line with something else (`def f(): "d"`)
                indent = lines[first - 1][:len(lines[first - 1]) - len(lines[first - 1].lstrip(" \t"))]
                while last < len(lines) and lines[last - 1].rstrip().endswith("\\"):
                    last += 1
                new = [indent + ('"d"' if is_docstring_like(x) else "pass") for x in group]
                if (first, last, new) not in edits:
                    edits.append((first, last, new))
    if not edits:
        return src, False
    for first, last, new in sorted(edits, reverse=True):
        lines[first - 1:last] = new
    return "\n".join(lines), True


NEUTRALISERS = [
    ("C13:docstring-not-a-lone-string-token", n_compound_docstring),
    # No finding of C13 is open: nothing is explained away. (The neutralisers of the repaired findings — F08,
    # F18, F19, F20, F21, F22, F23, F33 — are kept above for reference but deliberately NOT consulted.)
]


def neutralise(src, sigs):
    cur, applied = src, []
    for _ in range(3):  # removing one shape may uncover another (e.g. a hint line above a blank line)
        again = False
        for sig, fn in NEUTRALISERS:
            if sig not in sigs:
                continue
            new, ch = fn(cur)
            if ch and valid(new):
                cur = new
                again = True
                if sig not in applied:
                    applied.append(sig)
        if not again:
            break
    return cur, applied


def attribute(drv, src):
    """Which known shapes explain the failure of `src`? Remove every known offending shape present;
    if some clause still fails the failure is NOT explained (None). Otherwise return the shapes whose
    removal is necessary (leaving any of them in makes a clause fail again)."""
    every = [sig for sig, _ in NEUTRALISERS]
    cur, applied = neutralise(src, every)
    if not applied or clauses(drv, cur)[0]:
        return None
    needed = []
    for sig in applied:
        other, _ = neutralise(src, [x for x in applied if x != sig])
        if clauses(drv, other)[0]:
            needed.append(sig)
    return needed or applied


def shrink_program(drv, src, keep, budget=300):
    """Line-based reduction keeping `keep(text)` true (valid Python is checked here)."""
    def ok(s):
        try:
            ast.parse(s)
        except (SyntaxError, ValueError):
            return False
        return keep(s)
    lines = src.split("\n")
    n = max(1, len(lines) // 2)
    while n >= 1 and budget > 0:
        i = 0
        progressed = False
        while i < len(lines) and budget > 0:
            cand = lines[:i] + lines[i + n:]
            budget -= 1
            if cand and ok("\n".join(cand)):
                lines = cand
                progressed = True
            else:
                i += n
        if not progressed:
            n //= 2
    return "\n".join(lines)


def judge_program(ctx, drv, stream, origin, src, bad, seen_sigs):
    """`src` is a valid program on which some clause fails. Returns False when an unexplained
    violation was recorded (the stream stops there)."""
    ctx.cov["disagreements_checked"] += 1
    for c, _ in bad:
        ctx.dist(f"{stream}:fails:{c}")
    sigs = attribute(drv, src)
    if sigs is None:
        # not explained as it stands: minimise, then try again
        small = shrink_program(drv, src, lambda s: bool(clauses(drv, s)[0]) and attribute(drv, s) is None)
        b2, o2 = clauses(drv, small)
        ctx.violations.append({
            "what": "full cleaning breaks C13 on a valid program: " + ", ".join(c for c, _ in b2),
            "replay": {"kind": "program", "origin": origin, "source": small, "cleaned": o2, "failed_clauses": b2,
                       "original_source": src},
            "signature": None,
        })
        return False
    for sig in sigs:
        ctx.dist(f"{stream}:known:{sig}")
        if sig in seen_sigs:
            continue
        seen_sigs.add(sig)
        small = shrink_program(drv, src, lambda s: attribute(drv, s) == [sig], budget=60)
        if attribute(drv, small) != [sig]:
            small = src
        b2, o2 = clauses(drv, small)
        ctx.violations.append({
            "what": f"{sig}: " + ", ".join(c for c, _ in b2),
            "name": sig.split(":")[1][:40],
            "replay": {"kind": "program", "origin": origin, "source": small, "cleaned": o2, "failed_clauses": b2},
            "signature": sig,
        })
    return True


def valid(src):
    try:
        ast.parse(src)
        return True
    except (SyntaxError, ValueError):
        return False


def property_stream(ctx, drv, stream, cases, seen_sigs):
    """cases: iterable of (origin, src, bare or None, shapes used)."""
    for origin, src, bare, used in cases:
        if not valid(src) or (bare is not None and not valid(bare)):
            ctx.dist(f"{stream}:skipped-invalid-input")
            continue
        for u in used:
            ctx.dist(f"{stream}:shape:{u}")
        all_hold = True
        outs = []
        for which, text in (("noisy", src), ("bare", bare)):
            if text is None:
                continue
            bad, out = clauses(drv, text)
            outs.append(out)
            ctx.count(stream, text, nontrivial=(out is not None and out != text))
            if not bad:
                ctx.dist(f"{stream}:holds")
                if len([s for s in ctx.cov["samples"] if s.get("stream") == stream]) < 2:
                    ctx.sample({"stream": stream, "origin": origin, "source": text[:500], "cleaned": out[:500],
                                "clauses": "all hold"}, limit=16)
                continue
            all_hold = False
            if not judge_program(ctx, drv, stream, f"{origin}:{which}", text, bad, seen_sigs):
                return
        if bare is not None and all_hold:
            ctx.count(stream + ":noise-invariance", (src, bare), nontrivial=(src != bare))
            if outs[0] != outs[1]:
                ctx.cov["disagreements_checked"] += 1
                ctx.dist(f"{stream}:fails:invariant-under-noise")
                explained = None
                for sig, fn in NEUTRALISERS:
                    src2, ch = fn(src)
                    if ch and valid(src2) and not clauses(drv, src2)[0] and call(CLEAN, src2).get("ok") == outs[1]:
                        explained = (sig, src2)
                        break
                if explained:
                    sig = explained[0]
                    ctx.dist(f"{stream}:known:{sig}")
                    if sig not in seen_sigs:
                        seen_sigs.add(sig)
                        ctx.violations.append({
                            "what": f"{sig}: cleaning is not invariant under insertion of a docstring",
                            "name": sig.split(":")[1][:40],
                            "replay": {"kind": "program-pair", "origin": origin, "source": src, "bare": bare,
                                       "cleaned": outs[0], "cleaned_bare": outs[1], "neutralised": explained[1]},
                            "signature": sig,
                        })
                    continue
                ctx.violations.append({
                    "what": "cleaning is not invariant under insertion of comments / blank lines / docstrings",
                    "replay": {"kind": "program-pair", "origin": origin, "source": src, "bare": bare,
                               "cleaned": outs[0], "cleaned_bare": outs[1]},
                    "signature": None,
                })
                return


HAND_PICKED = F50_INPUTS + [
    'x = 1\n__import__("sys").path[0:0] = ["a"]\nif __name__ == "__main__":\n    pass', 'x = 1\n__import__("sys").path[0:0] = ["a"]',
    '__import__("sys").path[0:0] = ["a"]', 'if\t__name__ == "__main__":\n    pass\nx = 1\n', 'if __name__ == \\\n  "__main__":\n    pass\nx = 1\n',
    'if (__name__ == "__main__"):\n    main()\nx = 1\n', "if __name__ == \'\'\'__main__\'\'\':\n    main()\nelif y:\n    z = 1\nx = 1\n",
    'if __name__ == "__main__" or x:\n    main()\ny = 1\n', 'def f():\n    if __name__ == "__main__":\n        g()\n', 'if __name__ != "__main__":\n    y = 2\n',
    'x = f"\\N{DIGIT ONE}"\n', 'x = f"\\N{DIGIT ONE}{a}{{b}}{c:>{w}}"\n', 'x = rf"\\N{a}{{b}}"\n', 'x = f"""\\N{BULLET}\n{a}"""\n', 'x = f"\\\\N{{x}}"\n',
    'def f():\n    "doc" # c\n    return 1\n', 'def f():\n    "doc" # paroxython: foo\n    return 1\n',
    'def f():\n    """Lorem.\n\n    Ipsum.\n    """  # c\n    return 1\n', 'def f(): "d"\n', '# x # paroxython: foo\ny = 1\n',
    'def f():\n    pass; pass\n    x = 1\n', 'def f():\n    "d" # c\n', 'class A:\n    "doc"  # c\n\n    # d\n    x = 1\n',
    'def f():\n    "a" "b"\n    return 1\n', 'def f():\n    ("d")\n    return 1\n', 'def f():\n    "d"; x = 1\n    return x\n',
    'def countdown(n):\n  \twhile n:\n  \t  \tprint(n)\n  \t  \tn -= 1\n  \treturn n\ncountdown(3)\n',
    'if x:\n\ty = 1\n\tz = 2\n', 'if x:\n\t y = 1\n\t z = 2\nw = 3\n', 'for i in a:\n \tif i:\n \t \tb = 1\n \t \tc = 2\n \td = 3\n',
    's = "a\tb"\nt = 1\t+\t2\nu\t=\t[\n\t1,\t# c\n  \t2,\n]\n', 'class A:\n\tdef f(self):\n\t    """doc"""\n\t    return 1\n\tx = 2\n',
    'if __name__ == "__main__":\n    main()\nx = 2\n', 'x = 1\nif __name__ == "__main__":\n    a()\nelse:\n    b()\ny = 2\n',
    'def main():\n    pass\nif __name__ == "__main__": main()\nz = 3\n',
    'if __name__ == "__main__":\n    s = """a\nb at column 0\n"""\n    main()\n# paroxython: foo\nx = 1\n',
    "if __name__=='__main__':\n    a()\nx = 1\nif  __name__  ==  \"__main__\" :\n    b()\ny = 2\n",
    'if __name__ == "__main__" and x:\n    a()\ny = 1\n', 's = """\nif __name__ == "__main__":\n"""\nx = 1\n',
    'def f():\n    if __name__ == "__main__":\n        g()\n    return 1\n',
    'def f(done, failed):\n    return not \\\n        done and not failed\n', 'x = first if flag else \\\nsecond\n',
    'ok = low <= x and \\\n    x <= high\n', 'if a and \\\n   b:\n    pass\n', 'y = 1 + \\\n    2\n',
    'for i in \\\nxs:\n    pass\n', 'def g(a, b):\n    if a is \\\n    b:\n        return a or \\\nb\n',
    'z = a \\\n    and b  # c\n', 'while not \\\n        done:\n    done = step()  # paroxython: foo\n',
    'x = f"{{a}}"\n', 'x = f"a{b}c"\n', '"abc".join(x)\n', 'def f():\n    "doc"\n    "-".join(a)\n    return 1\n',
    'x = 1\n"a" if x else "b"\n', '\nx = 1\n', 'x = """a\n\n  b"""\n', 'if x:\n    pass\n    # c\ny = 1\n',
    'class A:\n    """d"""\n\n    x = 1\n', 'x = 1 # paroxython: foo\n# paroxython: bar\n', 'def f():\n    pass\n    pass\n',
    'x = [\n    1, # c\n    2,\n]\n', 'x = 1; "doc"\n', 'if __name__ == "__main__":\n    main()\nx = 2\n',
    's = "if __name__ == \'__main__\':"\n', 'x = (1 +\n\n     2)\n', 'def f(): "doc"\n', 'x = 1\n\n\n    \ny = 2',
    'x = "# not a comment"\n', "x = 1 #paroxython:a\n", "# paroxython: foo\nx = 1\n", '\n"doc"\nx = 1\n',
    '#!/usr/bin/env python\n\n"""doc"""\nx = 1\n', 'def f():\n    pass\n    pass\n    x\n', 'pass\npass\nx\n',
    'class A:\n    """doc"""\n', 'def f():\n    # c\n    "doc"\n    x\n', 'x = 1\n\n"doc"\ny=2\n',
    '# c\n# d\n"""doc"""\nfoo()\n', 'foo = bar #   Paroxython   :   hint_1   hint_2\n#paroxython: hint_3\n',
    'if a:\n    if b:\n        pass\n    pass\nz = 1\n', '__import__("sys").path[0:0] = ["programs"]\nx = 1\n',
    'foo = bar\nif __name__ == "__main__":\n    bar = foo\n', "x = 1 # paroxython: foo  \ny = 2\n",
]


def run(ctx):
    global NORMALIZE, CLEAN
    warnings.filterwarnings("ignore", category=SyntaxWarning)
    core.prove(ctx)
    core.import_repo()
    import importlib

    pp = importlib.import_module("paroxython.preprocess_source")
    init_kinds(pp)
    Cleanup = pp.Cleanup
    NORMALIZE = Cleanup.normalize_paroxython_comments
    CLEAN = lambda s: str(Cleanup("full").run(s))  # noqa
    PASS_IMPL.update({
        "first_comments": Cleanup.suppress_first_comments,
        "sys_path": Cleanup.suppress_sys_path_injection, "normalize": Cleanup.normalize_paroxython_comments,
        "blank_lines": Cleanup.suppress_blank_lines, "useless_pass": Cleanup.suppress_useless_pass_statements,
        "strip": lambda s: s.strip(), "tabs": lambda s: s.replace("\t", "    "),
        "finish": lambda s: Cleanup.suppress_useless_pass_statements(Cleanup.suppress_blank_lines(s.strip())),
    })
    quick = ctx.tier == "quick"
    drv = core.Driver()
    try:
        if pp.HINT_COMMENT != HINT:
            ctx.broken.append("const:HINT_COMMENT")
            ctx.notes.append(f"HINT_COMMENT is {pp.HINT_COMMENT!r}; the model assumes {HINT!r}")
        # ---- the tie
        regex_streams(ctx, drv, Cleanup)
        preprocess_stream(ctx, drv, pp)
        loop_synthetic(ctx, drv, pp)
        gen = ProgGen(ctx.rng)
        corpus = sorted((core.REPO / "examples").glob("**/*.py"))
        if quick:
            corpus = ctx.rng.sample(corpus, min(len(corpus), 120))
        corpus_programs = []
        for p in corpus:
            try:
                corpus_programs.append((f"corpus:{p.relative_to(core.REPO)}", p.read_text()))
            except Exception:  # noqa
                pass
        generated = []
        for i in range(600 if quick else 5000):
            core_items = gen.program()
            level = ctx.rng.choice([0.2, 0.4, 0.6])
            noisy = gen.render(core_items, level, variant=True)
            bare = gen.render(core_items, 0)
            used = set(gen.used)
            generated.append((f"generated:{i}", noisy, bare, used))
        malformed = []
        pool = [s for _, s in corpus_programs[:60]] + [g[1] for g in generated[:200]] + HAND_PICKED
        for i in range(150 if quick else 1500):
            s = ctx.rng.choice(pool)
            s = mutate(ctx.rng, s)
            malformed.append((f"malformed:{i}", s))
        all_texts = ([(f"hand:{i}", s) for i, s in enumerate(HAND_PICKED)] + corpus_programs
                     + [(o, s) for o, s, _, _ in generated] + [(o, b) for o, _, b, _ in generated[:100]] + malformed)
        guard_stream(ctx, drv, pp, all_texts)
        loop_programs(ctx, drv, pp,
                      [(f"hand:{i}", s) for i, s in enumerate(HAND_PICKED)] + corpus_programs
                      + [(o, s) for o, s, _, _ in generated] + [(o, b) for o, _, b, _ in generated[:100]] + malformed)
        # ---- the property on whole programs (exercised only)
        seen_sigs = set()
        past = []
        for f in sorted((core.VERIF / "corpus" / "c13").glob("*.json")):
            o = json.loads(f.read_text(encoding="utf-8"))
            if o.get("kind") == "program":
                past.append((f"corpus-file:{f.name}", o["source"], None, set()))
        property_stream(ctx, drv, "property:past-cases", past, seen_sigs)
        property_stream(ctx, drv, "property:hand-picked", [(f"hand:{i}", s, None, set()) for i, s in enumerate(HAND_PICKED)], seen_sigs)
        property_stream(ctx, drv, "property:corpus", [(o, s, None, set()) for o, s in corpus_programs], seen_sigs)
        property_stream(ctx, drv, "property:generated", generated, seen_sigs)
    finally:
        drv.close()
    ctx.cov["rule"] = (
        "regex:* — every sequence over the pass's token alphabet up to the stated length (+ random longer ones); "
        "non-trivial = the pass changes the text (or counts a marker). loop:synthetic — every kind sequence up to "
        "the stated length + random token lists with plausible and implausible positions, through the real loop; "
        "non-trivial = has a COMMENT or STRING token. loop:programs / property:* — distinct program texts; "
        "non-trivial = cleaning changes the text."
    )
    ctx.cov["proved"] = [n.split(".")[-1] for n, ax in ctx.cov.get("theorems", {}).items() if ax != "DOES-NOT-CHECK"]
    ctx.cov["exercised_only"] = [
        "the cleaned text is a valid program (CPython parser)",
        "its AST equals the original's modulo docstring-like statements, `pass` followed by a sibling, the __main__ part, sys.path injections, string contents",
        "no comment other than hint comments in the cleaned text, every hint comment kept at its place (needs the tokenizer on both texts)",
        "unchanged by inserting/deleting comments, blank lines, docstrings (bare vs noisy layout of one core program)",
        "clean(clean(x)) == clean(x) on whole programs",
    ]
    ctx.cov["trusted_base"] = core.BASE_TRUST + [
        "R2: the structural Lean models of the fixed regexes of Cleanup (suppress_sys_path_injection is no longer one of them: parser oracle since F50) agree with the `regex` engine — validated "
        "token-level bounded-exhaustively and randomly on every run, not proved",
        "CPython's tokenizer and parser, the `regex` engine, `str.strip`, `str.split`: outside the model",
        "whitespace is modelled on the alphabet ASCII 0x09-0x0D, 0x20-0x7E (+ non-space non-ASCII); `\\s` and str.isspace differ on 0x1C-0x1F",
    ]
    ctx.assumptions += [
        "theorems about the token loop quantify over ALL token lists (kinds, strings, positions), not only those CPython produces",
        "the sentences needing CPython's grammar are exercised on generated/corpus programs only",
        "suppress_sys_path_injection: the parser's line numbers are those of split('\\n') (no lone \\r / \\f\\r used as a line break: "
        "there `lines[lineno - 1]` may raise IndexError, which the model reads as 'no match'); the streams contain no \\r",
    ]
    unexplained = [v for v in ctx.violations if v.get("signature") is None]
    if not unexplained and (not ctx.proofs_ok or ctx.broken):
        ctx.violations.append({
            "no_input": True,
            "what": "a proof or the correspondence no longer checks",
            "replay": {"kind": "no-failing-input-found", "no_longer_checks": ctx.broken, "notes": ctx.notes[:5],
                       "build_errors": ctx.cov.get("build_errors"),
                       "searched": "regex / loop / program streams of this run: the implementation's outputs still satisfy the property predicates"},
        })
    return core.finish(ctx)


def mutate(rng, s):
    if not s:
        return "("
    k = rng.randrange(6)
    i = rng.randrange(len(s))
    if k == 0:
        return s[:i]
    if k == 1:
        return s[:i] + rng.choice(["(", ")", "[", '"', "'", '"""', "\\", "\x00", "\x0c", "$", "?"]) + s[i:]
    if k == 2:
        return s[:i] + s[i + 1:]
    if k == 3:
        lines = s.split("\n")
        j = rng.randrange(len(lines))
        lines[j] = rng.choice([" ", "   ", "\t", ""]) + lines[j]
        return "\n".join(lines)
    if k == 4:
        lines = s.split("\n")
        j = rng.randrange(len(lines))
        lines[j] = lines[j].lstrip()
        return "\n".join(lines)
    return s.replace("\n", "\r\n") if rng.random() < 0.3 else s[:i] + rng.choice(["é", "…", "≤", "\xa0", "\x1c"]) + s[i:]


def replay(ctx, path):
    global NORMALIZE, CLEAN
    core.import_repo()
    import importlib

    pp = importlib.import_module("paroxython.preprocess_source")
    init_kinds(pp)
    NORMALIZE = pp.Cleanup.normalize_paroxython_comments
    CLEAN = lambda s: str(pp.Cleanup("full").run(s))  # noqa
    obj = json.loads(Path(path).read_text(encoding="utf-8"))
    drv = core.Driver()
    try:
        kind = obj.get("kind")
        if kind == "program":
            src = obj["source"]
            bad, out = clauses(drv, src)
            pre = guard_cases(drv, pp.Cleanup, [src])[1][0]["preprocess"]
            toks, exc = real_tokens(pre)
            m = drv.call("c13.model.loop", tokens=toks) if exc is None else {"final": f"<tokenizer raises {exc}>"}
            print("source :", repr(src))
            print("impl   :", repr(out))
            print("model  :", repr(m["final"]))
            print("spec   : failed clauses =", bad)
            return 1 if bad else 0
        if kind == "guard":
            c, m = guard_cases(drv, pp.Cleanup, [obj["source"]])
            print("source :", repr(obj["source"]))
            print("parser :", c[0]["ifs"])
            print("impl   :", call(pp.Cleanup.suppress_main_guard, obj["source"]))
            print("model  :", repr(m[0]["guard"]))
            print("spec   :", repr(m[0]["spec"]), "(keepOutsideGuards)")
            return 0
        if kind == "sys-path":
            c, m = sys_path_cases(drv, [obj["text"]])
            print("text   :", repr(obj["text"]))
            print("parser :", c[0]["stmts"], "(lineno, end_lineno, col_offset == 0)")
            print("impl   :", call(pp.Cleanup.suppress_sys_path_injection, obj["text"]))
            print("model  :", repr(m[0]["model"]))
            print("spec   :", repr(m[0]["spec"]), "(keepOutsideGuards on injectionMarks)", "rangesOk =", m[0]["rangesOk"])
            return 0
        if kind == "regex-pass":
            f = {"first_comments": pp.Cleanup.suppress_first_comments,
                 "sys_path": pp.Cleanup.suppress_sys_path_injection, "normalize": pp.Cleanup.normalize_paroxython_comments,
                 "blank_lines": pp.Cleanup.suppress_blank_lines, "useless_pass": pp.Cleanup.suppress_useless_pass_statements}.get(obj["pass"])
            print("text  :", repr(obj["text"]))
            print("impl  :", repr(f(obj["text"])) if f else obj.get("impl"))
            print("model :", repr(drv.call("c13.model.pass", name=obj["pass"], texts=[obj["text"]])["r"][0]))
            return 0
        if "tokens" in obj:
            m = drv.call("c13.model.loop", tokens=obj["tokens"])
            print("impl  :", obj.get("impl"))
            print("model :", repr(m["final"]))
            print("spec  :", drv.call("c13.spec.text", texts=[m["final"]])["r"][0])
            print("spec per token [isComment, isHint, isString, atStmtStart, docstringLike]:",
                  drv.call("c13.spec.loop", tokens=obj["tokens"])["rows"])
            return 0
        print(json.dumps(obj, indent=1)[:2000])
        return 0
    finally:
        drv.close()
