"""C01 — structural tags match the syntax tree of the stored source.

Theorems: lean/Paroxy/Props/C01.lean (the `node` matcher on the dump of any well-formed tree yields
exactly one (type, own line) per positioned node). Tie:
 (i)  the hand matcher `c01.matches` / `c01.bindings` against the real `regex` engine with the pattern
      read from spec.md at run time and the real `get_bindings`, on flat ASTs of generated / corpus
      programs, bounded-exhaustively on all small trees over a 3-type alphabet, and on token-level line
      pools;
 (ii) end to end: the `node:*` labels reported by ProgramParser / cli_tag.main / TagDatabase (both
      cleanup strategies) against `c01.spec` computed by the driver from `ast.parse(stored_source)`.
"""
import ast
import collections
import importlib
import itertools
import json
from pathlib import Path

from . import core
from . import flat_export as fe
from .c15 import neutralise, SEEDS, ADVERSARIAL_SEEDS, ALL_FEATURES, WIDE_SEEDS

CONSTANT_TYPES = {"Num", "Str", "Bytes", "NameConstant", "Ellipsis"}

SIG = {
    "str-contains-_pos=": "C01:str-constant-containing-_pos=",
}

MORE_ADVERSARIAL = [
    "async def b(g, d: ctx, /, **h) -> '_pos=3:1-:2':\n    pass\n",
    "x = 'a_pos=3:1-:2'\nfor i in x:\n    pass\nelse:\n    pass\n",
    "s = '''\n/body/1/_type=For\n/body/1/_pos=1:1-\n/body/1/loopelse/_length=1\n/body/1/loopelse/1/_pos=2:1-3-1-:\n'''\n",
    "x = -b\"it's\"\n",
    # ordinary comments that look like PEP 484 type comments, where PEP 484 allows none
    # valid programs on which the parser has a remark (SyntaxWarning)
    *fe.WARN_SEEDS, *[w + "\n" for w in fe.WARN_STMTS],
    "size = 1\n# type: 1 for a square, 2 for a triangle\nif size:  # type: the size\n    print(size)  # type: ignore\n",
]


def positioned_ast_types():
    out = set(CONSTANT_TYPES)
    for c in vars(ast).values():
        if isinstance(c, type) and issubclass(c, ast.AST) and "lineno" in getattr(c, "_attributes", ()):
            out.add(c.__name__)
    out.discard("alias")  # "import aliases skipped"
    return out


def python_oracle(tree):
    """Independent oracle (plain Python over `ast.walk`): one (type, line) per node that carries a line number, with
    the three documented adjustments — constants renamed by kind, a minus sign folded into a numeric literal, import
    aliases skipped."""
    def kind(v):
        if isinstance(v, str):
            return "Str"
        if isinstance(v, bytes):
            return "Bytes"
        if v is True or v is False or v is None:
            return "NameConstant"
        if v is Ellipsis:
            return "Ellipsis"
        return "Num"

    def is_neg_literal(n):
        return (isinstance(n, ast.UnaryOp) and isinstance(n.op, ast.USub) and isinstance(n.operand, ast.Constant)
                and kind(n.operand.value) == "Num")

    folded_operands = {id(n.operand) for n in ast.walk(tree) if is_neg_literal(n)}

    def counts(n):
        return hasattr(n, "lineno") and not isinstance(n, ast.alias) and id(n) not in folded_operands

    # line of the last positioned strict descendant in the order of the flat AST (fields in ast order, `body` last for
    # definitions and classes): since fix 44b0b15 an occurrence starts on the smaller of that line and the node's own
    last_desc = {}

    def last_in_subtree(n):
        """Line of the last positioned node of the subtree of n (n included), in flat-AST order; None if none."""
        fields = list(ast.iter_fields(n))
        if isinstance(n, (ast.FunctionDef, ast.AsyncFunctionDef, ast.ClassDef)):
            fields.sort(key=lambda c: c[0] == "body")
        last = None
        for _, x in fields:
            for child in (x if isinstance(x, list) else [x]):
                if isinstance(child, ast.AST):
                    sub = last_in_subtree(child)
                    if sub is not None:
                        last = sub
        last_desc[id(n)] = last
        return last if last is not None else (n.lineno if counts(n) else None)

    last_in_subtree(tree)
    out = collections.Counter()
    starts = collections.Counter()
    for n in ast.walk(tree):
        if not counts(n):
            continue
        if is_neg_literal(n):
            ty = "Num"
        elif isinstance(n, ast.Constant):
            ty = kind(n.value)
        else:
            ty = type(n).__name__
        out[(ty, n.lineno)] += 1
        ld = last_desc.get(id(n))
        starts[(ty, n.lineno if ld is None else min(n.lineno, ld))] += 1
    return out, starts


class E2E:
    def __init__(self, ctx, drv, mods):
        self.ctx = ctx
        self.drv = drv
        self.pp, self.lp, self.cli_tag, self.make_db, self.ut = mods
        self.parser = self.pp.ProgramParser()
        self.ptypes = positioned_ast_types()
        self.fail_by_sig = {}
        self.novel = []

    def expected(self, stored):
        tree = ast.parse(stored)
        r = self.drv.call("c01.spec", tree=fe.export(tree))
        self.ctx.dist("hypothesis treeOk holds on the (tweaked) real tree" if r["wf"] else "hypothesis treeOk FAILS on the (tweaked) real tree")
        spec_nodes = collections.Counter((t, ln) for t, ln in r["nodes"])
        spec_starts = collections.Counter((t, ln) for t, ln in r["starts"])
        oracle_nodes, oracle_starts = python_oracle(tree)
        self.ctx.dist("hypothesis lastDescMono (C01_node_starts: every occurrence starts on its node's own line) " +
                      ("holds" if r["last_desc_mono"] else "FAILS") + " on the (tweaked) real tree")
        if r["last_desc_mono"] and spec_starts != spec_nodes:
            self.ctx.broken.append("corr:c01.spec starts differ from own lines although lastDescMono holds")
        if spec_starts != oracle_starts:
            self.ctx.broken.append("corr:c01.spec-starts-vs-python-oracle")
            self.ctx.cov.setdefault("corr_replay", {"stored": ast.unparse(tree)[:400],
                                                    "spec_minus_oracle": sorted((spec_starts - oracle_starts).elements())[:6],
                                                    "oracle_minus_spec": sorted((oracle_starts - spec_starts).elements())[:6]})
        if spec_nodes != oracle_nodes:
            # the Lean specification and the independent Python reading of the property text disagree
            self.ctx.broken.append("corr:c01.spec-vs-python-oracle")
            self.ctx.cov.setdefault("corr_replay", {"stored": ast.unparse(tree)[:400],
                                                    "spec_minus_oracle": sorted((spec_nodes - oracle_nodes).elements())[:6],
                                                    "oracle_minus_spec": sorted((oracle_nodes - spec_nodes).elements())[:6]})
        else:
            self.ctx.dist("c01.spec == independent Python oracle")
        self.ctx.dist("hypotheses of C01_node_labels_pipeline (wfStages6 + wfTweak + treeOk of tweak) " + ("hold" if r["wf_pipeline"] else "FAIL") + " on the real tree")
        # what is compared with the labels: (type, start of the occurrence) — the node's own line under lastDescMono
        return spec_starts, tree

    def got_from_labels(self, labels, exp):
        # `alias`: "import aliases skipped" — no occurrence at all is expected for that type
        ptypes = self.ptypes | {t for (t, _) in exp} | {"alias"}
        got = collections.Counter()
        for name, spans in labels:
            if name.startswith("node:") and name[5:] in ptypes:
                for s in spans:
                    got[(name[5:], s[0])] += 1
        return got

    def direct(self, src):
        """Entry point: ProgramParser()(get_program(source)). Returns (stored, labels | exception name)."""
        program = self.lp.get_program(self.ut.Source(src))
        try:
            labels = self.parser(program)
        except Exception as exc:  # noqa: the parser state may be dirty
            self.parser = self.pp.ProgramParser()
            return program.source, f"<{type(exc).__name__}>"
        return program.source, [(l.name, [(s.start, s.end) for s in l.spans]) for l in labels]

    def verdict(self, stored, labels):
        """None if the property holds on this stored source, else a description."""
        try:
            exp, _ = self.expected(stored)
        except (SyntaxError, ValueError):
            return "skip"
        if isinstance(labels, str):
            return {"exception": labels}
        errs = [n for n, _ in labels if n.startswith("ast_construction:")]
        if errs:
            # the stored source parses here (`expected` did not raise). An empty program, a literal too long for repr, a
            # tree too deep are documented refusals; a *syntax error* on a text that CPython parses is not: no tag of
            # that program matches its syntax tree any more
            body = ast.parse(stored).body
            if errs == ["ast_construction:SyntaxError"] or (errs == ["ast_construction:EmptyProgramError"] and body):
                return {"missing": sorted(exp.elements())[:5], "extra": [], "reported_instead": errs}
            return "skip"
        got = self.got_from_labels(labels, exp)
        if got == exp:
            return None
        return {"missing": sorted((exp - got).elements())[:5], "extra": sorted((got - exp).elements())[:5]}

    def fails(self, src):
        try:
            stored, labels = self.direct(src)
        except Exception:
            return False
        v = self.verdict(stored, labels)
        return v is not None and v != "skip"

    def record(self, stream, name, src, why):
        ctx = self.ctx
        ctx.cov["disagreements_checked"] += 1
        try:
            tree = ast.parse(self.lp.get_program(self.ut.Source(src)).source)
        except Exception:
            tree = ast.parse("pass")
        feats = {f for f in fe.quirk_features(tree) if f in SIG}
        try:
            # a failure that a plain round trip through the tree repairs depends on the comments or on the layout: no
            # recorded finding (they are all about the tree) explains it, and the tree-level tools would lose it
            if not self.fails(ast.unparse(ast.parse(src)) + "\n"):
                ctx.dist("novel-failure (depends on comments or layout)")
                if len(self.novel) < 4:
                    self.novel.append((stream, name, src, why))
                return
        except Exception:
            pass
        try:
            clean = neutralise(src, set())
            still = self.fails(clean)
        except Exception:
            clean, still = src, True
        if still or not feats:
            ctx.dist("novel-failure")
            if len(self.novel) < 4:
                self.novel.append((stream, name, clean if still else src, why))
            return
        causes = []
        for f in sorted(feats):
            try:
                only = neutralise(src, {f})
            except Exception:
                continue
            if self.fails(only):
                causes.append((f, only))
        if not causes:
            # no recorded feature suffices alone (e.g. a `_pos=` string that is only captured because an async def keeps
            # its body before `returns`): look for the *necessary* ones (removing it alone repairs the case)
            for f in sorted(feats):
                try:
                    without = neutralise(src, ALL_FEATURES - {f})
                except Exception:
                    continue
                if not self.fails(without):
                    causes.append((f, src))
        if not causes:
            ctx.dist("novel-failure")
            if len(self.novel) < 4:
                self.novel.append((stream, name, src, why))
            return
        for f, only in causes:
            ctx.dist(f"finding:{f}")
            self.fail_by_sig.setdefault(f, []).append((stream, name, only))

    def finish_violations(self):
        ctx = self.ctx
        for f, cases in sorted(self.fail_by_sig.items()):
            stream, name, src = min(cases, key=lambda c: len(c[2]))
            small = fe.shrink(src, self.fails, budget=120)
            stored, labels = self.direct(small)
            ctx.violations.append({
                "what": f"`node:` labels differ from the positioned nodes of the stored source ({f}); {len(cases)} case(s)",
                "signature": SIG[f],
                "replay": {"kind": "e2e", "stream": stream, "name": name, "source": small, "stored_source": stored,
                           "observed": self.verdict(stored, labels)},
            })
        for stream, name, src, why in self.novel:
            small = fe.shrink(src, self.fails, budget=120)
            small = line_shrink(small, self.fails)
            stored, labels = self.direct(small)
            ctx.violations.append({
                "what": "`node:` labels differ from the positioned nodes of the stored source (not explained by a recorded finding)",
                "signature": None,
                "replay": {"kind": "e2e", "stream": stream, "name": name, "source": small, "stored_source": stored,
                           "observed": self.verdict(stored, labels), "first_seen": why},
            })


def decorate(rng, src):
    """Add comments, blank lines and (harmless) hints."""
    lines = src.split("\n")
    out = []
    for l in lines:
        if l.strip() and not l.rstrip().endswith((":", ",", "(", "[", "{", '"""', "'''")) and rng.random() < 0.12 \
                and l.count('"') % 2 == 0 and l.count("'") % 2 == 0 and "#" not in l and '"""' not in l:
            l = l + rng.choice(["  # a comment", "  # paroxython: foo", "  # paroxython: +bar:baz", "  # type: the size",
                                "  # type: ignore"])
        out.append(l)
        if rng.random() < 0.08:
            # (comments that merely look like PEP 484 type comments are ordinary comments for `ast.parse(source)`)
            out.append(rng.choice(["", "    ", "# standalone comment", "# type: 1 for a square, 2 for a triangle",
                                   "# type: int"]))
    return "\n".join(out)


def line_shrink(src, fails, budget=150):
    """Delete lines one at a time while the program keeps failing (for failures that depend on comments or layout,
    which the AST-level shrinker cannot keep)."""
    lines = src.split("\n")
    i = 0
    while i < len(lines) and budget > 0 and len(lines) > 1:
        cand = lines[:i] + lines[i + 1:]
        budget -= 1
        try:
            ok = fails("\n".join(cand))
        except Exception:
            ok = False
        if ok:
            lines = cand
        else:
            i += 1
    return "\n".join(lines)


def parse_tsv(text):
    labels = []
    for row in text.split("\n")[1:]:
        if "\t" not in row:
            continue
        name, spans = row.split("\t", 1)
        couples = []
        for c in spans.split(", "):
            if not c.strip():
                continue  # a label listed without any span
            a, _, b = c.partition("-")
            couples.append((int(a), int(b or a)))
        labels.append((name, couples))
    return labels


def small_trees(max_nodes):
    """All ordered trees with at most `max_nodes` nodes over the type alphabet {P positioned statement,
    E positioned expression, N unpositioned}; the children of a node hang either all in a list field `b`,
    or the first one in a field `a` and the others in `b`. Line numbers = pre-order rank."""
    TYPES = [("P", False, True), ("E", True, True), ("N", False, False)]

    def forests(n):  # ordered forests with n nodes
        if n == 0:
            yield []
            return
        for k in range(1, n + 1):
            for first in trees(k):
                for rest in forests(n - k):
                    yield [first] + rest

    def trees(n):
        for ty in TYPES:
            for kids in forests(n - 1):
                layouts = ["list"] if not kids else ["list", "first"]
                for lay in layouts:
                    yield (ty, lay, kids)

    def build(t, counter):
        (name, is_expr, pos), lay, kids = t
        counter[0] += 1
        ln = counter[0] if pos else None
        built = [build(k, counter) for k in kids]
        fields = []
        if lay == "first":
            fields.append(["a", built[0]])
            built = built[1:]
        fields.append(["b", ["l", built]])
        return ["n", name, is_expr, f"{name}{counter[0]}", ln, fields]

    for n in range(1, max_nodes + 1):
        for t in trees(n):
            yield ["n", "M", False, "", None, [["body", ["l", [build(t, [0])]]]]]


def run(ctx):
    core.prove(ctx)
    core.import_repo()
    pp = importlib.import_module("paroxython.parse_program")
    fa = importlib.import_module("paroxython.flatten_ast")
    lp = importlib.import_module("paroxython.list_programs")
    cli_tag = importlib.import_module("paroxython.cli_tag")
    make_db = importlib.import_module("paroxython.make_db")
    ut = importlib.import_module("paroxython.user_types")
    import regex

    feats = {n: (lang, spec) for (n, lang, spec) in pp.find_all_features(pp.DEFAULT_SPEC_PATH.read_text())}
    if "node" not in feats or feats["node"][0] != "re":
        ctx.broken.append("spec.md: feature `node` not found")
        node_pat = None
    else:
        node_pat = regex.compile(f"(?mx){feats['node'][1]}")
        ctx.cov["node_pattern"] = feats["node"][1]

    def real_matches(lines):
        text = "".join(l + "\n" for l in lines)
        out = []
        for m in node_pat.finditer(text, overlapped=True):
            d = m.capturesdict()
            out.append({"suffix": d["SUFFIX"][0] if d["SUFFIX"] else None, "pos": d["POS"]})
        return out

    def real_bindings(lines):
        text = "".join(l + "\n" for l in lines)
        out = []
        try:
            for m in node_pat.finditer(text, overlapped=True):
                for name, span in pp.get_bindings("node", m.capturesdict()):
                    out.append([name, span.start, span.end, span.path])
        except ValueError:
            return {"exc": "ValueError"}
        except Exception as exc:  # compared with the model's answer like any other result
            return {"exc": type(exc).__name__}
        return {"bindings": out}

    drv = core.Driver()
    marks = ctx.cov.setdefault("stream_wall_s", {})
    try:
        # ------------------------------------------------------------ (i) matcher vs the real engine
        t0 = ctx.elapsed()
        outside = 0

        def compare_lines(stream, lines, key):
            nonlocal outside
            if node_pat is None:
                return
            if any(l.count("/_type=") > 1 for l in lines):
                outside += 1  # the engine's repeat guards make it incomplete there: outside the matcher's domain
                ctx.dist("matcher:outside-domain(two /_type= on one line)")
                return
            a = real_matches(lines)
            b = drv.call("c01.matches", lines=lines)["matches"]
            ctx.count(stream, key, nontrivial=len(a) > 0)
            if a != b:
                ctx.broken.append(f"corr:{stream}")
                ctx.cov.setdefault("corr_replay", {"stream": stream, "lines": lines[:60], "impl": a[:10], "model": b[:10]})
                return
            ra = real_bindings(lines)
            rb = drv.call("c01.bindings", lines=lines)
            if ra != rb:
                ctx.broken.append(f"corr:{stream}:bindings")
                ctx.cov.setdefault("corr_replay", {"stream": stream, "lines": lines[:60], "impl": ra, "model": rb})

        sources = list(SEEDS) + list(ADVERSARIAL_SEEDS) + MORE_ADVERSARIAL + list(WIDE_SEEDS)
        gen = fe.Gen(ctx.rng, max_depth=4, adv=0.25)
        n_gen = 120 if ctx.tier == "quick" else 2000
        for i in range(n_gen):
            src, tree, _ = fe.gen_valid(gen)
            sources.append(src)
        for i, src in enumerate(sources):
            try:
                tree0 = ast.parse(src)
            except (SyntaxError, ValueError):
                continue
            try:
                lines = fe.flat_lines(fa.flatten_ast(tree0))
            except Exception as exc:  # reported with this very source by the end-to-end stream below
                ctx.dist(f"matcher:programs: flatten_ast raised {type(exc).__name__}")
                continue
            compare_lines("matcher:programs", lines, hash(src))
        marks["matcher:programs"] = round(ctx.elapsed() - t0, 1)

        # bounded-exhaustive: all small trees, dumped by the model, searched by the real engine
        t1 = ctx.elapsed()
        max_nodes = 4 if ctx.tier == "quick" else 5
        n_trees = 0
        for tr in small_trees(max_nodes):
            lines = drv.call("c15.flatten", tree=tr)["lines"]
            n_trees += 1
            compare_lines("matcher:all-small-trees", lines, n_trees)
            # the statement of C01_node_labels, evaluated with the real engine
            if node_pat is not None:
                exp = collections.Counter((t, ln) for t, ln in drv.call("c01.spec", tree=tr)["nodes"])
                rb = real_bindings(lines)
                got = collections.Counter((b[0][5:], b[1]) for b in rb.get("bindings", []) if b[0][5:] in ("P", "E"))
                if got != exp:
                    ctx.broken.append("corr:theorem-statement-on-small-trees")
                    ctx.cov.setdefault("corr_replay", {"tree": tr, "expected": sorted(exp.elements()), "got": sorted(got.elements())})
        ctx.cov["small_trees"] = {"max_nodes": max_nodes, "count": n_trees, "exhaustive": True}
        marks["matcher:all-small-trees"] = round(ctx.elapsed() - t1, 1)

        # token-level line pools
        t1 = ctx.elapsed()
        pool = ["/a/_type=X", "/_type=M", "/a/_pos=1:1-", "/a/b/_pos=2:1-0-", "/a/b/_type=Y", "/a/b/c/_pos=3:", "/a/x=1",
                "/ab/_type=Z", "/ab/_pos=4:", "/a/_type=X/_pos=5:", "/a/1/_pos=6:", "/a/b", "/a/", "", "/a/b/c/d=",
                "/a/_pos=", "x=/a/_type=Q", "/a/_pos=7", "/a/_pos=8:1:2", "/a/b_1/_pos=9:0-",
                "/a/1/_type=P", "/a/10/_type=P", "/a/10/_pos=10:1-10-", "/a/100/_pos=11:1-100-", "/a/9/_type=P", "/a/99/x=1"]
        cases = [list(t) for k in range(4 if ctx.tier == "thorough" else 3) for t in itertools.product(pool, repeat=k)]
        for _ in range(6000 if ctx.tier == "quick" else 40000):
            cases.append([ctx.rng.choice(pool) for _ in range(ctx.rng.randint(4, 9))])
        if node_pat is not None:
            outs = fe.batch(drv, [{"op": "c01.matches", "lines": c} for c in cases])
            outs2 = fe.batch(drv, [{"op": "c01.bindings", "lines": c} for c in cases])
            for c, o, o2 in zip(cases, outs, outs2):
                a = real_matches(c)
                ctx.count("matcher:line-pools", tuple(c), nontrivial=len(a) > 0)
                if a != o["matches"] or real_bindings(c) != o2:
                    ctx.broken.append("corr:matcher:line-pools")
                    ctx.cov.setdefault("corr_replay", {"lines": c, "impl": a, "model": o["matches"],
                                                       "impl_bindings": real_bindings(c), "model_bindings": o2})
                    break
        marks["matcher:line-pools"] = round(ctx.elapsed() - t1, 1)
        ctx.cov["matcher_outside_domain"] = outside

        # ------------------------------------------------------------------------- (ii) end to end
        t1 = ctx.elapsed()
        try:
            e2e = E2E(ctx, drv, (pp, lp, cli_tag, make_db, ut))
        except Exception as exc:
            import traceback
            ctx.broken.append("corr:C01 end to end (ProgramParser() cannot be constructed on the shipped spec.md)")
            ctx.violations.append({
                "what": f"ProgramParser() raised {type(exc).__name__}: {str(exc)[:300]} on the shipped spec.md: no program can be tagged",
                "no_input": True, "name": "crash",
                "replay": {"kind": "no-failing-input-found", "call": "paroxython.parse_program.ProgramParser()",
                           "exception": f"{type(exc).__name__}: {str(exc)[:300]}",
                           "traceback": traceback.format_exception(type(exc), exc, exc.__traceback__)[-8:]}})
            return core.finish(ctx)
        progs = []
        for i, src in enumerate(SEEDS + ADVERSARIAL_SEEDS + MORE_ADVERSARIAL + WIDE_SEEDS):
            progs.append((f"seed{i}", src))
        corpus = sorted((core.REPO / "examples").glob("**/programs/**/*.py"))
        ctx.rng.shuffle(corpus)
        for p in corpus[: (40 if ctx.tier == "quick" else 250)]:
            try:
                progs.append((str(p.relative_to(core.REPO)), p.read_text(encoding="utf-8")))
            except Exception:
                pass
        if ctx.tier == "thorough":
            for p in sorted((core.REPO / "tests").glob("test_flatten_ast.py")):
                progs.append((str(p.relative_to(core.REPO)), p.read_text(encoding="utf-8")))
        gen2 = fe.Gen(ctx.rng, max_depth=3, adv=0.12, width=3)
        for i in range(110 if ctx.tier == "quick" else 1800):
            src, tree, _ = fe.gen_valid(gen2)
            if ctx.rng.random() < 0.5:
                dec = decorate(ctx.rng, src)
                try:
                    ast.parse(dec)
                    src = dec
                except SyntaxError:
                    pass
            progs.append((f"gen{i}", src))
        crashed = set()
        for name, src in progs:
            try:
                stored, labels = e2e.direct(src)
            except Exception as exc:  # get_program itself (hint syntax): not this property
                ctx.dist(f"get_program:{type(exc).__name__}")
                crashed.add(name)
                continue
            v = e2e.verdict(stored, labels)
            if v == "skip":
                ctx.dist("e2e:stored-source-not-parsable")
                continue
            exp, _ = e2e.expected(stored)
            ctx.count("e2e:ProgramParser(get_program)", hash(stored), nontrivial=sum(exp.values()) >= 3)
            ctx.dist("e2e:positioned-nodes", sum(exp.values()))
            if v is None:
                if len(ctx.cov["samples"]) < 3 and 2 <= stored.count("\n") <= 8:
                    ctx.sample({"entry": "ProgramParser()(get_program(src))", "stored_source": stored,
                                "node_labels": sorted((t, ln) for (t, ln) in exp.elements())[:12], "equal_to_spec": True})
                continue
            if isinstance(labels, str):
                crashed.add(name)
            e2e.record("e2e:ProgramParser(get_program)", name, src, v)
        marks["e2e:direct"] = round(ctx.elapsed() - t1, 1)

        # cli_tag.main (a fresh parser per call: few programs)
        t1 = ctx.elapsed()
        picks = [p for p in progs if p[0] not in crashed]
        ctx.rng.shuffle(picks)
        for name, src in picks[: (12 if ctx.tier == "quick" else 150)]:
            try:
                out = cli_tag.main(ut.Source(src), tags="Label", output_format="tsv")
            except Exception as exc:
                ctx.dist(f"cli_tag:{type(exc).__name__}")
                continue
            stored = lp.get_program(ut.Source(src)).source
            v = e2e.verdict(stored, parse_tsv(out))
            if v == "skip":
                continue
            ctx.count("e2e:cli_tag.main", hash(stored), nontrivial=True)
            if v is not None and not e2e.fails(src):
                # the direct entry point agrees with the specification but `tag` does not
                ctx.violations.append({"what": "cli_tag.main reports other node labels than ProgramParser on the same source",
                                       "signature": None, "replay": {"kind": "cli_tag", "source": src, "observed": v}})
        marks["e2e:cli_tag"] = round(ctx.elapsed() - t1, 1)

        # TagDatabase under both cleanup strategies, with the text actually parsed recorded
        t1 = ctx.elapsed()
        import contextlib
        import io

        cleanup = importlib.import_module("paroxython.preprocess_source").Cleanup
        for strategy in ("full", "none"):
            d = ctx.scratch_dir() / f"db-{strategy}"
            d.mkdir()
            n = 0
            for name, src in picks[: (70 if ctx.tier == "quick" else 850)]:
                try:
                    cleaned = cleanup(strategy).run(ut.Source(src))
                    st, lab = e2e.direct(cleaned)
                    if isinstance(lab, str):
                        continue  # would abort the whole collection (C14's business); already reported above
                except Exception:
                    continue
                n += 1
                (d / f"p{n:04d}.py").write_text(src, encoding="utf-8")
            parsed_texts = []
            real_parse = ast.parse

            def recording_parse(source, *a, **k):
                if isinstance(source, str):
                    parsed_texts.append(source)
                return real_parse(source, *a, **k)

            ast.parse = recording_parse
            try:
                with contextlib.redirect_stdout(io.StringIO()):
                    db = make_db.TagDatabase(d, ignore_timestamps=True, cleanup_strategy=strategy)
            except Exception as exc:
                ctx.dist(f"TagDatabase({strategy}):{type(exc).__name__}")
                ctx.notes.append(f"TagDatabase({strategy}) raised {type(exc).__name__}: {exc}")
                continue
            finally:
                ast.parse = real_parse
            for path, info in db.programs_infos.items():
                stored = info["source"]
                labels = [(nm, [tuple(c) for c in couples]) for nm, couples in info["labels"].items()]
                v = e2e.verdict(stored, labels)
                if v == "skip":
                    ctx.dist(f"e2e:{strategy}:stored-source-not-parsable")
                    continue
                ctx.count(f"e2e:TagDatabase(cleanup={strategy})", hash(stored), nontrivial=True)
                # C01_same_text: the text parsed is the text stored
                if stored not in parsed_texts:
                    ctx.violations.append({"what": "the parser was not given the stored source", "signature": None,
                                           "replay": {"kind": "same-text", "strategy": strategy, "path": path, "stored": stored}})
                if v is not None:
                    src = (d / path).read_text(encoding="utf-8")
                    if not e2e.fails(stored):
                        ctx.violations.append({"what": f"collect (cleanup={strategy}) stores other node labels than the parser gives for the stored source",
                                               "signature": None,
                                               "replay": {"kind": "collect", "strategy": strategy, "source": src, "stored": stored, "observed": v}})
                    else:
                        e2e.record(f"e2e:TagDatabase(cleanup={strategy})", path, stored, v)
        marks["e2e:TagDatabase"] = round(ctx.elapsed() - t1, 1)
        e2e.finish_violations()
    finally:
        drv.close()

    ctx.cov["rule"] = (
        "a case = one list of lines searched by both the real regex engine (pattern of feature `node` read from spec.md) and the "
        "hand matcher (non-trivial: at least one match), or one program tagged end to end (non-trivial: at least 3 positioned nodes)"
    )
    ctx.cov["proved"] = sorted(t.split(".")[-1] for t in ctx.cov.get("theorems", {}))
    ctx.cov["exercised_only"] = [
        "ast.parse, Cleanup, get_program (the stored source and its tree are inputs)",
        "the `same text` clause: that ProgramParser parses exactly the stored source (recorded ast.parse argument vs "
        "programs_infos[path]['source'] during TagDatabase, both cleanup strategies)",
        "that the real regex engine behaves as the hand matcher (validated on every run, see streams matcher:*; domain: lines "
        "with at most one occurrence of /_type=, where the engine's repeat guards do not prune backtracking over group 1)",
        "the 172 other features and the SQL derivations (only `node:` labels are examined)",
    ]
    ctx.cov["trusted_base"] = core.BASE_TRUST + [
        "harness/flat_export.py exporter; the C15 model of flatten_ast (tied by ./check C15)",
        "the hand transcription of the `node` pattern (Model/NodeFeature.lean), validated against the real engine on every run",
        "CPython's parser and line numbers",
    ]
    ctx.assumptions += ["model alphabet for \\w and int(): ASCII", "Tree.WF (checked on every exported tree by the C01 theorem's Bool form)"]
    if not fe.unexplained(ctx, core) and (not ctx.proofs_ok or ctx.broken):
        ctx.violations.append({
            "no_input": True,
            "what": "a proof or the correspondence no longer checks",
            "replay": {"kind": "no-failing-input-found", "no_longer_checks": sorted(set(ctx.broken)),
                       "build_errors": ctx.cov.get("build_errors"), "corr_replay": ctx.cov.get("corr_replay"),
                       "searched": "generated, corpus and adversarial programs through ProgramParser, cli_tag.main and TagDatabase "
                                   "(both cleanup strategies): `node:` labels equal the specification on every program explored"},
        })
    ctx.broken = sorted(set(ctx.broken))
    return core.finish(ctx)


def replay(ctx, path):
    core.import_repo()
    data = json.loads(Path(path).read_text(encoding="utf-8"))
    pp = importlib.import_module("paroxython.parse_program")
    lp = importlib.import_module("paroxython.list_programs")
    cli_tag = importlib.import_module("paroxython.cli_tag")
    make_db = importlib.import_module("paroxython.make_db")
    ut = importlib.import_module("paroxython.user_types")
    drv = core.Driver()
    try:
        e2e = E2E(ctx, drv, (pp, lp, cli_tag, make_db, ut))
        src = data.get("source") or data.get("stored")
        stored, labels = e2e.direct(src)
        print("stored source:\n" + stored)
        if isinstance(labels, str):
            print("implementation raised", labels)
            return 1
        exp, _ = e2e.expected(stored)
        got = e2e.got_from_labels(labels, exp)
        print("impl node labels :", sorted(got.elements()))
        print("spec (c01.spec)   :", sorted(exp.elements()))
        return 0 if got == exp else 1
    finally:
        drv.close()
