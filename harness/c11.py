"""C11 — the tag database is a faithful, self-consistent record of the collection.

Proved (lean/Paroxy/Props/C11.lean): inverted indexes, sorted spans, importations = sorted transitive
closure for every graph (termination included), exportations = exact inverse, DB well-formedness,
SQLite row construction — all about the model `Paroxy.DB.makeDb`.

Tie (this file): correspondence
  (a) real directories generated under a scratch dir -> TagDatabase -> get_json/json.loads and
      write_sqlite/sqlite3 read back, against `c11.model` fed with the recorded outputs of the real
      parser and taxonomy;
  (b) the helper functions of make_db.py / label_programs.py on synthetic inputs (random graphs with
      cycles and dangling targets, token-level bounded-exhaustive label names, random span lists).
  (c') X3: `c11.db_json` — getJsonText (dbToJson (makeDb …)) (Model/JsonDb.lean; proved: C11_db_json_roundtrip,
      C11_dbToJson_injective) byte for byte against get_json() on every generated directory, inside (a).
  (c) the JSON TEXT layer (Model/JsonText.lean; proved: C11_json_roundtrip, C11_compact_only_span_lists, …): the real
      get_json() text BYTE FOR BYTE against the model's compact (dumps2 data ++ "\n") on every generated directory and on
      adversarial data of the database shape (look-alike span lists in sources, control characters, non-ASCII, astral
      characters, lone surrogates, quotes, backslashes); json.dumps vs dumps2 on random values; the compaction scanner vs
      regex.sub with the pattern READ FROM the source of get_json on arbitrary texts; the model's parser vs json.loads.
Exercised only: sqlite3.
"""
import contextlib
import io
import itertools
import json
import os
import sqlite3
from collections import Counter
from pathlib import Path

from . import core



# --------------------------------------------------------------------------------- generators

MODS = ["a", "b", "c", "m1", "util", "zeta"]
PKGS = ["pkg", "pkg/sub", "lib"]
STD = ["os", "math", "sys", "itertools"]

# characters that str.splitlines() treats as line boundaries but "\n".split does not (and \f), raw inside string
# literals: the stored source must keep them verbatim
ODD = ["\x0b", "\x0c", "\x1c", "\x1d", "\x1e", "\x85", "\u2028", "\u2029", "\x1f", "\xa0"]
ODD_BODY = [f's = "a{c}b"\nprint(s)' for c in ODD] + [f"t = 'x{ODD[0]}y{ODD[6]}z'", f'u = """k{ODD[2]}\nl{ODD[5]}"""',
                                                      "v = 'carriage\rreturn'", f"w = 1  # comment {ODD[7]} here"]

# manual hints ADDING a label whose name the program also gets from an SQL query of spec.md (the parser then returns two
# entries of that name) or from a regex feature (one merged entry): one-line, pair (`name...` … `...name`), whole-program
HINTED = [
    "a = 1 + 2\nb = 3 # paroxython: addition_operator",
    "# paroxython: addition_operator\na = 1 + 2\nb = 3",
    "a = 1 + 2 # paroxython: addition_operator...\nb = 3\nc = 4 # paroxython: ...addition_operator",
    "for i in range(3):\n    print(i)\nx = 1 # paroxython: loop:for",
    "s = 'a' + 'b'\nt = 0 # paroxython: concatenation_operator:Str",
    "def f(n):\n    return n * 2\nprint(f(3)) # paroxython: multiplication_operator pure_function:f",
    "a = 1 + 2\nb = 3 # paroxython: node:Assign literal:1 binary_operator:Add",
    "acc = 0\nfor i in range(5): # paroxython: accumulate_elements:Add...\n    acc = acc + i\nprint(acc) # paroxython: ...accumulate_elements:Add",
    "a = 1 + 2 # paroxython: addition_operator -addition_operator\nb = 4 + 5",
]

BODY = [
    "x = 1",
    "t = [ 1, 2 ] + [3]",
    "u = [ 1, 2 ]  ",
    's = "[ 1, 2 ] "',
    's = " [\\n 1,\\n 2\\n ], "',
    "s = '''[\n      1,\n      2\n    ],\n'''",
    "v = [[ 10, 20 ], [ 3, 4 ]] ",
    "def f(n):\n    return [ n, 2 ]",
    "for i in range(3):\n    print(i)",
    "w = {'k': [ 7, 8 ] , 'l': [9,10]}",
    "print('[ 1, 2 ] ,')",
    "y = (\n  [\n    1,\n    2\n  ],\n  3)",
    "class K:\n    z = [ 5, 6 ] ",
    "if x:\n    pass\nelse:\n    x = [ 0, 0 ]",
]


def gen_files(rng, dotted=False):
    """A dict relative path -> source text, with a random import graph (see _gen_files), now and then with a collected file
    whose path is only a CASE VARIANT of a module some program imports and the collection does not hold (`Queue.py` next to
    `import queue`, `pkg/Util.py` next to `import pkg.util`): internality is decided on the exact path (seed C03-m: paths
    compared case-folded)."""
    files = _gen_files(rng, dotted)
    if files and rng.random() < 0.3:
        m = rng.choice(["queue", "os", "utils", "mymod", "pkg.helper", "json"])
        parts = m.split(".")
        variant = rng.choice([parts[-1].capitalize(), parts[-1].upper(), parts[-1][:-1] + parts[-1][-1].upper()])
        path = "/".join(parts[:-1] + [variant]) + ".py"
        exact = "/".join(parts) + ".py"
        if path not in files and exact not in files:
            importer = rng.choice(sorted(files))
            files[importer] = rng.choice([f"import {m}\n", f"from {m} import thing\n"]) + files[importer]
            files[path] = rng.choice(BODY) + "\n"
    return files


def _gen_files(rng, dotted=False):
    """A dict relative path -> source text, with a random import graph."""
    n = rng.choice([1, 2, 2, 3, 3, 4, 5, 6])
    layout = rng.choice(["flat", "flat", "nested", "nested", "deep"])
    paths = []
    pool = list(MODS)
    rng.shuffle(pool)
    for i in range(n):
        name = pool[i % len(pool)] + ("" if i < len(pool) else str(i))
        if layout == "flat":
            d = ""
        elif layout == "nested":
            d = rng.choice(["", "pkg/", "lib/"])
        else:
            d = rng.choice(["", "pkg/", "pkg/sub/", "pkg/sub/", "lib/"])
        if dotted and rng.random() < 0.5:
            if rng.random() < 0.5:
                name = name + ".v2"
            else:
                d = (d + "p.q/") if d else "p.q/"
        p = f"{d}{name}.py"
        if p not in paths:
            paths.append(p)
    if layout != "flat" and rng.random() < 0.4:
        # a module next to the package directory of the same name (pkg.py beside pkg/...): '.' sorts before '/', whereas
        # a Path-wise or module-wise comparison puts the directory's files first
        for top in sorted({p.split("/")[0] for p in paths if "/" in p}):
            paths.append(f"{top}.py")
    if rng.random() < 0.15:
        paths.append(rng.choice(["__init__.py", "setup.py", "a_test.py", "pkg/__init__.py"]))
    if rng.random() < 0.05:
        paths.append("None.py")
    paths = list(dict.fromkeys(paths))
    modname = {p: p[:-3].replace("/", ".") for p in paths}
    files = {}
    shape = rng.choice(["random", "random", "cycle", "chain", "self", "dense", "none", "entry", "entry"])
    if shape == "entry":
        # a cycle of length 1-3 reached from 1-2 programs OUTSIDE the cycle, named to sort before and/or after its members
        k = rng.choice([1, 2, 3])
        members = [f"{rng.choice(['pkg/', '', ''])}{nm}.py" for nm in rng.sample(["m_utils", "n_vectors", "o_core"], k)]
        outside = rng.sample(["a_main.py", "zz_main.py", "b_entry.py", "pkg/a_first.py", "zz/late.py"], rng.choice([1, 2]))
        paths = list(dict.fromkeys(outside + members + [p for p in paths if rng.random() < 0.3]))
        modname = {p: p[:-3].replace("/", ".") for p in paths}
        files = {}
        for p in paths:
            if p in members:
                i = members.index(p)
                lines = [f"import {modname[members[(i + 1) % k]]}"]
                if rng.random() < 0.2:
                    lines.append(f"import {modname[rng.choice(members)]}")
            elif p in outside:
                lines = [rng.choice([f"import {modname[rng.choice(members)]}", f"from {modname[rng.choice(members)]} import f"])]
                if rng.random() < 0.3:
                    lines.append(f"import {modname[rng.choice(outside)]}")
            else:
                lines = [f"import {modname[rng.choice(paths)]}"] if rng.random() < 0.5 else []
            files[p] = "\n".join(lines + [rng.choice(BODY)]) + "\n"
        return files
    order = list(paths)
    for idx, p in enumerate(paths):
        lines = []
        targets = []
        if shape == "random":
            targets = [q for q in paths if rng.random() < 0.35]
        elif shape == "dense":
            targets = [q for q in paths if rng.random() < 0.8]
        elif shape == "cycle":
            targets = [order[(idx + 1) % len(order)]]
            if rng.random() < 0.3:
                targets.append(rng.choice(paths))
        elif shape == "chain":
            targets = [order[idx + 1]] if idx + 1 < len(order) else []
        elif shape == "self":
            targets = [p] + [q for q in paths if rng.random() < 0.2]
        for q in targets:
            m = modname[q]
            form = rng.choice(["import", "import", "from", "as", "multi", "fromas", "relative", "relmod", "pkgfrom"])
            if form == "import":
                lines.append(f"import {m}")
            elif form == "as":
                lines.append(f"import {m} as alias{len(lines)}")
            elif form == "from":
                lines.append(f"from {m} import name{len(lines)}")
            elif form == "fromas":
                lines.append(f"from {m} import n as k{len(lines)}, o")
            elif form == "multi":
                lines.append(f"import {rng.choice(STD)}, {m}")
            elif form == "relative":
                lines.append(f"from . import {m.split('.')[-1]}")
            elif form == "relmod":
                lines.append(f"from .{m.split('.')[-1]} import g")
            elif form == "pkgfrom" and "." in m:
                pk, _, leaf = m.rpartition(".")
                lines.append(f"from {pk} import {leaf}")
            else:
                lines.append(f"import {m}")
        if rng.random() < 0.5:
            lines.append(rng.choice([f"import {rng.choice(STD)}", "from math import sqrt", "import unknown_mod",
                                     "from ..up import thing" if "/" in p else "import os.path"]))
        if lines and rng.random() < 0.2:
            rng.shuffle(lines)
        k = rng.choice([0, 1, 1, 2, 3])
        body = [rng.choice(BODY) if rng.random() < 0.8 else rng.choice(ODD_BODY) for _ in range(k)]
        if rng.random() < 0.12:
            body = [rng.choice(HINTED)]  # hints are numbered on the stored lines: keep the hinted program whole
        if rng.random() < 0.3:
            # an import nested in a function
            q = rng.choice(paths)
            body.append(f"def g{idx}():\n    import {modname[q]}\n    return 0")
        text = "\n".join(lines + body)
        if rng.random() < 0.04:
            text = "\n".join(lines + [rng.choice(["big = 0x" + "f" * 6000, "bits = 0b" + "1" * 20000,
                                                  "if a == 0:\n    pass\n" + "".join(f"elif a == {i}:\n    pass\n" for i in range(1, 1300))])])
        if rng.random() < 0.1:
            text = ""  # empty file
        elif rng.random() < 0.05:
            text = "x = = 1"  # invalid but tokenisable (untokenisable texts belong to C14)
        files[p] = text + ("\n" if text and rng.random() < 0.8 else "")
    return files


def write_dir(root: Path, files):
    root.mkdir(parents=True, exist_ok=True)
    for rel, text in files.items():
        f = root / rel
        f.parent.mkdir(parents=True, exist_ok=True)
        f.write_text(text, encoding="utf-8")


# ------------------------------------------------------------------------- real implementation

class Recorder:
    """Records the raw outputs of the real parser and taxonomy during one TagDatabase(...)."""

    def __init__(self):
        self.labels = []  # per parse call: [(name, [span triples])]
        self.taxa = []    # per to_taxa call: [(name, [span triples])]


@contextlib.contextmanager
def recording(rec):
    import paroxython.label_programs as lp
    import paroxython.make_db as mdb

    RealParser, RealTaxonomy = lp.ProgramParser, mdb.Taxonomy

    class RecParser(RealParser):
        def __call__(self, program, *a, **k):
            r = RealParser.__call__(self, program, *a, **k)
            rec.labels.append([(l.name, [tuple(s) for s in l.spans]) for l in r])
            return r

    class RecTaxonomy(RealTaxonomy):
        def to_taxa(self, labels):
            r = RealTaxonomy.to_taxa(self, labels)
            rec.taxa.append([(t.name, [tuple(s) for s in t.spans]) for t in r])
            return r

    lp.ProgramParser, mdb.Taxonomy = RecParser, RecTaxonomy
    try:
        yield
    finally:
        lp.ProgramParser, mdb.Taxonomy = RealParser, RealTaxonomy


class Watchdog(BaseException):
    """Raised in the main thread when a call of the implementation exceeds its deadline."""


@contextlib.contextmanager
def deadline(seconds):
    """`with deadline(s):` raises Watchdog inside the block after `s` seconds (pure-Python loops are interruptible)."""
    import signal

    def handler(signum, frame):
        raise Watchdog()

    old = signal.signal(signal.SIGALRM, handler)
    signal.setitimer(signal.ITIMER_REAL, seconds)
    try:
        yield
    finally:
        signal.setitimer(signal.ITIMER_REAL, 0)
        signal.signal(signal.SIGALRM, old)


DEADLINE = 6.0  # seconds; a TagDatabase call on a generated directory takes well under one second


def quiet(fn, *a, **k):
    buf = io.StringIO()
    with contextlib.redirect_stdout(buf):
        return fn(*a, **k)


def span3(s):
    s = tuple(s)
    return [s[0], s[1], s[2] if len(s) > 2 else ""]


def read_sqlite(path):
    con = sqlite3.connect(str(path))
    try:
        out = {}
        for table in ("program", "label", "taxon"):
            out[table] = [list(r) for r in con.execute(f"SELECT * FROM {table} ORDER BY rowid")]
        out["schema"] = sorted(r[0] for r in con.execute("SELECT name FROM sqlite_master WHERE type='table'"))
        return out
    finally:
        con.close()


def run_real(root: Path, out_dir: Path, cleanup="full"):
    """TagDatabase(root) through the real code. Returns a dict with either 'exc' or the parsed JSON,
    the SQLite rows read back, the in-memory data and the recorded parser/taxonomy outputs."""
    from paroxython.make_db import TagDatabase

    rec = Recorder()
    res = {"rec": rec}
    try:
        with recording(rec), deadline(DEADLINE):
            db = quiet(TagDatabase, root, ignore_timestamps=True, cleanup_strategy=cleanup)
    except Watchdog:
        res["exc"] = "Timeout"
        res["exc_msg"] = f"TagDatabase did not return within {DEADLINE} s (collecting must terminate for every import graph)"
        return res
    except RecursionError:
        res["exc"] = "RecursionError"
        return res
    except Exception as exc:  # noqa
        res["exc"] = type(exc).__name__
        res["exc_msg"] = str(exc)[:200]
        return res
    res["db_obj"] = db
    text = db.get_json()
    res["data"] = get_json_data(db)
    res["json_text"] = text
    try:
        res["json"] = json.loads(text)
    except ValueError as exc:
        res["json_error"] = str(exc)[:200]
    jpath = out_dir / "out_db.json"
    quiet(db.write_json, jpath)
    res["json_file_same"] = jpath.read_text() == text
    res["memory"] = json.loads(json.dumps({
        "programs": db.programs_infos, "labels": dict(db.labels), "taxa": dict(db.taxa),
        "importations": dict(db.importations), "exportations": dict(db.exportations)}))
    spath = out_dir / "out_db.sqlite"
    if db.programs_infos and len(str(root)) % 2 == 0:
        # the target already holds the export of an EARLIER, LARGER collection (one more program, with the facts of an
        # existing one): what is written now must be the facts of THIS collection only (seed C18-m: the file updated in
        # place, rows of programs no longer collected never purged)
        import copy
        stale = copy.copy(db)
        first = next(iter(db.programs_infos))
        stale.programs_infos = dict(db.programs_infos)
        stale.programs_infos["zz_no_longer_collected.py"] = db.programs_infos[first]
        quiet(stale.write_sqlite, spath)
    quiet(db.write_sqlite, spath)
    res["sqlite_first"] = read_sqlite(spath)
    # a second export onto the SAME existing files must leave the same facts (and the same JSON bytes)
    quiet(db.write_sqlite, spath)
    res["sqlite"] = read_sqlite(spath)
    quiet(db.write_json, jpath)
    res["json_rewrite_same"] = jpath.read_text() == text
    # the "verbatim" clause, computed independently of get_program: for a hint-free text the stored source is the
    # cleaned text with blank ends stripped
    from paroxython.preprocess_source import Cleanup
    res["verbatim"] = None
    for p, info in db.programs_infos.items():
        try:
            raw = (root / p).read_text()
        except Exception:  # noqa
            continue
        if "paroxython" in raw.lower():
            continue
        expected = str(Cleanup(cleanup).run(raw)).strip()
        if info["source"] != expected:
            res["verbatim"] = {"path": p, "stored": info["source"], "expected": expected}
            break
    return res


def progs_request(res):
    """The model's input: programs in collection order with recorded raw labels and taxa."""
    db = res["db_obj"]
    rec = res["rec"]
    paths = list(db.programs_infos.keys())
    if len(rec.labels) != len(paths) or len(rec.taxa) != len(paths):
        return None
    progs = []
    for i, p in enumerate(paths):
        info = db.programs_infos[p]
        progs.append({
            "path": p, "timestamp": info["timestamp"], "source": info["source"],
            "labels": [[n, [span3(s) for s in spans]] for n, spans in rec.labels[i]],
            "taxa": [[n, [span3(s) for s in spans]] for n, spans in rec.taxa[i]],
        })
    return progs


def model_to_obj(m):
    """Driver output (ordered pair lists) -> plain dicts comparable with json.loads(get_json())."""
    db = m["db"]
    return {
        "programs": {p: {"timestamp": r["timestamp"], "source": r["source"],
                         "labels": {k: v for k, v in r["labels"]}, "taxa": {k: v for k, v in r["taxa"]}}
                     for p, r in db["programs"]},
        "labels": {k: v for k, v in db["labels"]},
        "taxa": {k: v for k, v in db["taxa"]},
        "importations": {k: v for k, v in db["importations"]},
        "exportations": {k: v for k, v in db["exportations"]},
    }


def first_diff(a, b, path=""):
    if type(a) != type(b):
        return f"{path}: {str(a)[:80]!r} vs {str(b)[:80]!r}"
    if isinstance(a, dict):
        for k in sorted(set(a) | set(b)):
            if k not in a or k not in b:
                return f"{path}/{k}: only on one side"
            d = first_diff(a[k], b[k], f"{path}/{k}")
            if d:
                return d
        return None
    if isinstance(a, list):
        if len(a) != len(b):
            return f"{path}: lengths {len(a)} vs {len(b)}: {str(a)[:80]} vs {str(b)[:80]}"
        for i, (x, y) in enumerate(zip(a, b)):
            d = first_diff(x, y, f"{path}[{i}]")
            if d:
                return d
        return None
    return None if a == b else f"{path}: {str(a)[:80]!r} vs {str(b)[:80]!r}"


def predict_abort(drv, res, root, cleanup):
    """When TagDatabase aborted after the labelling phase, feed the recorded labels to the model: it
    mirrors the code, so it must predict the same abort (KeyError and its key)."""
    rec = res["rec"]
    try:
        from paroxython.list_programs import list_programs
        programs = quiet(list_programs, root, cleanup_strategy=cleanup)
    except Exception:  # noqa
        return None
    if len(rec.labels) != len(programs):
        return None
    progs = [{"path": p.path, "timestamp": "", "source": p.source,
              "labels": [[n, [span3(x) for x in sp]] for n, sp in rec.labels[i]],
              "taxa": [[n, [span3(x) for x in sp]] for n, sp in rec.taxa[i]] if i < len(rec.taxa) else []}
             for i, p in enumerate(programs)]
    m = drv.call("c11.model", progs=progs)
    return {"exc": m["exc"], "key": m.get("key")} if "exc" in m else {"returns": True}


def dotted_target(files, key):
    """The missing key `a/b.py` stands for a collected path whose dotted form is the same (`a.b.py`)."""
    return any(p != key and p.replace("/", ".") == key.replace("/", ".") for p in files)


def has_dotted(files):
    return any("." in p[:-3] for p in files)


def judge_dir(ctx, drv, files, root, out_dir, cleanup="full"):
    """Run one directory through implementation and model.
    Returns None (agreement) or a dict describing a violation / broken correspondence."""
    res = run_real(root, out_dir, cleanup)
    if "exc" in res:
        what = f"TagDatabase aborted with {res['exc']}"
        model = predict_abort(drv, res, root, cleanup) if res["exc"] != "Timeout" else {"returns": True}
        if res["exc"] == "Timeout":
            what = "TagDatabase does not terminate (watchdog)"
        return {"kind": "violation", "what": what, "impl": {"exc": res["exc"], "msg": res.get("exc_msg")},
                "model": model, "spec": "C11/C14: a database with one record per program (Props/C11.lean: C11_total)",
                "signature": None}
    if "json" not in res:
        return {"kind": "violation", "what": "get_json() is not valid JSON", "impl": res.get("json_error")}
    if res["json"] != res["memory"]:
        return {"kind": "violation",
                "what": "json.loads(get_json()) differs from the data computed in memory: "
                        + str(first_diff(res["json"], res["memory"])),
                "impl": {"at": first_diff(res["json"], res["memory"])}}
    tv = judge_text(ctx, drv, res["data"], res["json_text"], "json-text.directories")
    if tv is not None:
        return tv
    if not res["json_file_same"] or not res["json_rewrite_same"]:
        return {"kind": "violation", "what": "write_json wrote something else than get_json() (first or second write "
                                             "onto the same file)", "impl": None}
    if res["verbatim"] is not None:
        return {"kind": "violation",
                "what": f"stored source of {res['verbatim']['path']} is not verbatim the cleaned, hint-free source",
                "impl": {"stored": res["verbatim"]["stored"]}, "spec": {"cleaned, blank ends stripped": res["verbatim"]["expected"]}}
    if res["sqlite_first"] != res["sqlite"]:
        return {"kind": "violation",
                "what": "a second write_sqlite onto the same file changes the rows read back: "
                        + str(first_diff(res["sqlite_first"], res["sqlite"])),
                "impl": {"rows_after_first_write": {k: len(v) for k, v in res["sqlite_first"].items()},
                         "rows_after_second_write": {k: len(v) for k, v in res["sqlite"].items()}},
                "spec": "the SQLite export holds the same program, label and taxon facts"}
    progs = progs_request(res)
    if progs is None:
        return {"kind": "machinery", "what": "recording wrappers did not see one call per program"}
    # exact inverted indexes: a program is listed once under a name (the record has the name once as a key)
    for index in ("labels", "taxa"):
        for name, paths in res["json"][index].items():
            if len(paths) != len(set(paths)):
                return {"kind": "violation",
                        "what": f"the {index} index lists a program twice under {name}: not the exact inverse of the records",
                        "impl": {index: {name: paths}}, "spec": {index: {name: list(dict.fromkeys(paths))}}}
    # "its labels are those computed": independent oracle = the multiset union over ALL the entries of ProgramParser's
    # result (a hinted label may bear the name of a computed one), sorted distinct spans, projected on (start, end)
    for pr in progs:
        union = {}
        for name, spans in pr["labels"]:
            union.setdefault(name, set()).update((a, b, pth) for a, b, pth in spans)
        stored = res["json"]["programs"][pr["path"]]["labels"]
        for name, bag in union.items():
            if name.startswith("import"):
                continue  # renamed by the relabelling of internal imports: left to the model comparison
            expected = [[a, b] for a, b, _ in sorted(bag)]
            if stored.get(name) != expected:
                entries = [sp for n, sp in pr["labels"] if n == name]
                return {"kind": "violation",
                        "what": f"the stored spans of label {name} are not those computed (all the entries of that name in "
                                f"ProgramParser's result)",
                        "impl": {"program": pr["path"], "stored": stored.get(name), "entries_of_ProgramParser": entries},
                        "spec": {"expected": expected}}
    m = drv.call("c11.model", progs=progs)
    if "exc" in m:
        return {"kind": "broken", "what": f"model raises {m['exc']} where the implementation returns",
                "model": m}
    mobj = model_to_obj(m)
    d = first_diff(res["json"], mobj)
    dsql = None
    if d is None:
        sq = res["sqlite"]
        for table in ("program", "label", "taxon"):
            dsql = first_diff(sq[table], m["sqlite"][table], f"sqlite.{table}")
            if dsql:
                break
        if dsql is None and sq["schema"] != ["label", "program", "taxon"]:
            dsql = f"sqlite schema {sq['schema']}"
    if d is None and dsql is None and (ctx.tier != "quick" or ctx.cov.get("db_json_texts_identical", 0) < 40):
        # (quick tier: the first 40 agreeing directories only — the driver's makeDb + text costs ~0.25 s per directory)
        # X3: the text of the MODEL's database, getJsonText (dbToJson (makeDb …)), byte for byte against get_json()
        # (key orders included, which the dictionary comparison above does not see); C11_db_json_roundtrip is about it.
        mj = drv.call("c11.db_json", progs=progs)
        if "exc" in mj:
            return {"kind": "broken", "what": f"c11.db_json raises {mj['exc']} where c11.model returns", "model": mj}
        ctx.dist("db-json.dbOk", bool(mj["ok"]))
        if mj["ok"] and not mj["back"]:
            return {"kind": "broken", "what": "db-json: loads (getJsonText (dbToJson db)) is not dbToJson db although dbOk db"}
        mjt = uncps(mj["text"])
        if mjt != res["json_text"]:
            return {"kind": "broken",
                    "what": "db-json: get_json() text differs from getJsonText (dbToJson (makeDb …)) although the "
                            f"dictionaries agree (key order / dbToJson): {text_diff(res['json_text'], mjt)}"}
        ctx.cov["db_json_texts_identical"] = ctx.cov.get("db_json_texts_identical", 0) + 1
    if d is None and dsql is None:
        nontrivial = any(v for v in mobj["importations"].values())
        return {"kind": "ok", "nontrivial": nontrivial, "progs": progs, "model": mobj, "res": res}
    # disagreement: ask the specification
    s = drv.call("c11.spec", progs=progs)
    ctx.cov["disagreements_checked"] += 1
    if "exc" in s:
        return {"kind": "broken", "what": "spec undefined (unresolved import) where implementation returns", "at": d or dsql}
    sobj = model_to_obj(s)
    ds = first_diff(res["json"], sobj)
    if ds is None and dsql is not None:
        for table in ("program", "label", "taxon"):
            ds = first_diff(res["sqlite"][table], s["sqlite"][table], f"sqlite.{table}")
            if ds:
                break
    if ds is None:
        return {"kind": "broken", "what": f"model differs from implementation AND from its own specification at {d or dsql}"}
    return {"kind": "violation", "what": f"database differs from the specification at {ds}",
            "impl": {"at_vs_model": d or dsql, "at_vs_spec": ds,
                     "importations": res["json"].get("importations"), "exportations": res["json"].get("exportations")},
            "model": {"importations": mobj["importations"], "exportations": mobj["exportations"]},
            "spec": {"importations": sobj["importations"], "exportations": sobj["exportations"]}}


def shrink_files(files, still_fails, budget=40):
    """Greedy delta debugging on files then on lines."""
    files = dict(files)
    changed = True
    while changed and budget > 0:
        changed = False
        for p in list(files):
            if len(files) <= 1:
                break
            cand = {k: v for k, v in files.items() if k != p}
            budget -= 1
            if budget <= 0:
                break
            if still_fails(cand):
                files = cand
                changed = True
        for p in list(files):
            lines = files[p].split("\n")
            i = 0
            while i < len(lines) and budget > 0:
                cand_lines = lines[:i] + lines[i + 1:]
                cand = dict(files)
                cand[p] = "\n".join(cand_lines)
                budget -= 1
                if still_fails(cand):
                    lines = cand_lines
                    files = cand
                    changed = True
                else:
                    i += 1
    return files


# ------------------------------------------------------------------------------- stream (a)

def stream_dirs(ctx, drv, n_dirs):
    base = ctx.scratch_dir()
    fixed = fixed_dirs()
    for i in range(n_dirs + len(fixed)):
        if i < len(fixed):
            name, files = fixed[i]
            dotted = has_dotted(files)
        else:
            dotted = ctx.rng.random() < 0.06
            files = gen_files(ctx.rng, dotted=dotted)
            name = f"d{i}"
        cleanup = "full" if ctx.rng.random() < 0.8 else "none"
        root = base / name / "progs"
        out = base / name
        write_dir(root, files)
        v = judge_dir(ctx, drv, files, root, out, cleanup)
        key = json.dumps(files, sort_keys=True)
        ctx.dist(f"dirs.{'dotted' if dotted else 'plain'}.cleanup={cleanup}")
        if v["kind"] == "ok":
            ctx.count("directories", key, nontrivial=v["nontrivial"])
            imp = v["model"]["importations"]
            n_edges = sum(len(x) for x in imp.values())
            cyc = any(p in x for p, x in imp.items())
            ctx.dist("dirs.with_cycle" if cyc else "dirs.acyclic")
            ctx.dist("dirs.programs", len(imp))
            ctx.dist("dirs.closure_edges", n_edges)
            if v["nontrivial"]:
                ctx.sample({"files": files, "importations(impl=model)": imp,
                            "exportations(impl=model)": v["model"]["exportations"]}, limit=3)
        elif v["kind"] == "machinery":
            raise core.MachineryError(v["what"])
        elif v["kind"] == "broken":
            ctx.count("directories", key)
            ctx.broken.append("corr:directories")
            ctx.notes.append({"files": files, "cleanup": cleanup, **{k: v[k] for k in v if k != "kind"}})
        else:
            ctx.count("directories", key, nontrivial=True)
            kind0, what0 = v["kind"], v["what"].split(" at ")[0]
            counter = [0]

            def still_fails(cand):
                counter[0] += 1
                r = base / f"{name}-s{counter[0]}" / "progs"
                write_dir(r, cand)
                w = judge_dir(ctx, drv, cand, r, r.parent, cleanup)
                return w["kind"] == kind0 and w["what"].split(" at ")[0] == what0 and w.get("signature") == v.get("signature")

            is_timeout = "terminate" in v["what"]
            if is_timeout:
                ctx.dist("dirs.timeout")
            n_to = ctx.cov["distribution"].get("dirs.timeout", 0)
            n_viol = len(ctx.violations)
            small = files if ((is_timeout and n_to > 1) or n_viol >= 3) else shrink_files(
                files, still_fails, budget=6 if is_timeout else 40)
            r = base / f"{name}-min" / "progs"
            write_dir(r, small)
            w = judge_dir(ctx, drv, small, r, r.parent, cleanup)
            if w["kind"] != "violation":
                small, w = files, v
            ctx.dist("dirs.violation")
            ctx.violations.append({
                "what": w["what"], "signature": w.get("signature"),
                "replay": {"kind": "directory", "files": small, "cleanup": cleanup, "what": w["what"],
                           "impl": w.get("impl"), "model": w.get("model"), "spec": w.get("spec"),
                           "how": "write the files under a fresh directory D; TagDatabase(D, ignore_timestamps=True, "
                                  "cleanup_strategy=cleanup); json.loads(get_json()) / write_sqlite"},
            })
        if len(ctx.violations) >= 8:
            ctx.notes.append("directory stream stopped after eight violations")
            break
        if ctx.cov["distribution"].get("dirs.timeout", 0) >= 3:
            ctx.notes.append("directory stream stopped after three non-terminating directories (each costs a deadline)")
            break
        # keep the scratch small
        if i % 20 == 19:
            for sub in base.iterdir():
                if sub.is_dir():
                    import shutil
                    shutil.rmtree(sub, ignore_errors=True)


def fixed_dirs():
    """Hand-picked directories always run first (the two repaired defects and corner cases)."""
    return [
        ("cycle2", {"a.py": "import b\nx = 1\n", "b.py": "import a\ny = 2\n"}),
        ("selfimp", {"a.py": "import a\n"}),
        ("brackets", {"a.py": "t = [ 1, 2 ] + [3]\nu = [ 4, 5 ] \n", "b.py": "import a\ns = '[ 1, 2 ] , '\n"}),
        ("cycle3", {"a.py": "import b\n", "b.py": "from c import f\n", "c.py": "import a, os\n", "d.py": "import c\n"}),
        ("nested", {"pkg/__init__.py": "", "pkg/m.py": "import pkg.sub.n\nfrom . import q\nfrom .q import g\n",
                    "pkg/q.py": "def g():\n    return 1\n", "pkg/sub/n.py": "from pkg import q\nimport q\n",
                    "q.py": "import pkg.m\nimport unknown\n", "top.py": "from pkg.sub import n\nfrom pkg.sub.n import z\n"}),
        ("empty", {"a.py": "", "b.py": "import a\n"}),
        ("hinted-sql-name", {"a.py": HINTED[0] + "\n"}),
        ("hinted-shapes", {"a.py": HINTED[1] + "\n", "b.py": "import a\n" + HINTED[2] + "\n", "c.py": HINTED[3] + "\n",
                           "d.py": HINTED[4] + "\n", "e.py": HINTED[5] + "\n", "f.py": HINTED[6] + "\n",
                           "g.py": HINTED[7] + "\n", "h.py": HINTED[8] + "\n"}),
        # valid programs whose flattening fails (huge literals, 1500-branch elif chain): reported, never aborting (fix d1e6a10)
        ("unflattenable", {"a.py": "import b\nx = 1\n", "b.py": "y = 2\n", "big.py": "x = 0x" + "f" * 6000 + "\n",
                           "bits.py": "import a\nw = 0b" + "1" * 20000 + "\n",
                           "chain.py": "if a == 0:\n    pass\n" + "".join(f"elif a == {i}:\n    pass\n" for i in range(1, 1500))}),
        ("odd-chars-1", {"a.py": "import b\n" + ODD_BODY[0] + "\n", "b.py": ODD_BODY[6] + "\n" + ODD_BODY[2] + "\n",
                         "c.py": "import a\n" + ODD_BODY[10] + "\n"}),
        ("odd-chars-2", {"a.py": ODD_BODY[1] + "\nimport b\n", "b.py": ODD_BODY[4] + "\n" + ODD_BODY[11] + "\n" + ODD_BODY[5] + "\n",
                         "c.py": ODD_BODY[3] + "\n" + ODD_BODY[7] + "\n" + ODD_BODY[12] + "\n" + ODD_BODY[13] + "\n"}),
        # an entry point outside an import cycle, sorting BEFORE its members (and one sorting after)
        ("entry-before-cycle", {"main.py": "import utils\n", "utils.py": "import vectors\n", "vectors.py": "import utils\n"}),
        ("entry-before-self", {"a.py": "import b\n", "b.py": "import b\nx = 1\n", "c.py": "import b\n"}),
        ("entries-around-cycle3", {"a_main.py": "from n import f\n", "m.py": "import n\n", "n.py": "import o\n",
                                   "o.py": "import m\n", "zz.py": "import a_main\nimport o\n"}),
        ("dotted-file", {"a.b.py": "x = 1\n", "c.py": "import a.b\n"}),
        ("dotted-dir", {"p.q/m.py": "z = 3\n", "e.py": "import p.q.m\n"}),
        ("hint-uncollected", {"a.py": "x = 1 # paroxython: import_internally:zz\n"}),
        ("hint-collected", {"a.py": "x = 1 # paroxython: import_internally:b\n", "b.py": "y = 2\n"}),
    ]


# ------------------------------------------------------------------------------- stream (b)

SORT_SENSITIVE = ["g.py", "g/s.py", "g/t.py", "g-x.py", "g_x.py", "G.py", "g/s/u.py", "g0.py", "g.v2.py", "g/s.py.py", "g/-.py",
                  "g/s-1.py", "g/s/0.py", "ga.py", "g/S.py"]


def rand_graph(rng, n, p_edge, dangling=0.1):
    nodes = [f"n{i:03d}.py" if rng.random() < 0.7 else f"pk/{chr(97 + i % 26)}{i}.py" for i in range(n)]
    if n <= 8 and rng.random() < 0.35:
        # paths whose order as strings is not their order as Path objects or as module names: a module next to a
        # package directory of the same name, characters around '/' and '.' ('-' < '.' < '/' < '0' < 'A' < '_' < 'a')
        # (seed C11-k: closures ordered by the rank of the programs in the listing of list_programs, which sorts Paths)
        nodes = rng.sample(SORT_SENSITIVE, min(n, len(SORT_SENSITIVE)))
    nodes = list(dict.fromkeys(nodes))
    d = {}
    for u in nodes:
        s = set()
        for v in nodes:
            if rng.random() < p_edge:
                s.add(v)
        if rng.random() < 0.1:
            s.add(u)
        if rng.random() < dangling:
            s.add(f"ghost{rng.randrange(3)}.py")
        d[u] = s
    return nodes, d


def stream_helpers(ctx, drv):
    import paroxython.make_db as mdb
    from paroxython.user_types import Program, Label, Span, Taxon

    quick = ctx.tier == "quick"
    # -- closure on random graphs
    sizes = [(n, p) for n in (1, 2, 3, 4, 5, 6, 8) for p in (0.0, 0.15, 0.3, 0.6)] * (2 if quick else 12)
    sizes += [(40, 0.05), (80, 0.03), (150, 0.012)] if quick else [(40, 0.05)] * 5 + [(150, 0.012)] * 5 + [(400, 0.004), (1000, 0.0012)]
    entry_graphs = [
        {"main.py": {"utils.py"}, "utils.py": {"vectors.py"}, "vectors.py": {"utils.py"}},
        {"a.py": {"b.py"}, "b.py": {"b.py"}},
        {"a.py": {"c.py"}, "b.py": {"a.py"}, "c.py": {"d.py"}, "d.py": {"e.py"}, "e.py": {"c.py"}, "z.py": {"e.py", "a.py"}},
    ]
    for _ in range(6 if quick else 60):
        k = ctx.rng.choice([1, 2, 3])
        cyc = [f"m{j}.py" for j in range(k)]
        g = {c: {cyc[(j + 1) % k]} for j, c in enumerate(cyc)}
        for o in ctx.rng.sample(["a0.py", "a1.py", "z0.py", "z1.py"], ctx.rng.choice([1, 2])):
            g[o] = {ctx.rng.choice(cyc)}
        entry_graphs.append(dict(sorted(g.items())))
    for (n, p) in [(None, None)] * len(entry_graphs) + sizes:
        if n is None:
            d = entry_graphs.pop(0)
            nodes = list(d)
            ctx.dist("graphs.entry_outside_cycle")
        else:
            nodes, d = rand_graph(ctx.rng, n, p)
        if ctx.cov["distribution"].get("graphs.timeout", 0) >= 2:
            break  # two concrete non-terminating graphs are enough; every further one would cost a deadline
        impl = closure_impl(mdb, d)
        direct = [[k, sorted(v)] for k, v in d.items()]
        m = drv.call("c11.closure", direct=direct)["r"]
        edges = sum(len(v) for v in d.values())
        ctx.count("closure-graphs", json.dumps(direct), nontrivial=edges > 0)
        ctx.dist("graphs.nodes", len(nodes))
        if impl != m:
            ctx.cov["disagreements_checked"] += 1
            s = drv.call("c11.spec_closure", direct=direct)["r"] if len(nodes) <= 40 else m
            if impl != s:
                timed_out = isinstance(impl, str) and impl.startswith("Timeout")
                if timed_out:
                    ctx.dist("graphs.timeout")
                # a non-terminating candidate costs a whole deadline: entry graphs are small already, keep them as they are
                small = d if timed_out else shrink_graph(d, lambda g: closure_fails(mdb, drv, g))
                ctx.violations.append({
                    "what": "complete_and_collect_importations is not the sorted transitive closure",
                    "replay": {"kind": "closure", "direct": {k: sorted(v) for k, v in small.items()},
                               "impl": closure_impl(mdb, small),
                               "model": drv.call("c11.closure", direct=[[k, sorted(v)] for k, v in small.items()])["r"],
                               "spec": drv.call("c11.spec_closure", direct=[[k, sorted(v)] for k, v in small.items()])["r"]}})
            else:
                ctx.broken.append("corr:closure-model-vs-spec")
        elif len(nodes) <= 8:
            s = drv.call("c11.spec_closure", direct=direct)["r"]
            if s != m:
                ctx.broken.append("corr:closure-model-vs-spec")
                ctx.notes.append({"direct": direct, "model": m, "spec": s})
        # -- exportations of that closure (dangling targets -> KeyError on both sides)
        progs = [Program(labels=[], taxa=[], addition={}, deletion={}, path=k) for k in d]
        imps = {k: list(v) for k, v in m}
        try:
            e_impl = [[k, list(v)] for k, v in mdb.compute_and_collect_exportations(progs, imps).items()]
        except KeyError:
            e_impl = "KeyError"
        e_m = drv.call("c11.exportations", paths=list(d), imps=m)
        e_m = "KeyError" if "exc" in e_m else e_m["r"]
        ctx.count("exportations", json.dumps(direct), nontrivial=edges > 0)
        if e_impl != e_m:
            e_s = drv.call("c11.spec_exportations", paths=list(d), imps=m)["r"]
            ctx.cov["disagreements_checked"] += 1
            if e_impl != e_s and e_m != "KeyError":
                ctx.violations.append({
                    "what": "compute_and_collect_exportations is not the sorted inverse of importations",
                    "replay": {"kind": "exportations", "paths": list(d), "importations": imps,
                               "impl": e_impl, "model": e_m, "spec": e_s}})
            else:
                ctx.broken.append("corr:exportations")
                ctx.notes.append({"paths": list(d), "imps": m, "impl": e_impl, "model": e_m})
    # -- relabelling + direct importations: token-level bounded-exhaustive label names
    toks = ["import", "_module", ":", "_internally", "a", ".", "b", "/", "", "None", "x:import:a"]
    L = 4 if quick else 5
    names = sorted({"".join(t) for k in range(1, L + 1) for t in itertools.product(toks, repeat=k)})
    path_sets = [["a.py", "b.py"], ["a/b.py", "a.py"], ["a.b.py"], ["x.py"], ["None.py", "a/b/a.py"]]
    for paths in path_sets:
        impl = real_relabel(paths, names)
        if impl is None:
            ctx.notes.append("relabel stream skipped: labelled_programs could not be driven with synthetic programs")
            break
        m = drv.call("c11.relabel", paths=paths, names=names)
        for nme, a, b in zip(names, impl["names"], m["names"]):
            ctx.count("relabel-names", (tuple(paths), nme), nontrivial=(a != nme))
        if impl["names"] != m["names"] or impl["direct"] != sorted(set(m["direct"])):
            i = next((i for i in range(len(names)) if impl["names"][i] != m["names"][i]), None)
            ctx.broken.append("corr:relabel")
            ctx.notes.append({"paths": paths, "name": names[i] if i is not None else None,
                              "impl": impl["names"][i] if i is not None else impl["direct"][:20],
                              "model": m["names"][i] if i is not None else sorted(set(m["direct"]))[:20]})
    ctx.cov["exhaustive_relabel_tokens"] = {"tokens": toks, "max_len": L, "names": len(names)}
    # -- prepared_labels / prepared_taxa / collect_labels on random span lists
    for _ in range(150 if quick else 2000):
        k = ctx.rng.randrange(0, 5)
        labels = []
        for j in range(k):
            nm = ctx.rng.choice(["l1", "l2", "x:y", "l1", "é:z"])
            spans = [(ctx.rng.randrange(1, 5), ctx.rng.randrange(1, 12), ctx.rng.choice(["", "1-", "1-2-", "10-", "2-"]))
                     for _ in range(ctx.rng.randrange(0, 6))]
            labels.append((nm, spans))
        impl = mdb.prepared_labels([Label(n, [Span(*s) for s in sp]) for n, sp in labels])
        impl = [[k2, [list(x) for x in v]] for k2, v in impl.items()]
        impl_t = mdb.prepared_taxa([Taxon(n, Counter(Span(*s) for s in sp)) for n, sp in labels])
        impl_t = [[k2, [list(x) for x in v]] for k2, v in impl_t.items()]
        m = drv.call("c11.prepared", labels=[[n, [list(s) for s in sp]] for n, sp in labels])["r"]
        ctx.count("prepared-spans", json.dumps(labels), nontrivial=k > 0)
        union = {}
        for nm, spans in labels:
            union.setdefault(nm, set()).update(spans)
        expected = [[nm, [[a, b] for a, b, _ in sorted(bag)]] for nm, bag in union.items()]
        if impl != expected:
            ctx.violations.append({"what": "prepared_labels does not keep the spans of all the entries of a name",
                                   "replay": {"kind": "prepared", "labels": labels, "impl": impl, "model": m, "spec": expected}})
        elif impl != m:
            ctx.broken.append("corr:prepared")
            ctx.notes.append({"labels": labels, "impl": impl, "model": m})
        mt = drv.call("c11.prepared_taxa", labels=[[n, [list(s) for s in sp]] for n, sp in labels])["r"]
        if impl_t != mt:
            if not all(v == sorted(v) for _, v in impl_t):
                ctx.violations.append({"what": "prepared_taxa: spans not sorted",
                                       "replay": {"kind": "prepared", "labels": labels, "impl_taxa": impl_t, "model": mt}})
            else:
                ctx.broken.append("corr:prepared-taxa")
                ctx.notes.append({"labels": labels, "impl_taxa": impl_t, "model": mt})
        # inverted index
        progs = []
        occ = []
        for pi in range(ctx.rng.randrange(0, 4)):
            ls = [ctx.rng.choice(["l1", "l2", "x:y", "zz"]) for _ in range(ctx.rng.randrange(0, 4))]
            progs.append(Program(labels=[Label(n, []) for n in ls], taxa=[Taxon(n, Counter()) for n in ls],
                                 addition={}, deletion={}, path=f"p{pi}.py"))
            occ += [[n, f"p{pi}.py"] for n in ls]
        impl = [[k2, v] for k2, v in sorted(mdb.collect_labels(progs).items())]
        impl2 = [[k2, v] for k2, v in sorted(mdb.collect_taxa(progs).items())]
        m = drv.call("c11.collect", occ=occ)["r"]
        ml = drv.call("c11.collect_labels", occ=occ)["r"]
        ctx.count("inverted-index", json.dumps(occ), nontrivial=bool(occ))
        if any(len(v) != len(set(v)) for _, v in impl):
            ctx.violations.append({"what": "collect_labels lists a program twice under a label name (not the exact inverse of the records)",
                                   "replay": {"kind": "collect", "occurrences": occ, "impl_labels": impl, "model=spec": ml}})
        elif impl != ml:
            ctx.broken.append("corr:collect-labels")
            ctx.notes.append({"occurrences": occ, "impl": impl, "model": ml})
        if impl2 != m:
            ctx.violations.append({"what": "collect_labels/collect_taxa is not the inverted index of the records",
                                   "replay": {"kind": "collect", "occurrences": occ, "impl_labels": impl, "impl_taxa": impl2, "model=spec": m}})


def closure_impl(mdb, d):
    try:
        with deadline(3.0):
            r = mdb.complete_and_collect_importations({k: set(v) for k, v in d.items()})
        return [[k, list(v)] for k, v in r.items()]
    except Watchdog:
        return "Timeout (no result within 3 s)"
    except RecursionError:
        return "RecursionError"


def closure_fails(mdb, drv, d):
    direct = [[k, sorted(v)] for k, v in d.items()]
    return closure_impl(mdb, d) != drv.call("c11.closure", direct=direct)["r"]


def shrink_graph(d, fails):
    d = {k: set(v) for k, v in d.items()}
    changed = True
    while changed:
        changed = False
        for k in list(d):
            cand = {a: set(b) for a, b in d.items() if a != k}
            if cand and fails(cand):
                d = cand
                changed = True
        for k in list(d):
            for v in sorted(d[k]):
                cand = {a: set(b) for a, b in d.items()}
                cand[k].discard(v)
                if fails(cand):
                    d = cand
                    changed = True
    return d


def real_relabel(paths, names):
    """Drive the real relabelling loop of labelled_programs with synthetic programs: the directory
    walk and the parser are replaced by stubs (module attributes of label_programs)."""
    import paroxython.label_programs as lp
    import paroxython.make_db as mdb
    from paroxython.user_types import Program, Label

    progs = [Program(labels=[], taxa=[], addition={}, deletion={}, path=p) for p in paths]
    first = progs[0]

    class StubParser:
        def __call__(self, program, *a, **k):
            return [Label(n, []) for n in names] if program is first else []

    saved = (lp.list_programs, lp.ProgramParser)
    try:
        lp.list_programs = lambda directory, **kw: progs
        lp.ProgramParser = StubParser
        try:
            out = quiet(lp.labelled_programs, Path("."))
        except Exception:  # noqa
            return None
    finally:
        lp.list_programs, lp.ProgramParser = saved
    if len(out) != len(progs) or len(out[0].labels) != len(names):
        return None
    direct = mdb.compute_direct_importations(out)
    return {"names": [l.name for l in out[0].labels], "direct": sorted(direct[paths[0]])}



# ----------------------------------------------------------- the JSON text layer (Model/JsonText.lean)

class OutsideShape(Exception):
    pass


def enc(v):
    """Python value -> wire encoding of the model's `J` (order preserving, strings as code points)."""
    if isinstance(v, bool) or v is None or isinstance(v, float):
        raise OutsideShape(repr(v))
    if isinstance(v, int):
        if v < 0:
            raise OutsideShape(repr(v))
        return v
    if isinstance(v, str):
        return {"s": [ord(c) for c in v]}
    if isinstance(v, (list, tuple)):
        return {"a": [enc(x) for x in v]}
    if isinstance(v, dict):
        for k in v:
            if not isinstance(k, str):
                raise OutsideShape(repr(k))
        return {"o": [[[ord(c) for c in k], enc(x)] for k, x in v.items()]}
    raise OutsideShape(repr(v))


def dec(e):
    """wire encoding -> Python value (objects as lists of pairs are turned into dicts: no duplicate keys here)."""
    if isinstance(e, int):
        return e
    if "s" in e:
        return "".join(map(chr, e["s"]))
    if "a" in e:
        return [dec(x) for x in e["a"]]
    return {"".join(map(chr, k)): dec(x) for k, x in e["o"]}


def cps(text):
    return [ord(c) for c in text]


def uncps(l):
    return "".join(map(chr, l))


def plain(v):
    """what json.loads must give back: tuples as lists."""
    if isinstance(v, (list, tuple)):
        return [plain(x) for x in v]
    if isinstance(v, dict):
        return {k: plain(x) for k, x in v.items()}
    return v


def get_json_data(db):
    """The `data` dictionary exactly as `TagDatabase.get_json` assembles it."""
    return {
        "programs": db.programs_infos,
        "labels": dict(sorted(db.labels.items())),
        "taxa": dict(sorted(db.taxa.items())),
        "importations": dict(db.importations.items()),
        "exportations": dict(db.exportations.items()),
    }


def fake_db(data):
    """A TagDatabase whose fields are given (no directory walked): the REAL get_json runs on them."""
    from paroxython.make_db import TagDatabase
    db = TagDatabase.__new__(TagDatabase)
    db.programs_infos = data["programs"]
    db.labels, db.taxa = data["labels"], data["taxa"]
    db.importations, db.exportations = data["importations"], data["exportations"]
    return db


def text_diff(a, b):
    i = next((k for k in range(min(len(a), len(b))) if a[k] != b[k]), min(len(a), len(b)))
    return {"offset": i, "impl": a[max(0, i - 30):i + 30], "model": b[max(0, i - 30):i + 30]}


def judge_text(ctx, drv, data, text, stream):
    """Byte-for-byte: the real get_json() text against the model's compact (dumps2 data ++ "\n").
    Returns None on agreement, else a violation (json.loads(text) is not the data) or a broken correspondence."""
    try:
        e = enc(data)
    except OutsideShape as exc:
        return {"kind": "broken", "what": f"{stream}: the data holds a value outside the model's JSON shape: {exc}"}
    m = drv.call("c11.dumps", v=e)
    mtext = uncps(m["text"])
    ctx.dist(f"{stream}.compacted_span_lists", uncps(m["dumps"]).count("[\n") - mtext.count("[\n"))
    if m["ok"] and not m["back"]:
        return {"kind": "broken", "what": f"{stream}: the model's loads (compact (dumps2 v ++ newline)) is not v",
                "model": {"text": mtext[:400]}}
    if text == mtext:
        return None
    ctx.cov["disagreements_checked"] += 1
    try:
        back = json.loads(text)
    except ValueError as exc:
        return {"kind": "violation", "what": "get_json() is not valid JSON", "impl": {"error": str(exc)[:200], **text_diff(text, mtext)},
                "model": {"text": mtext[:400]}, "spec": "C11_json_roundtrip: loads (get_json text) = data"}
    if back != plain(data):
        return {"kind": "violation",
                "what": "json.loads(get_json()) differs from the data computed in memory: " + str(first_diff(back, plain(data))),
                "impl": text_diff(text, mtext), "model": {"text": mtext[:400]},
                "spec": "C11_json_roundtrip: loads (get_json text) = data"}
    return {"kind": "broken", "what": f"{stream}: get_json() text differs from the model's text (same value): {text_diff(text, mtext)}"}


LOOKALIKE = ["[\n 1,\n 2\n]", "[\n      3,\n      8\n    ],\n", " [\n1,\n2\n] ", "[\n  1,\n  2\n]\n", "x = [\n    10,\n    20\n]\n",
             "[ 1, 2 ] + [3]", "\n[\n7,\n8\n],\n", "\t[\n\t1,\n\t2\n\t]\t", "\x0c[\n\x0b1,\n\x1c2\n\x1f]\x85", "[\n１,\n２\n] "]
ODDCH = ['"', "\\", "\\n", "\\u0041", "/", "\n", "\r", "\t", "\b", "\f", "\x00", "\x01", "\x1f", "\x7f", "\x80", "\x9f", "\xa0", "é",
         " ", " ", "퟿", "", "￿", "\U00010000", "😀", "\U0010ffff", "\ud800", "\udbff", "\udc00", "\udfff",
         "\udc80", "😀", "\udc00\ud800", "\ud800a", "a", "z", " ", "  ", "0", "12", "[", "]", ",", "{", "}", ":"]


def rand_str(rng, adversarial=True):
    if not adversarial:
        return "".join(rng.choice("abc/_.py012") for _ in range(rng.randint(0, 6)))
    n = rng.choice([0, 1, 1, 2, 3, 5, 9])
    return "".join(rng.choice(LOOKALIKE) if rng.random() < 0.3 else rng.choice(ODDCH) for _ in range(n))


def rand_spans(rng):
    return [[rng.choice([0, 1, 7, 10, 99, 100, 12345678901234567890]), rng.randint(0, 300)] for _ in range(rng.choice([0, 1, 1, 2, 3]))]


def rand_value(rng, depth):
    r = rng.random()
    if depth == 0 or r < 0.25:
        return rng.choice([0, 1, 9, 10, 42, 2 ** 64]) if rng.random() < 0.4 else rand_str(rng)
    if r < 0.45:
        return rand_spans(rng)
    if r < 0.7:
        return [rand_value(rng, depth - 1) for _ in range(rng.choice([0, 1, 2, 2, 3]))]
    return {rand_str(rng, rng.random() < 0.5): rand_value(rng, depth - 1) for _ in range(rng.choice([0, 1, 2, 3]))}


def rand_data(rng):
    """A value of the database shape with adversarial strings everywhere."""
    paths = [rand_str(rng, rng.random() < 0.3) + ".py" for _ in range(rng.choice([0, 1, 2, 3]))]
    paths = list(dict.fromkeys(paths))

    def names():
        return {rand_str(rng, rng.random() < 0.4): rand_spans(rng) for _ in range(rng.choice([0, 1, 2, 4]))}

    def index():
        return {rand_str(rng, rng.random() < 0.4): rng.sample(paths, rng.randint(0, len(paths))) for _ in range(rng.choice([0, 1, 3]))}
    programs = {p: {"timestamp": rand_str(rng, rng.random() < 0.3), "source": rand_str(rng), "labels": names(), "taxa": names()}
                for p in paths}
    return {"programs": programs, "labels": index(), "taxa": index(), "importations": {p: rng.sample(paths, rng.randint(0, len(paths))) for p in paths},
            "exportations": {p: rng.sample(paths, rng.randint(0, len(paths))) for p in paths}}


def has_pair(v):
    """a high surrogate code point directly followed by a low one somewhere in a string of v."""
    import re
    if isinstance(v, str):
        return re.search("[\ud800-\udbff][\udc00-\udfff]", v) is not None
    if isinstance(v, (list, tuple)):
        return any(has_pair(x) for x in v)
    if isinstance(v, dict):
        return any(has_pair(k) or has_pair(x) for k, x in v.items())
    return False


def the_regex():
    """The pattern and the replacement of the compaction, read from the source of the real get_json."""
    import inspect
    import re
    from paroxython.make_db import TagDatabase
    src = inspect.getsource(TagDatabase.get_json)
    m = re.search(r'regex\.sub\(r"(.*)", r"(.*)", text\)', src)
    if not m:
        raise core.MachineryError("get_json no longer applies regex.sub(r\"…\", r\"…\", text)")
    return m.group(1), m.group(2)


def shape_pairs(pairs):
    d = {}
    for k, v in pairs:
        if k in d:
            raise OutsideShape("duplicate key")
        d[k] = v
    return d


def stream_jsontext(ctx, drv):
    import regex
    quick = ctx.tier == "quick"
    rng = ctx.rng
    # (1) the real get_json on adversarial data of the database shape, byte for byte against the model
    for i in range(80 if quick else 3000):
        db = fake_db(rand_data(rng))
        text = db.get_json()
        data = get_json_data(db)
        v = judge_text(ctx, drv, data, text, "json-text.adversarial")
        pair = has_pair(data)
        spans = text.count("[") - text.count("[\n") - text.count("[]")
        ctx.count("json-text.adversarial", json.dumps(data, sort_keys=True), nontrivial=spans > 0 and any(
            any(x in info["source"] for x in LOOKALIKE) for info in data["programs"].values()))
        ctx.dist("json-text.surrogate_pair" if pair else "json-text.well_formed_strings")
        if v is None and not pair:
            try:
                back = json.loads(text)
            except ValueError:
                back = None
            if back != plain(data):
                v = {"kind": "violation", "what": "json.loads(get_json()) differs from the data: " + str(first_diff(back, plain(data))),
                     "impl": {"text": text[:400]}, "spec": "C11_json_roundtrip"}
        if v is not None:
            if v["kind"] == "broken":
                ctx.broken.append("corr:json-text.adversarial")
                ctx.notes.append({"data_json": json.dumps(data), "what": v["what"].encode("ascii", "backslashreplace").decode()})
            else:
                ctx.violations.append({"what": v["what"].encode("ascii", "backslashreplace").decode(), "replay": {"kind": "json-text", "data_json": json.dumps(data),
                                                                     "impl": json.dumps(v.get("impl")), "model": json.dumps(v.get("model")),
                                                                     "spec": v.get("spec")},
                                       "signature": None})
            break
    # (2) json.dumps(v, indent=2) against dumps2 on random values of the shape (any nesting)
    for i in range(150 if quick else 6000):
        val = rand_value(rng, rng.choice([1, 2, 3, 4]))
        impl = json.dumps(val, indent=2)
        m = drv.call("c11.dumps", v=enc(val))
        ctx.count("json-dumps", impl, nontrivial=isinstance(val, (list, dict)) and len(val) > 0)
        ctx.dist("json-dumps." + type(val).__name__)
        if uncps(m["dumps"]) != impl:
            ctx.cov["disagreements_checked"] += 1
            ctx.broken.append("corr:json-dumps")
            ctx.notes.append({"value_json": json.dumps(val), "diff": json.dumps(text_diff(impl, uncps(m["dumps"])))})
            break
        if m["ok"] != (not has_pair(val)):
            ctx.broken.append("corr:json-dumps.ok")
            ctx.notes.append({"value_json": json.dumps(val), "model_ok": m["ok"]})
            break
        if m["ok"] and not m["back"]:
            ctx.broken.append("corr:json-loads.roundtrip")
            ctx.notes.append({"value_json": json.dumps(val), "what": "model: loads (compact (dumps2 v ++ newline)) is not v"})
            break
    # (3) the compaction scanner against regex.sub with the pattern of the real code, on arbitrary texts; and
    # (4) the model's parser against json.loads on the compacted / mutilated texts
    pat, rep = the_regex()
    frags = [x for x in LOOKALIKE if "１" not in x] + ['"', "\\", "\\\"", "\n", " ", "  ", "[", "]", ",", "1", "23", "[\n", "\n]", ",\n", "]\n", "],\n", "] ", "{", "}", ":",
                         '"k": ', "[]", "{}", "\x0c", "\x1c", "\xa0", " ", "a", "é", "\\u00e9", "\\ud83d\\ude00", "\\ud83d", "01", "\t", "\r"]
    for i in range(300 if quick else 12000):
        if i % 3 == 0:
            base = json.dumps(rand_value(rng, 3), indent=2) + "\n"
            k = rng.randrange(len(base) + 1)
            t = base if rng.random() < 0.3 else base[:k] + rng.choice(frags) + base[k + rng.choice([0, 0, 1, 3]):]
        else:
            t = "".join(rng.choice(frags) for _ in range(rng.randint(0, 14)))
        impl = regex.sub(pat, rep, t)
        m = uncps(drv.call("c11.compact", t=cps(t))["r"])
        ctx.count("compact-texts", t, nontrivial=impl != t)
        if impl != m:
            ctx.cov["disagreements_checked"] += 1
            ctx.broken.append("corr:compact-texts")
            ctx.notes.append({"text": json.dumps(t), "impl": json.dumps(impl), "model": json.dumps(m)})
            break
        for u in (t, impl):
            if any(c in u for c in "\x0b\x0c\x1c\x1d\x1e\x1f\x85\xa0 "):
                ctx.dist("loads.exotic-white-space(skipped)")
                continue
            try:
                pv = dec(enc(json.loads(u, object_pairs_hook=shape_pairs)))
            except OutsideShape:
                ctx.dist("loads.outside-grammar(skipped)")
                continue
            except (ValueError, RecursionError):
                pv = None
            mv = drv.call("c11.loads", t=cps(u))["v"]
            mv = None if mv is None else dec(mv)
            ctx.count("loads-texts", u, nontrivial=pv is not None)
            if mv != pv:
                ctx.cov["disagreements_checked"] += 1
                ctx.broken.append("corr:loads-texts")
                ctx.notes.append({"text": json.dumps(u), "json.loads": json.dumps(pv), "model": json.dumps(mv)})
                break
        else:
            continue
        break


# ------------------------------------------------------------------------------------- run

def run(ctx):
    core.prove(ctx)
    core.import_repo()
    drv = core.Driver()
    ctx.cov["rule"] = (
        "directories: distinct generated directory (file set + texts) whose closure of internal imports is non-empty; "
        "closure-graphs/exportations: distinct graph with at least one edge; relabel-names: distinct (path set, label "
        "name) that the real relabelling changes; prepared-spans/inverted-index: distinct non-empty input; "
        "json-text.adversarial: distinct data with a compacted span list AND a look-alike span list inside a source; "
        "json-dumps: distinct non-empty container; compact-texts: distinct text the real regex.sub changes; loads-texts: "
        "distinct text json.loads accepts"
    )
    try:
        stream_helpers(ctx, drv)
        stream_jsontext(ctx, drv)
        n_dirs = 110 if ctx.tier == "quick" else 900
        stream_dirs(ctx, drv, n_dirs)
    finally:
        drv.close()
    ctx.cov["proved"] = [t for t, ax in ctx.cov.get("theorems", {}).items() if ax != "DOES-NOT-CHECK"]
    ctx.cov["exercised_only"] = [
        "agreement of the JSON text model (dumps2 = json.dumps(indent=2, ensure_ascii), compact = the regex.sub of get_json, "
        "loads = json.loads on the grammar of the database) with the Python: streams json-text.directories (inside "
        "`directories`), json-text.adversarial, json-dumps, compact-texts, loads-texts — the round trip itself is PROVED "
        "(C11_json_roundtrip)",
        "dbToJson (Model/JsonDb.lean) is the `data` of get_json — keys and their orders: `c11.db_json` = getJsonText (dbToJson "
        "(makeDb …)) byte for byte against the real get_json() on every generated directory (inside `directories`); PROVED on "
        "top of it: C11_db_json_roundtrip (the text parses back to dbToJson db when dbOk db), C11_db_json_ok "
        "(J.ok (dbToJson db) = dbOk db), C11_dbToJson_injective; NOT proved: dbOk db from the strings of makeDb's inputs "
        "(def C11_db_json_roundtrip_from_inputs : Prop)",
        "sqlite3 round trip (rows read back from the file written by write_sqlite are compared with the model's rows)",
        "stored source is verbatim the cleaned, hint-free source (the source is an input of the model; C12/C13 are about it)",
        "agreement of the R2 string matchers (import label regexes) with the regex engine: token-level bounded-exhaustive stream",
    ]
    ctx.cov["trusted_base"] = core.BASE_TRUST + [
        "the parser and the taxonomy are outside the model: their recorded outputs (raw labels per program, taxa per "
        "program) are inputs; `toTaxa` is an oracle parameter the theorems quantify over",
        "hand transcription of the two import-label regexes (searchImport?, internalTarget?) — validated by the "
        "bounded-exhaustive relabel stream",
        "the executable cross-check `c11.spec` (Kleene iteration / comprehensions) is a second opinion, not a theorem",
        "hand transcription of json.encoder (py_encode_basestring_ascii, indent=2 layout), of the compaction regex as the "
        "scanner `matchAt` (every quantifier is followed by an atom it cannot match, so greedy = the only match; `\\s` of "
        "the regex module = Unicode White_Space, `\\d` restricted to ASCII digits) and of json.decoder's string scanner — "
        "validated byte for byte by the json-text / json-dumps / compact-texts / loads-texts streams",
    ]
    ctx.assumptions += [
        "program paths of one collection are pairwise distinct (they are distinct files of one directory)",
        "ignore_timestamps=True (the timestamp is an opaque input string of the model)",
        "C11_json_roundtrip: numbers are naturals (line numbers), no string holds a high surrogate code point directly "
        "followed by a low one (json.loads(json.dumps(s)) itself merges them; sources are decoded from UTF-8: no surrogate)",
        "C11_db_json_roundtrip: dbOk db — every string of the DATABASE (not yet: of the inputs) is free of such a pair; "
        "C11_dbToJson_injective: the stored spans are pairs of naturals (spansNat; Int.toNat in dbToJson)",
    ]
    if (not ctx.proofs_ok or ctx.broken) and not any(v.get("signature") is None for v in ctx.violations):
        ctx.violations.append({
            "no_input": True,
            "what": "a proof or a correspondence stream no longer checks",
            "replay": {"kind": "no-failing-input-found", "no_longer_checks": ctx.broken,
                       "build_errors": ctx.cov.get("build_errors"), "notes": ctx.notes[:5],
                       "searched": ctx.cov["streams"]},
        })
    return core.finish(ctx)


def replay(ctx, path):
    core.import_repo()
    obj = json.loads(Path(path).read_text(encoding="utf-8"))
    drv = core.Driver()
    try:
        kind = obj.get("kind")
        if kind == "directory":
            base = ctx.scratch_dir()
            root = base / "replay" / "progs"
            write_dir(root, obj["files"])
            v = judge_dir(ctx, drv, obj["files"], root, root.parent, obj.get("cleanup", "full"))
            print(json.dumps({k: v.get(k) for k in ("kind", "what", "impl", "model", "spec", "signature")},
                             indent=1, ensure_ascii=False, default=str))
            return 1 if v["kind"] == "violation" else 0
        if kind == "json-text":
            db = fake_db(json.loads(obj["data_json"]))
            text = db.get_json()
            data = get_json_data(db)
            m = drv.call("c11.dumps", v=enc(data))
            try:
                back = json.loads(text)
            except ValueError as exc:
                back = f"ValueError: {exc}"
            print(json.dumps({"impl": text, "model": uncps(m["text"]), "spec": {"json.loads(impl) == data": back == plain(data),
                                                                                   "model loads(text) == data": m["back"]}}, indent=1))
            return 1 if (text != uncps(m["text"]) or back != plain(data)) else 0
        if kind == "closure":
            import paroxython.make_db as mdb
            d = {k: set(v) for k, v in obj["direct"].items()}
            direct = [[k, sorted(v)] for k, v in d.items()]
            out = {"impl": closure_impl(mdb, d), "model": drv.call("c11.closure", direct=direct)["r"],
                   "spec": drv.call("c11.spec_closure", direct=direct)["r"]}
            print(json.dumps(out, indent=1))
            return 1 if out["impl"] != out["model"] else 0
        print(json.dumps(obj, indent=1, ensure_ascii=False))
        return 0
    finally:
        drv.close()
