"""C05 — a negated triple selects programs having an unmatched subject span."""
import itertools

from . import core, filt
from .c04 import TRUST, finish_tie

NAMES = ["A", "A/x", "B"]
SPAN_OPTIONS = [None, [[1, 1]], [[1, 2]], [[1, 1], [1, 1]], [[1, 1], [2, 2]], [[1, 2], [2, 2]]]
PATTERNS = ["A", "B", "A|B", "A/x", "A$"]
RELS = ["not equals", "! contains", "is not inside", "not x<y", "!x≤y≤y≤x", "after not", "not overlaps", "! x=y≤x=y"]


def mini_db(assign):
    taxa = {n: s for n, s in zip(NAMES, assign) if s is not None}
    progs = {"p.py": {"source": "l1\nl2", "taxa": dict(taxa), "labels": {}}, "empty.py": {"source": "l1", "taxa": {}, "labels": {}}}
    idx = {t: ["p.py"] for t in taxa}
    return {"programs": progs, "taxa": idx, "labels": {}, "importations": {"p.py": [], "empty.py": []},
            "exportations": {"p.py": [], "empty.py": []}}


def run(ctx):
    core.prove(ctx)
    core.import_repo()
    drv = core.Driver()
    rng = ctx.rng
    n_dis = 0
    try:
        # bounded-exhaustive mini stream
        space = list(itertools.product(itertools.product(SPAN_OPTIONS, repeat=3), PATTERNS, PATTERNS, RELS))
        full = ctx.tier == "thorough"
        if not full:
            space = rng.sample(space, 2500)
        for assign, p1, p2, rel in space:
            db = mini_db(assign)
            cmds = [{"operation": rng.choice(["include", "exclude"]), "data": [[p1, rel, p2]]}]
            eq, impl, model = filt.compare(db, cmds, drv)
            nt = "exc" not in impl and any(s is not None for s in assign)
            ctx.count("mini bounded-exhaustive (1 program, 3 taxa, span multisets ≤ 2, 5×5 patterns, 8 negated relations)",
                      repr((assign, p1, p2, rel, cmds[0]["operation"])), nontrivial=nt)
            ctx.dist("mini:selected=" + str(len(impl.get("final", {}).get("selected", []))))
            if not eq:
                n_dis += 1
                if n_dis <= 3:
                    filt.report_disagreement(ctx, "negated triple: run_pipeline differs from the specification", db, cmds, drv)
        ctx.cov["exhaustive"] = full
        # random stream with overlapping patterns on richer databases
        n = 500 if ctx.tier == "quick" else 60000
        for i in range(n):
            db = filt.gen_db(rng)
            op = rng.choice(["include", "exclude", "include all", "exclude all"])
            cmds = [{"operation": op, "data": [filt.gen_criterion(rng, db, op.split()[0], triple_p=1.0, negated=True, bad_ok=False)
                                                for _ in range(rng.choice([1, 1, 2]))]}]
            eq, impl, model = filt.compare(db, cmds, drv)
            ctx.count("random negated triples", repr((sorted(db["programs"]), cmds, impl.get("final"))),
                      nontrivial=filt.nontrivial(impl, db))
            if len(ctx.cov["samples"]) < 3 and filt.nontrivial(impl, db) and len(db["programs"]) <= 3:
                ctx.sample({"db_programs": {p: v["taxa"] for p, v in db["programs"].items()}, "cmds": cmds,
                            "impl_selected": impl["final"]["selected"], "model_selected": model.get("final", {}).get("selected")})
            if not eq:
                n_dis += 1
                if n_dis <= 3:
                    filt.report_disagreement(ctx, "negated triple: run_pipeline differs from the specification", db, cmds, drv)
        # the same criterion must denote the same programs whatever the filter went through before: earlier commands
        # deselect programs (impart / include leave their importers selected), then a negated triple is excluded or
        # included (seeded change C05-d: the unmatched-span check restricted to the still selected programs)
        n = 400 if ctx.tier == "quick" else 30000
        for i in range(n):
            db = filt.gen_db(rng, min_programs=3, import_p=1.0, edge_p=0.5)
            pre = []
            for _ in range(rng.choice([1, 1, 2])):
                op = rng.choice(["impart", "impart", "include", "exclude"])
                progs = list(db["programs"])
                crit = rng.choice(progs) if rng.random() < 0.6 else filt.gen_criterion(rng, db, op, triple_p=0.0)
                pre.append({"operation": op, "data": [crit]})
            op = rng.choice(["exclude", "exclude", "include", "exclude all"])
            last = {"operation": op, "data": [filt.gen_criterion(rng, db, op.split()[0], triple_p=1.0, negated=True, bad_ok=False)
                                              for _ in range(rng.choice([1, 1, 2]))]}
            cmds = pre + [last]
            if rng.random() < 0.5:
                # ... and the filter goes on: a later command reusing the subject or the object pattern
                t = rng.choice(last["data"])
                op2 = rng.choice(["include", "exclude", "include all"])
                crit2 = rng.choice([t[0], t[2], [t[0], filt.gen_predicate(rng, None, False), t[2]]])
                cmds.append({"operation": op2, "data": [crit2]})
            eq, impl, model = filt.compare(db, cmds, drv)
            ctx.count("negated triples after earlier commands on the same filter",
                      repr((sorted(db["programs"]), cmds, impl.get("final"))), nontrivial=filt.nontrivial(impl, db))
            if not eq:
                n_dis += 1
                if n_dis <= 3:
                    filt.report_disagreement(ctx, "negated triple after earlier commands: run_pipeline differs from the specification", db, cmds, drv)
        # directed form of the same: an imported program P is deselected ALONE (impart P.py, or an include that its
        # importer passes), then a negated triple whose subject is a taxon of P is excluded: P must be judged on its spans
        # whether selected or not, otherwise its importers are excluded (or kept) wrongly (seeds C05-d, C05-l, C06-l)
        n = 300 if ctx.tier == "quick" else 20000
        for i in range(n):
            db = filt.gen_db(rng, min_programs=3, import_p=1.0, edge_p=0.6)
            edges = [(q, p) for q, ps in db["importations"].items() for p in ps if db["programs"][p]["taxa"]]
            if not edges:
                continue
            q, p = rng.choice(edges)
            ptaxa = list(db["programs"][p]["taxa"])
            t1 = rng.choice(ptaxa)
            t2 = rng.choice(ptaxa) if rng.random() < 0.7 else filt.gen_taxon_pattern(rng, db)
            qonly = [t for t in db["programs"][q]["taxa"] if t not in db["programs"][p]["taxa"]]
            pre = {"operation": "impart", "data": [p]} if not qonly or rng.random() < 0.5 else {"operation": "include", "data": [rng.choice(qonly)]}
            cmds = [pre, {"operation": rng.choice(["exclude", "exclude", "exclude all"]), "data": [[t1, filt.gen_predicate(rng, True, False), t2]]}]
            eq, impl, model = filt.compare(db, cmds, drv)
            ctx.count("an imported program deselected alone, then a negated triple on its taxa is excluded",
                      repr((sorted(db["programs"]), db["importations"], cmds, impl.get("final"))), nontrivial=filt.nontrivial(impl, db))
            if not eq:
                n_dis += 1
                if n_dis <= 3:
                    filt.report_disagreement(ctx, "negated triple after an imported program was deselected: run_pipeline differs from the specification", db, cmds, drv)
        # one couple of patterns under SEVERAL relations on one filter (seeded change C05-k: the operands of a triple
        # memoised per pattern couple, and the memoised set of programs emptied in place by the negated triple): every
        # triple must be evaluated as on a fresh filter, whatever triples on the same patterns came before it, in the
        # same command or in an earlier one
        n = 400 if ctx.tier == "quick" else 30000
        for i in range(n):
            db = filt.gen_db(rng, min_programs=3) if rng.random() < 0.7 else filt.gen_db(rng)
            t = filt.gen_criterion(rng, db, "include", triple_p=1.0, negated=True, bad_ok=False)
            k = rng.choice([2, 2, 3, 4])
            triples = [[t[0], filt.gen_predicate(rng, rng.random() < 0.75, False), t[2]] for _ in range(k)]
            if rng.random() < 0.5:
                cmds = [{"operation": rng.choice(["include", "include all", "exclude", "exclude all"]), "data": triples}]
            else:
                cmds = [{"operation": rng.choice(["include", "include", "exclude", "include all"]), "data": [tr]} for tr in triples]
            eq, impl, model = filt.compare(db, cmds, drv)
            ctx.count("one pattern couple under several relations on one filter",
                      repr((sorted(db["programs"]), cmds, impl.get("final"))), nontrivial=filt.nontrivial(impl, db))
            if not eq:
                n_dis += 1
                if n_dis <= 3:
                    filt.report_disagreement(ctx, "same pattern couple under several relations: run_pipeline differs from the specification", db, cmds, drv)
        ctx.cov["disagreements_checked"] = n_dis
    finally:
        drv.close()
    ctx.cov["rule"] = (
        "bounded-exhaustive: every assignment of {absent, 5 span multisets} to 3 taxa (A, A/x, B) of one program × 5×5 overlapping "
        "pattern pairs × 8 negated relation spellings (quick: a random slice of 2500 of the 43200); random: richer databases with import "
        "DAGs, 1-2 negated triples per include/exclude (all); sequences: 1-2 earlier commands (impart / include / exclude, mostly on single "
        "programs of a database with imports) followed by a negated-triple command on the same filter; couples: 2-4 triples on one couple of patterns with different (mostly negated) relations, in one command or in successive commands of one filter. Non-trivial = the program has at least one taxon (mini) / the selection "
        "changed and is neither empty nor everything (random)."
    )
    ctx.cov["trusted_base"] = TRUST
    ctx.cov["proved"] = ["C05_negated", "C05_include_negated", "C05_no_object", "C05_self_only", "C05_negation_spelling", "C05_positive_spelling"]
    ctx.assumptions += ["Ctx.WF (database well-formedness)"]
    finish_tie(ctx)
    return core.finish(ctx)


def replay(ctx, path):
    return filt.replay(ctx, path)
