"""Shared by C15 / C01: exporter of real `ast` trees into the generic tree of the Lean model, a random
program generator (grammar over as many Python 3.12 node classes as possible, with adversarial
identifier / string pools) and an AST-level shrinker.

Only the stdlib `ast` and the third-party `regex` module are used here; nothing from paroxython.
"""
import ast
import json
import random
import threading

import regex

# The string the real code hashes is `remove_context("", ast.dump(node))`; this is an independent copy
# of that regular expression (if the implementation changes its notion of identity, model and
# implementation disagree and the specification decides).
# Since fix a00cdad (finding F15b) the pattern skips the quoted literals of the dump.
REMOVE_CONTEXT = regex.compile(r"""(?:'(?:[^'\\]|\\.)*'|"(?:[^"\\]|\\.)*")(*SKIP)(*FAIL)|, ctx=\w+\(\)""").sub


def batch(drv, reqs):
    """Pipelined driver calls without the pipe deadlock of a write-all-then-read loop: a thread writes
    the requests while the caller reads the answers (pipes may be as small as one page here)."""
    if not reqs:
        return []
    data = "".join(json.dumps(r, ensure_ascii=False) + "\n" for r in reqs)

    def writer():
        drv.p.stdin.write(data)
        drv.p.stdin.flush()

    t = threading.Thread(target=writer)
    t.start()
    out = []
    for r in reqs:
        line = drv.p.stdout.readline()
        if not line:
            raise RuntimeError("driver died in batch")
        res = json.loads(line)
        if isinstance(res, dict) and "error" in res:
            raise RuntimeError(f"driver error: {res['error']} :: {json.dumps(r)[:300]}")
        out.append(res)
    t.join()
    drv.calls += len(reqs)
    return out


def unexplained(ctx, core):
    """The violations that no `finding` entry of known_findings.json explains (those decide the verdict)."""
    sigs = {k.get("signature") for k in core.load_known()
            if k.get("property") == ctx.pid and k.get("status") == "finding"}
    return [v for v in ctx.violations if v.get("signature") is None or v.get("signature") not in sigs]


def scalar_kind(v):
    if isinstance(v, str):
        return "str"
    if isinstance(v, bytes):
        return "bytes"
    if v is True or v is False or v is None:
        return "nameconst"
    if v is Ellipsis:
        return "ellipsis"
    return "num"


def export(node):
    """Real tree -> JSON tree: ["n", type, isExpr, reprNoCtx, lineno|None, [[field, val]...]] |
    ["l", [val...]] | ["s", repr, kind]. Fields are in `ast.iter_fields` order with their real names:
    reordering and renaming belong to the model."""
    if isinstance(node, ast.AST):
        is_expr = isinstance(node, ast.expr)
        r = REMOVE_CONTEXT("", ast.dump(node)) if is_expr else ""
        ln = node.lineno if "lineno" in node._attributes else None
        return ["n", type(node).__name__, is_expr, r, ln,
                [[name, export(x)] for (name, x) in ast.iter_fields(node)]]
    if isinstance(node, list):
        return ["l", [export(x) for x in node]]
    return ["s", repr(node), scalar_kind(node)]  # raw repr: the escaping of `_pos=` (fix b1d74a8) is in the Lean model


def flat_lines(text):
    """The lines of a flat AST text (each is terminated by a newline)."""
    assert text == "" or text.endswith("\n")
    return text.split("\n")[:-1]


def node_classes(tree):
    return {type(n).__name__ for n in ast.walk(tree)}


def tree_depth(node):
    if isinstance(node, ast.AST):
        return 1 + max([tree_depth(x) for _, x in ast.iter_fields(node)] or [0])
    if isinstance(node, list):
        return max([tree_depth(x) for x in node] or [0])
    return 0


# ------------------------------------------------------------------------------------ quirk features

def quirk_features(tree):
    """Narrow input features of the recorded findings (used for signatures only)."""
    f = set()
    for n in ast.walk(tree):
        if isinstance(n, ast.AsyncFunctionDef):
            f.add("async-def")
        if isinstance(n, ast.Constant):
            v = n.value
            if isinstance(v, bytes) and repr(v).startswith('b"'):
                f.add("bytes-repr-double-quoted")
            if isinstance(v, str):
                r = repr(v)
                if "/kind=" in r:
                    f.add("str-contains-/kind=")
                if ", ctx=" in r:
                    f.add("str-contains-,ctx=")
                if "_pos=" in r:
                    f.add("str-contains-_pos=")
                if "/_type=" in r:
                    f.add("str-contains-/_type=")
            if isinstance(v, bytes):
                r = repr(v)
                if "='" in r or '="' in r:
                    f.add("bytes-contains-=quote")
                if "/kind=" in r:
                    f.add("bytes-contains-/kind=")
    return f


# ------------------------------------------------------------------------------------------ generator

IDENTS = ["a", "b", "i", "n", "x", "foo", "bar", "acc", "kind", "value", "args", "body", "_pos", "ctx",
          "s", "n_1", "é", "alias", "Load", "_type", "posonlyargs", "orelse", "target"]
PLAIN_STRS = ["", "a", "hello, world", "it's", 'say "hi"', "it's \"both\"", "back\\slash", "tab\there",
              "new\nline", "é…", "%d items", "{}", "=", "='", '="x"', "'", '"', "a=b", "b'x'"]
ADVERSARIAL_STRS = ["/kind=", "a/kind=b", "/_type=Num", "x/_type=", "_pos=", "a_pos=1:2-", "_pos=3:1-:2",
                    ", ctx=Load()", "a, ctx=Store() b", ", ctx=x", "/value=", "/value=1", "/s='", "=\"",
                    "/_hash=0x0001", "/_length=3", "/args/posonlyargs/_length=1", "/op/_type=USub",
                    "/operand/n=1", "/_type=Constant", "/_type=alias", "/_type=UnaryOp"]
BYTES_LITS = ["b''", "b'ab'", 'b"it\'s"', "b'q\"q'", "b'\\x00\\xff'", "b'a=\\'b'", 'b"=\'x"', "b'/kind='"]
NUM_LITS = ["0", "1", "2", "42", "10**2", "3.14", "1e10", "1e999", "2j", "0x1f", "1_000", "0.0", "7"]


# Valid expressions on which CPython has a remark (a SyntaxWarning): from the tokenizer, hence already in `ast.parse` — an
# escape sequence unknown to Python in a non-raw literal, a number glued to a keyword — or from the compiler only (`is`
# with a literal, a literal that is called or subscripted, a missing comma). They are programs like the others: the
# harness never turns a warning into an error; it silences them (below), since the generated programs are not to be fixed.
WARN_EXPRS = ['"\\d+"', "'C:\\path'", 'b"\\q"', 'f"\\d{x}"', '"\\("', "'\\.\\w+$'", "(1if x else 2)", "[1for x in y]",
              "(0x1if x else 2)", "(x is 1)", '(x is not "a")', '"a"()', "1[0]", "[[1, 2] [3]]", "[(1, 2) (3)]"]
WARN_STMTS = ['assert (x, "msg")', 'import re\nm = re.findall("\\d+", text)', "path = 'C:\\path\\to'"]
WARN_SEEDS = [
    'import re\nm = re.findall("\\d+", text)\n',
    "x = 1if y else 2\n",
    "def f(p='C:\\path'):\n    return b\"\\q\"\n",
    'if x is 1:\n    assert (x, "msg")\n',
    's = f"\\d{x}"\nt = [0x1for z in s]\n',
]
import warnings  # noqa: E402

warnings.filterwarnings("ignore", category=SyntaxWarning)


class Gen:
    """Random mostly-valid programs. `adv` = probability of drawing from the adversarial pools."""

    def __init__(self, rng, max_depth=4, adv=0.15, width=3):
        self.r = rng
        self.max_depth = max_depth
        self.adv = adv
        self.width = width

    # -- leaves
    def ident(self):
        return self.r.choice(IDENTS)

    def string(self):
        pool = ADVERSARIAL_STRS if self.r.random() < self.adv else PLAIN_STRS
        s = self.r.choice(pool)
        if self.r.random() < 0.2:
            s = s + self.r.choice(PLAIN_STRS + ADVERSARIAL_STRS)
        p = self.r.random()
        if p < 0.1:
            return "u" + repr(s)
        return repr(s)

    def atom(self):
        p = self.r.random()
        if p < 0.03:
            return self.r.choice(WARN_EXPRS)
        if p < 0.35:
            return self.ident()
        if p < 0.55:
            return self.r.choice(NUM_LITS)
        if p < 0.75:
            return self.string()
        if p < 0.80:
            return self.r.choice(BYTES_LITS) if self.r.random() < max(self.adv, 0.3) else "b'ab'"
        if p < 0.90:
            return self.r.choice(["True", "False", "None", "..."])
        return "-" + self.r.choice(NUM_LITS[:9] + ["True", "'a'", "x", "-1", "b\"it's\""])

    def sep(self):
        """Separator of the items of a bracketed construct: now and then a line break after the comma, so that
        the parts of one construct lie on several lines (the flat AST does not list them in source order)."""
        if self.r.random() < 0.15:
            return ",\n" + " " * self.r.randint(0, 6)
        return ", "

    def wide(self):
        """Occasionally a list with 10-13 children: multi-digit child numbers in the paths."""
        return self.r.random() < 0.06

    def exprs(self, d, lo=0, hi=None):
        hi = self.width if hi is None else hi
        if self.wide():
            return [self.expr(0) for _ in range(self.r.randint(10, 13))]
        return [self.expr(d) for _ in range(self.r.randint(lo, hi))]

    def target(self, d):
        p = self.r.random()
        if p < 0.5 or d <= 0:
            return self.ident()
        if p < 0.65:
            return f"{self.expr(d - 1, simple=True)}.{self.ident()}"
        if p < 0.8:
            return f"{self.expr(d - 1, simple=True)}[{self.expr(d - 1)}]"
        if p < 0.9:
            return "(" + ", ".join([self.target(d - 1) for _ in range(self.r.randint(1, 3))]) + ",)"
        return "[" + ", ".join([self.target(d - 1), "*" + self.ident()]) + "]"

    def ctx_twin(self):
        i, x, y = self.ident(), self.ident(), self.ident()
        inner = self.r.choice([f"max({i} for {i} in {x})", f"[{i} for {i} in {x}][0]", f"({i} := {self.r.choice(NUM_LITS[:5])})",
                               f"{{{i}: {y} for {i}, {y} in {x}}}[0]", f"(lambda: [{i} for {i} in {x}])", f"len({{{i} for {i} in {x} if {i}}})",
                               f"[({i} := {y}), {i}][1]"])
        return self.r.choice([f"{y}[{inner}]", f"{y}({inner}).{x}", f"{y}[{inner}][{i}]", f"{y}[{inner}:{inner}]"])

    def comp(self, d):
        parts = []
        for _ in range(self.r.randint(1, 2)):
            a = "async " if self.r.random() < 0.1 else ""
            parts.append(f"{a}for {self.target(1)} in {self.expr(d, simple=True)}")
            for _ in range(self.r.randint(0, 2)):
                parts.append(f"if {self.expr(d, simple=True)}")
        return (" " if self.r.random() < 0.8 else "\n   ").join(parts)

    def fstring(self, d):
        out = []
        for _ in range(self.r.randint(0, 3)):
            p = self.r.random()
            if p < 0.4:
                out.append(self.r.choice(["a", " ", "x=", "{{", "}}", "/kind=", "_pos=", ", ctx=Load()"]))
            else:
                e = self.expr(d, simple=True).replace('"', "'")
                if "\\" in e or "\n" in e or "'" in e or "#" in e:
                    e = self.ident()
                conv = self.r.choice(["", "", "!r", "!s", "!a"])
                spec = self.r.choice(["", "", ":>10", ":{" + self.ident() + "}", ":.{n}f"])
                out.append("{" + e + conv + spec + "}")
        return 'f"' + "".join(out) + '"'

    def expr(self, d, simple=False):
        if d <= 0:
            return self.atom()
        d -= 1
        k = self.r.randrange(30 if not simple else 14)
        if k == 0:
            return f"({self.expr(d)} {self.r.choice(['and', 'or'])} {self.expr(d)} {self.r.choice(['and', 'or'])} {self.expr(d)})"
        if k == 1:
            op = self.r.choice(["+", "-", "*", "/", "//", "%", "**", "<<", ">>", "|", "^", "&", "@"])
            return f"({self.expr(d)} {op} {self.expr(d)})"
        if k == 2:
            return f"({self.r.choice(['-', '+', '~', 'not '])}{self.expr(d)})"
        if k == 3:
            ops = ["<", "<=", "==", "!=", ">", ">=", "is", "is not", "in", "not in"]
            s = self.expr(d)
            for _ in range(self.r.randint(1, 3)):
                s += f" {self.r.choice(ops)} {self.expr(d)}"
            return f"({s})"
        if k == 4:
            args = self.exprs(d, 0, 3)
            if self.r.random() < 0.3:
                args.append("*" + self.expr(d, simple=True))
            if self.r.random() < 0.4:
                args.append(f"{self.ident()}={self.expr(d)}")
            if self.r.random() < 0.2:
                args.append("**" + self.expr(d, simple=True))
            return f"{self.expr(d, simple=True)}({self.sep().join(args)})"
        if k == 5:
            return f"{self.expr(d, simple=True)}.{self.ident()}"
        if k == 6:
            sl = self.r.choice(["{0}", "{0}:{1}", ":{0}", "{0}:", "::{0}", "{0}:{1}:{0}", "{0}, {1}", ":", "{0}:{1}, ::{0}", "-1", "-{0}"])
            return f"{self.expr(d, simple=True)}[{sl.format(self.expr(d), self.expr(d))}]"
        if k == 7:
            return "[" + self.sep().join(self.exprs(d)) + "]"
        if k == 8:
            xs = self.exprs(d)
            return "(" + self.sep().join(xs) + ("," if len(xs) == 1 else "") + ")"
        if k == 9:
            return self.atom()
        if k == 10:
            return self.atom()
        if k == 11:
            return self.fstring(d)
        if k == 12:
            items = [f"{self.expr(d)}: {self.expr(d)}" for _ in range(self.r.randint(0, 3))]
            if self.r.random() < 0.3:
                items.append("**" + self.expr(d, simple=True))
            return "{" + self.sep().join(items) + "}"
        if k == 13:
            return "{" + self.sep().join(self.exprs(d, 1, 3)) + "}"
        if k == 14:
            return f"({self.expr(d)} if {self.expr(d)} else {self.expr(d)})"
        if k == 15:
            params = self.params(d, annotations=False)
            return f"(lambda {params}: {self.expr(d)})"
        if k == 16:
            return f"[{self.expr(d)} {self.comp(d)}]"
        if k == 17:
            return f"{{{self.expr(d)} {self.comp(d)}}}"
        if k == 18:
            return f"{{{self.expr(d)}: {self.expr(d)} {self.comp(d)}}}"
        if k == 19:
            return f"({self.expr(d)} {self.comp(d)})"
        if k == 20:
            return f"({self.ident()} := {self.expr(d)})"
        if k == 21:
            return f"(await {self.expr(d, simple=True)})"
        if k == 22:
            return self.r.choice([f"(yield {self.expr(d)})", "(yield)", f"(yield from {self.expr(d)})"])
        if k == 23:
            return f"[*{self.expr(d, simple=True)}, {self.expr(d)}]"
        if k == 24:
            return self.string() + " " + self.string()  # implicit concatenation
        if k == 25:
            return f"(-{self.r.choice(NUM_LITS[:9])})"
        if k == 26:
            return self.twins(d)
        return self.atom()

    def twins(self, d):
        """Two DIFFERENT expression nodes that one source-like rendering would confuse, side by side in one program:
        a replacement field `{e}` of an f-string (a FormattedValue, not a stand-alone expression) and the set display
        `{e}`; `{a, b}` in an f-string (a tuple) and the set of that tuple; a field with the format spec ` b` and the
        dictionary display `{a: b}`. The specification gives them different `_hash` values (different structures)."""
        e = self.r.choice([self.ident(), f"{self.ident()}({self.ident()})", f"{self.ident()} + {self.ident()}",
                           f"{self.ident()}.{self.ident()}", f"{self.ident()}[0]", self.r.choice(NUM_LITS[:4])])
        a, b = self.ident(), self.ident()
        return self.r.choice([
            f"({{{e}}}, f\"{{{e}}}\")",
            f"(f\"{{{e}}}\", {{{e}}})",
            f"[{{({a}, {b})}}, f\"{{{a}, {b}}}\"]",
            f"({{{a}: {b}}}, f\"{{{a}: {b}}}\")",
            f"{{{e}}}.union(f\"x{{{e}}}y\")",
        ])

    def params(self, d, annotations=True):
        def p(name, default=False):
            s = name
            if annotations and self.r.random() < 0.3:
                s += ": " + self.expr(0)
            if default:
                s += ("=" if ":" not in s else " = ") + self.expr(d, simple=True)
            return s

        names = self.r.sample(["a", "b", "c", "d", "e", "f", "g", "h"], 8)
        out = []
        if self.r.random() < 0.1:
            # defaults before `*args` / keyword-only parameters, one parameter per line: the flat AST lists the
            # default values (`defaults`) after `vararg`, `kwonlyargs` and `kw_defaults`
            out = [p(names.pop(), default=True) for _ in range(self.r.randint(1, 2))]
            out.append(self.r.choice(["*" + names.pop(), "*"]))
            out.append(p(names.pop(), default=self.r.random() < 0.6))
            if self.r.random() < 0.3:
                out.append("**" + names.pop())
            return (",\n" + " " * self.r.randint(0, 8)).join(out)
        if self.r.random() < 0.3:
            n = self.r.randint(1, 2)
            out += [p(names.pop()) for _ in range(n)] + ["/"]
        n = self.r.randint(0, 2)
        out += [p(names.pop()) for _ in range(n)]
        if self.r.random() < 0.3:
            out.append(p(names.pop(), default=True))
        star = False
        if self.r.random() < 0.3:
            out.append("*" + p(names.pop()))
            star = True
        if self.r.random() < 0.3:
            if not star:
                out.append("*")
            out.append(p(names.pop(), default=self.r.random() < 0.5))
        if self.r.random() < 0.3:
            out.append("**" + p(names.pop()))
        sep = self.sep() if self.r.random() < 0.5 else ", "
        if "\n" in sep or self.r.random() < 0.85:
            return sep.join(out)
        # each parameter on its own line
        return ",\n    ".join(out)

    def type_params(self):
        if self.r.random() < 0.8:
            return ""
        ps = self.r.sample(["T", "U: int", "*Ts", "**P", "V: (int, str)"], self.r.randint(1, 3))
        return "[" + ", ".join(ps) + "]"

    def pattern(self, d):
        if d <= 0:
            return self.r.choice(["_", "x", "1", "-1", "'a'", "None", "True", "a.b", "1+2j", "-1.5"])
        d -= 1
        k = self.r.randrange(9)
        if k == 0:
            return "[" + ", ".join([self.pattern(d) for _ in range(self.r.randint(0, 2))] + (["*rest"] if self.r.random() < 0.5 else [])) + "]"
        if k == 1:
            items = [f"{self.r.choice(['1', chr(39) + 'k' + chr(39), 'a.b'])}: {self.pattern(d)}" for _ in range(self.r.randint(0, 2))]
            if self.r.random() < 0.4:
                items.append("**kw")
            return "{" + ", ".join(items) + "}"
        if k == 2:
            args = [self.pattern(d) for _ in range(self.r.randint(0, 2))] + [f"{n}={self.pattern(d)}" for n in self.r.sample(["p", "q"], self.r.randint(0, 2))]
            return f"{self.r.choice(['P', 'm.Q'])}({', '.join(args)})"
        if k == 3:
            return f"({self.pattern(d)} | {self.pattern(0)})" if True else ""
        if k == 4:
            return f"({self.pattern(d)} as y{self.r.randint(0, 9)})"
        return self.pattern(0)

    def block(self, d, ind, lo=1, hi=None):
        hi = self.width if hi is None else hi
        out = []
        if self.wide():
            for j in range(self.r.randint(10, 12)):
                out += self.stmt(0, ind)
            return out
        for _ in range(self.r.randint(lo, hi)):
            out += self.stmt(d, ind)
        return out

    def stmt(self, d, ind):
        """A statement as a list of source lines."""
        I = "    " * ind
        r = self.r
        if d <= 0:
            k = r.randrange(16)
        else:
            k = r.randrange(34)
        d -= 1
        e = lambda simple=False: self.expr(max(d, 0) if d < 2 else r.randint(0, d), simple)  # noqa
        if k == 0:
            return [I + "pass"]
        if k == 1:
            if r.random() < 0.15:
                # the SAME expression as a target and as a value, holding sub-expressions whose own context is Store even
                # when the whole is loaded (comprehension and generator targets, walrus targets): same expression up to
                # load/store context, one `_hash` (seed C15-l: the context rewritten on the target node only)
                t = self.ctx_twin()
                return r.choice([[I + f"{t} = {t}"], [I + f"{t} = ({t} + 1)"], [I + f"del {t}", I + f"{self.ident()} = {t}"],
                                 [I + f"for {t} in {t}:", I + "    pass"], [I + f"{t} += {t}"],
                                 [I + f"({t}, {self.ident()}) = ({self.ident()}, {t})"]])
            return [I + f"{self.target(1)} = {e()}"]
        if k == 2:
            if self.wide():
                return [I + " = ".join(f"t{j}" for j in range(r.randint(10, 12))) + f" = {e()}"]
            return [I + f"{self.ident()} = {self.ident()} = {e()}"]
        if k == 3:
            op = r.choice(["+", "-", "*", "/", "//", "%", "**", "<<", ">>", "|", "^", "&", "@"])
            return [I + f"{self.target(1)} {op}= {e()}"] if True else []
        if k == 4:
            return [I + e()]
        if k == 5:
            return [I + r.choice([f"{self.ident()}: {self.expr(0)} = {e()}", f"{self.ident()}: {self.expr(0)}", f"({self.ident()}): int = 1"])]
        if k == 6:
            return [I + r.choice(["return", f"return {e()}"])]
        if k == 7:
            return [I + f"del {self.target(1)}, {self.ident()}"]
        if k == 8:
            return [I + r.choice(["raise", f"raise {e(True)}", f"raise {e(True)} from {e(True)}"])]
        if k == 9:
            return [I + r.choice([f"assert {e()}", f"assert {e()}, {self.string()}"])]
        if k == 10:
            if r.random() < 0.3:  # 10-25 names: child numbers with two digits
                names = ", ".join(f"m{j}" + (f" as n{j}" if r.random() < 0.3 else "") for j in range(r.randint(10, 25)))
                return [I + f"import {names}"]
            names = ", ".join(r.choice(["os", "os.path", "sys as s", "a.b.c as d", "kind", "alias as _pos"]) for _ in range(r.randint(1, 3)))
            return [I + f"import {names}"]
        if k == 11:
            mod = r.choice(["os", ".", "..pkg", ".m", "a.b"])
            if r.random() < 0.3:  # a long parenthesised list over several lines
                k = r.randint(10, 25)
                items = [f"n{j}" + (f" as p{j}" if r.random() < 0.3 else "") for j in range(k)]
                out = [I + f"from {mod} import ("]
                for j in range(0, k, 4):
                    out.append(I + "    " + ", ".join(items[j:j + 4]) + ",")
                return out + [I + ")"]
            names = r.choice(["*", "a", "a as b, c", "(a, b as kind)"]) if ind == 0 else r.choice(["a", "a as b, c"])
            return [I + f"from {mod} import {names}"]
        if k == 12:
            return [I + r.choice(["global ", "nonlocal "]) + ", ".join(r.sample(IDENTS[:8], r.randint(1, 3)))]
        if k == 13:
            return [I + r.choice(["break", "continue"])]
        if k == 14:
            return [I + self.string()] if r.random() < 0.5 else [I + f'"""doc {r.choice(IDENTS)}', I + 'more"""']
        if k == 15:
            return [I + f"type {self.ident().replace('é', 'e')}{self.type_params()} = {self.expr(0)}"]
        # compound
        if k in (16, 17):
            out = [I + f"if {e()}:"] + self.block(d, ind + 1)
            for _ in range(r.randint(0, 2)):
                out += [I + f"elif {e()}:"] + self.block(d, ind + 1, 1, 2)
            if r.random() < 0.5:
                out += [I + "else:"] + self.block(d, ind + 1, 1, 2)
            return out
        if k in (18, 19):
            a = "async " if r.random() < 0.15 else ""
            out = [I + f"{a}for {self.target(1)} in {e()}:"] + self.block(d, ind + 1)
            if r.random() < 0.3:
                out += [I + "else:"] + self.block(d, ind + 1, 1, 2)
            return out
        if k == 20:
            out = [I + f"while {e()}:"] + self.block(d, ind + 1)
            if r.random() < 0.3:
                out += [I + "else:"] + self.block(d, ind + 1, 1, 2)
            return out
        if k in (21, 22, 23):
            out = []
            for _ in range(r.randint(10, 11) if self.wide() else r.randint(0, 2)):
                out.append(I + "@" + e(True))
            a = "async " if r.random() < 0.25 else ""
            ret = f" -> {self.expr(0)}" if r.random() < 0.3 else ""
            out.append(I + f"{a}def {self.ident()}{self.type_params()}({self.params(max(d, 0))}){ret}:")
            if r.random() < 0.3:
                out.append("    " * (ind + 1) + self.string())
            return out + self.block(d, ind + 1)
        if k == 24:
            out = []
            for _ in range(r.randint(0, 2)):
                out.append(I + "@" + e(True))
            bases = self.exprs(0, 0, 2)  # (10-13 bases when `wide`)
            if r.random() < 0.3:
                bases.append(f"metaclass={self.ident()}")
            out.append(I + f"class {self.ident()}{self.type_params()}" + (f"({self.sep().join(bases)})" if bases or r.random() < 0.3 else "") + ":")
            return out + self.block(d, ind + 1)
        if k == 25:
            a = "async " if r.random() < 0.2 else ""
            items = [f"{e(True)}" + (f" as {self.target(1)}" if r.random() < 0.6 else "") for _ in range(r.randint(1, 2))]
            if r.random() < 0.2:
                return [I + f"{a}with ({(',' + chr(10) + '   ').join(items)}):"] + self.block(d, ind + 1)
            return [I + f"{a}with {', '.join(items)}:"] + self.block(d, ind + 1)
        if k in (26, 27):
            star = "*" if r.random() < 0.2 else ""
            out = [I + "try:"] + self.block(d, ind + 1, 1, 2)
            nh = r.randint(10, 11) if (self.wide() and not star) else r.randint(0, 2)
            for _ in range(nh):
                h = r.choice([f"except{star} {e(True)}", f"except{star} {e(True)} as {self.ident()}", f"except{star} (A, B)"])
                if not star and nh < 10 and r.random() < 0.15:
                    h = "except"
                out += [I + h + ":"] + self.block(d, ind + 1, 1, 2)
                if h == "except":
                    break
            if nh and r.random() < 0.3:
                out += [I + "else:"] + self.block(d, ind + 1, 1, 2)
            if nh == 0 or r.random() < 0.3:
                out += [I + "finally:"] + self.block(d, ind + 1, 1, 2)
            return out
        if k == 28:
            out = [I + f"match {e()}:"]
            for _ in range(r.randint(1, 3)):
                g = f" if {e(True)}" if r.random() < 0.3 else ""
                out += ["    " * (ind + 1) + f"case {self.pattern(2)}{g}:"] + self.block(d, ind + 2, 1, 2)
            return out
        if k == 29:
            # multi-line expression statement (line numbers of sub-expressions differ)
            return [I + f"{self.ident()} = [", I + f"    {e()},", I + f"    {e()},", I + "]"]
        if k == 30:
            return [I + f"{self.ident()}({e()},", I + f"    {self.ident()}={e()})"]
        return [I + f"{self.target(1)} = {e()}"]

    def program(self):
        d = self.r.randint(1, self.max_depth)
        lines = []
        if self.r.random() < 0.2:
            lines.append(self.r.choice(['"""module doc"""', "# a comment", ""]))
        lines += self.block(d, 0, 1, 4)
        if self.r.random() < 0.2:
            lines.insert(self.r.randrange(len(lines) + 1), "")
        if self.r.random() < 0.2:
            lines.insert(self.r.randrange(len(lines) + 1), "# comment")
        return "\n".join(lines) + "\n"


def gen_valid(gen, tries=50):
    """A generated program that parses (the grammar is mostly valid; the rest is discarded)."""
    rejected = 0
    for _ in range(tries):
        src = gen.program()
        try:
            tree = ast.parse(src)
        except (SyntaxError, ValueError, RecursionError):
            rejected += 1
            continue
        if tree.body:
            return src, tree, rejected
    return "pass\n", ast.parse("pass\n"), rejected


# ------------------------------------------------------------------------------------------- shrinker

class _Replace(ast.NodeTransformer):
    def __init__(self, target_index, action):
        self.k = -1
        self.target = target_index
        self.action = action
        self.done = False

    def generic_visit(self, node):
        self.k += 1
        if self.k == self.target and not self.done:
            new = self.action(node)
            if new is not None:
                self.done = True
                return new
        return super().generic_visit(node)

    def visit(self, node):
        return self.generic_visit(node)


def _actions():
    def drop_stmt(n):
        return ast.Pass() if isinstance(n, ast.stmt) and not isinstance(n, ast.Pass) else None

    def const_zero(n):
        if isinstance(n, ast.Constant) and n.value != 0:
            return ast.Constant(value=0)
        return None

    def expr_to_name(n):
        if isinstance(n, ast.expr) and not isinstance(n, (ast.Name, ast.Constant)) and not isinstance(getattr(n, "ctx", None), (ast.Store, ast.Del)):
            return ast.Name(id="x", ctx=ast.Load())
        return None

    def unasync(n):
        if isinstance(n, ast.AsyncFunctionDef):
            return ast.FunctionDef(**{f: getattr(n, f) for f in n._fields})
        return None

    def hoist_body(n):
        # replace a compound statement by `if x: <body>` is not smaller; instead keep only the body's first statement
        if isinstance(n, ast.stmt) and getattr(n, "body", None) and isinstance(n.body, list) and len(n.body) > 1:
            new = type(n)(**{f: getattr(n, f) for f in n._fields})
            new.body = n.body[:1]
            return new
        return None

    def drop_decorators(n):
        if getattr(n, "decorator_list", None):
            new = type(n)(**{f: getattr(n, f) for f in n._fields})
            new.decorator_list = []
            return new
        return None

    return [drop_stmt, hoist_body, drop_decorators, unasync, expr_to_name, const_zero]


def _remove_stmt_candidates(tree):
    """Sources obtained by deleting one statement from a body list that has at least two."""
    out = []
    lists = []
    for n in ast.walk(tree):
        for f in ("body", "orelse", "finalbody", "handlers", "cases"):
            v = getattr(n, f, None)
            if isinstance(v, list) and len(v) > 1:
                lists.append(v)
    for v in lists:
        for i in range(len(v)):
            saved = v[i]
            del v[i]
            try:
                out.append(ast.unparse(tree))
            except Exception:
                pass
            v.insert(i, saved)
    return out


def shrink(src, fails, budget=400):
    """Greedy AST-level shrinking: `fails(src)` must stay true. Returns a (locally) minimal source.
    The source is re-generated by `ast.unparse`, so layout is normalised."""
    try:
        cur = ast.unparse(ast.parse(src)) + "\n"
    except Exception:
        return src
    if not fails(cur):
        return src
    steps = 0
    progress = True
    while progress and steps < budget:
        progress = False
        tree = ast.parse(cur)
        for cand in _remove_stmt_candidates(tree):
            steps += 1
            cand += "\n"
            if len(cand) < len(cur) and _parses(cand) and fails(cand):
                cur, progress = cand, True
                break
            if steps >= budget:
                break
        if progress:
            continue
        n_nodes = sum(1 for _ in ast.walk(ast.parse(cur)))
        for action in _actions():
            for k in range(n_nodes):
                steps += 1
                tr = _Replace(k, action)
                new = tr.visit(ast.parse(cur))
                if not tr.done:
                    continue
                try:
                    cand = ast.unparse(ast.fix_missing_locations(new)) + "\n"
                except Exception:
                    continue
                if cand != cur and len(cand) <= len(cur) and _parses(cand) and fails(cand):
                    cur, progress = cand, True
                    break
                if steps >= budget:
                    break
            if progress or steps >= budget:
                break
    return cur


def _parses(src):
    try:
        return bool(ast.parse(src).body)
    except Exception:
        return False
