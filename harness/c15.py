"""C15 — the flat AST is a faithful, deterministic encoding of the syntax tree.

Theorems: lean/Paroxy/Props/C15.lean (tree model). Tie: `flatten_ast(ast.parse(src))` is compared
line by line with
  * `c15.flatten` — the model of the code as written (dump + the six line-level passes), and
  * `c15.spec`    — the flat AST the property describes (pre-order dump of the tree-level tweak,
                    body last in *every* definition, hashes = first-occurrence rank of the
                    context-free expression),
on the exported tree. impl ≠ spec is a violation of the property (with a narrow signature when the
cause is a recorded finding); impl = spec but impl ≠ model is a broken correspondence.
"""
import ast
import itertools
import json
from pathlib import Path

from . import core
from . import flat_export as fe

SEEDS = [
    "x = -5\ny = - -5\nz = not -5\nw = -5.0 + -1j\nv = -True\nu = -'a'\n",
    "def f(a, /, b, *, c=1): pass\n",
    "g = lambda a, /, b=2, *c, d, **e: a\n",
    "import os as o, sys\nfrom a import b as c\nfrom . import d\n",
    "x = u'abc'\ny = b'ab'\nz = ...\nt = None\nf'{x!r:>{y}} a'\n",
    "match x:\n    case [1, *r] if r: pass\n    case {'a': 1, **k}: pass\n    case P(a=1) | None: pass\n    case -1 | 1+2j: pass\n",
    "async def f():\n    async for i in x: await y\n    async with a as b: pass\n",
    "class A[T]:\n    type X = int\n    def m[*Ts, **P](self): pass\n",
    "s = 'it''s'\nt = \"q'\"\n",
    "for i in a:\n    pass\nelse:\n    pass\nwhile b:\n    break\nelse:\n    pass\nx = y = 1\nx += 1\nx: int = 2\n",
    "try:\n    pass\nexcept* E as e:\n    pass\n",
    "@d\ndef f(): pass\n@d\nclass C: pass\n",
    "a[1:2, ::3]\na[-1]\nprint(*a, **b)\n",
    "x = [i for i in range(10) if i if not i]\ny = {k: v for k, v in z}\nw = (yield)\n",
    "if (n := 10) > 5: pass\n",
    "x = 1\ny = 1\nx = 1\na[i] = a[i] + 1\n(a[i], a[j]) = (a[j], a[i])\n",
    "x = '/body/1/value'\ny = 'a=b'\nz = \"='\"\n",
    "def f(a: int = 1, *args: str, b: int, **kw) -> None:\n    '''doc'''\n    global g\n    return\n",
    "x = 10**100\ny = 1e400\nz = 0.1 + 2j\n",
]

# lists with 10 children and more wherever a pass or a pattern keys on a child number (multi-digit path components)
# Constructs written on several lines whose parts are not listed in source order by the flat AST (the former finding
# F41: the default values of the plain parameters come after `*args` and the keyword-only parameters).
MULTILINE_SEEDS = [
    "def f(a=1,\n      *b,\n      c=2):\n    pass\n",
    "g = (lambda a=1,\n     *b,\n     c=2: a)\n",
    "async def f(a, b=(1,\n  2), /, c=3,\n  *, d,\n  e=4,\n  **k):\n    pass\n",
    "def f(a,\n      b=1,\n      *,\n      c):\n    return (lambda x=a,\n *y: x)\n",
    "f(k=1,\n  *a)\nf(*a,\n  k=1,\n  **m)\n",
    "d = {k: v\n     for k in x\n     if k\n     for v in y\n     if v}\ns = {k\n for k in x\n if k}\n",
    "with (open(a) as b,\n      c as d):\n    pass\n",
    "class C(A,\n        metaclass=M,\n        k=1):\n    pass\n",
    "match x:\n    case [a,\n          b] if (a\n    ):\n        pass\n",
    "x = (a\n     if b\n     else c)\n",
]

# Different expression nodes with one source-like text (seed C15-j): the `_hash` must tell them apart
HASH_TWIN_SEEDS = [
    's = {x}\nt = f"{x}"\n',
    's = {f(x)}\nt = f"{f(x)}"\n',
    'print({a + b}, f"{a + b}")\n',
    's = {(a, b)}\nt = f"{a, b}"\n',
    'd = {a: b}\nt = f"{a: b}"\n',
    "x = u'a'\ny = 'a'\nz = f'a'\nw = f'{x}' f\"{x!s}\"\n",
    "t = a[1, 2], (1, 2), a[1:2], a[(1, 2)]\n",
    # one expression as a target and as a value, with inner Store contexts that stay Store when the whole is loaded
    "scores[max(k for k in scores)] = scores[max(k for k in scores)] + 1\n",
    "a[[i for i in b][0]] += 1\nprint(a[[i for i in b][0]])\n",
    "a[(n := 1)] = a[(n := 1)]\n",
    "del d[{k: v for k, v in e}[0]]\nx = d[{k: v for k, v in e}[0]]\n",
    "for a[i] in a[i]:\n    pass\n",
    "with f() as x[[j for j in y][0]]:\n    z = x[[j for j in y][0]]\n",
    "x[lambda: [q for q in r]] = x[lambda: [q for q in r]]\n",
    "o(len({w for w in v})).attr = o(len({w for w in v})).attr\n",
]

WIDE_SEEDS = MULTILINE_SEEDS + HASH_TWIN_SEEDS + [
    "import " + ", ".join(f"m{j}" for j in range(12)) + "\n",
    "from pkg import (\n" + "".join(f"    n{j} as p{j},\n" for j in range(13)) + ")\n",
    "x = [" + ", ".join(str(j) for j in range(11)) + "]\ny = (" + ", ".join(f"-{j}" for j in range(1, 12)) + ")\n",
    "f(" + ", ".join(f"a{j}" for j in range(12)) + ", *r, " + ", ".join(f"k{j}={j}" for j in range(11)) + ")\n",
    "d = {" + ", ".join(f"'k{j}': -{j}" for j in range(10)) + "}\n",
    " = ".join(f"t{j}" for j in range(11)) + " = None\n",
    "".join(f"@d{j}\n" for j in range(10)) + "def f(" + ", ".join(f"p{j}" for j in range(11)) + ", /, " +
    ", ".join(f"q{j}=u'{j}'" for j in range(10)) + "):\n" + "".join(f"    s{j} = -1\n" for j in range(11)),
    "class C(" + ", ".join(f"B{j}" for j in range(10)) + "):\n    pass\n",
    "try:\n    pass\n" + "".join(f"except E{j}:\n    pass\n" for j in range(10)),
    "a < " + " < ".join(f"b{j}" for j in range(11)) + "\n",
    "g = lambda " + ", ".join(f"v{j}" for j in range(10)) + ", /: ...\n",
]

# deliberately adversarial (the first two exhibited the findings F09 / F11, now repaired; the others exhibit F15a-d)
ADVERSARIAL_SEEDS = [
    "@d\nasync def f():\n    pass\n",
    "x = b\"it's\"\ny = -b\"it's\"\n",
    "x = 'a/kind=b'\n",
    "x = [y, ', ctx=Load()']\nz = [y, '']\n",
    "f(', ctx=x', g())\nf('', g())\n",
    "x = b\"='y\"\n",
]

PASSES = ["suppress_kinds", "suppress_alias_pos", "suppress_posonlyargs", "backport_all_constants",
          "simplify_negative_literals", "unquote"]

# (the former findings F09 `async def` body order, F11 b"it's" -> Num, F15a/d `/kind=` inside a value and F15c quotes
# inside a bytes repr are repaired in /repo: a reappearance is an unexplained violation)
SIG = {
    "str-contains-,ctx=": "C15:str-constant-containing-,ctx=",
}


ALL_FEATURES = {"async-def", "bytes-repr-double-quoted", "str-contains-/kind=", "str-contains-,ctx=",
                "bytes-contains-=quote", "bytes-contains-/kind=", "str-contains-_pos=", "str-contains-/_type="}


# ------------------------------------------------------------------------------------ neutralisation

class _Neutralise(ast.NodeTransformer):
    """Remove every quirk feature except those in `keep` (a set of feature names)."""

    def __init__(self, keep):
        # `async def` and double-quoted bytes reprs are no longer quirks (repaired in /repo): never neutralised
        self.keep = set(keep) | {"async-def", "bytes-repr-double-quoted", "str-contains-/kind=",
                                 "bytes-contains-=quote", "bytes-contains-/kind="}

    def visit_AsyncFunctionDef(self, n):
        self.generic_visit(n)
        if "async-def" in self.keep:
            return n
        return ast.FunctionDef(**{f: getattr(n, f) for f in n._fields})

    def visit_Constant(self, n):
        v = n.value
        if isinstance(v, bytes):
            r = repr(v)
            bad = set()
            if r.startswith('b"'):
                bad.add("bytes-repr-double-quoted")
            if "='" in r or '="' in r:
                bad.add("bytes-contains-=quote")
            if "/kind=" in r:
                bad.add("bytes-contains-/kind=")
            if bad - self.keep:
                # keep as much as possible of what must be kept
                if "bytes-repr-double-quoted" in self.keep and r.startswith('b"'):
                    return ast.Constant(value=b"it's")
                if "bytes-contains-=quote" in self.keep and ("='" in r or '="' in r):
                    return ast.Constant(value=b'="')  # repr b'="' : single-quoted, so only this feature remains
                if "bytes-contains-/kind=" in self.keep and "/kind=" in r:
                    return ast.Constant(value=b"/kind=")
                return ast.Constant(value=b"x")
        if isinstance(v, str):
            w = v
            if "str-contains-/kind=" not in self.keep:
                w = w.replace("/kind=", "/kinD=")
            if "str-contains-,ctx=" not in self.keep:
                w = w.replace(", ctx=", ", ctX=")
            if "str-contains-_pos=" not in self.keep:
                w = w.replace("_pos=", "_poS=")
            if "str-contains-/_type=" not in self.keep:
                w = w.replace("/_type=", "/_typE=")
            if w != v:
                return ast.Constant(value=w, kind=n.kind)
        return n


def neutralise(src, keep):
    tree = _Neutralise(set(keep)).visit(ast.parse(src))
    return ast.unparse(ast.fix_missing_locations(tree)) + "\n"


# ------------------------------------------------------------------------------------------ the check

import re

_HASH_LINE = re.compile(r"^([^=]*/_hash=)(.*)$")


def canon_hashes(lines):
    """The property fixes the *meaning* of `_hash` (same value iff same expression up to context), not its
    spelling: values are renamed by order of first occurrence before comparing with the specification."""
    seen = {}
    out = []
    for l in lines:
        m = _HASH_LINE.match(l)
        if m:
            out.append(m.group(1) + "#%d" % seen.setdefault(m.group(2), len(seen)))
        else:
            out.append(l)
    return out


def property_equal(impl, spec):
    return impl == spec or canon_hashes(impl) == canon_hashes(spec)


class Checker:
    def __init__(self, ctx, drv, fa):
        self.ctx = ctx
        self.drv = drv
        self.fa = fa
        self.classes = set()
        self.max_depth = 0
        self.fail_by_sig = {}
        self.novel = []
        self.model_mismatch = []
        self.attributed = {}

    def three(self, src):
        tree = ast.parse(src)
        try:
            impl = fe.flat_lines(self.fa.flatten_ast(tree))
        except Exception as exc:
            if isinstance(exc, RecursionError) and fe.tree_depth(tree) > 60:
                raise  # a genuinely deep tree: not a case
            # the implementation raised on a parsable program: a one-line pseudo-output, so that the case is compared (and
            # fails), attributed, minimised and replayed like any other difference
            impl = [f"<flatten_ast raised {type(exc).__name__}: {exc}>"]
        ex = fe.export(tree)
        model = self.drv.call("c15.flatten", tree=ex)["lines"]
        r = self.drv.call("c15.spec", tree=ex)
        spec = r["lines"]
        self.last_wf = (r["wf_unquote"], r["wf_kinds"], r["wf_posonly"], r["wf_alias"], r["wf_stages4"], r["wf_stages6"],
                        r["stage6_eq_tweak"], r["repr_is_dumpNoCtx"], r["wf_tweak"])
        # hypothesis of C15_dump_injective / C15_hash_iff on the real tree, and the pairwise agreement of "same hashed
        # text" / sameExpr / sameUpToCtx over its expression nodes
        self.last_wfd = self.drv.call("c15.wf_dump", tree=ex, cap=300)
        return tree, impl, model, spec

    def fails(self, src):
        try:
            _, impl, _, spec = self.three(src)
        except (SyntaxError, ValueError, RecursionError):
            return False
        return not property_equal(impl, spec)

    @staticmethod
    def first_diff(a, b):
        for i, (x, y) in enumerate(zip(a, b)):
            if x != y:
                return {"line": i, "impl": x, "other": y}
        return {"line": min(len(a), len(b)), "impl": a[len(b):len(b) + 1], "other": b[len(a):len(a) + 1],
                "lengths": [len(a), len(b)]}

    def case(self, stream, name, src):
        ctx = self.ctx
        try:
            tree, impl, model, spec = self.three(src)
        except (SyntaxError, ValueError):
            ctx.dist("unparsable")
            return
        self.classes |= fe.node_classes(tree)
        ctx.dist("lines", len(impl))
        nontrivial = len(impl) >= 10
        ctx.count(stream, hash("\n".join(impl)), nontrivial=nontrivial)
        ctx.dist(f"{stream}:programs")
        if any(l.startswith("/") and "/_hash=" in l for l in impl):
            ctx.dist("programs-with-expressions")
        ctx.dist("hypothesis wfUnquote " + ("holds" if self.last_wf[0] else "FAILS") + " on the real tree")
        ctx.dist("hypothesis wfKinds " + ("holds" if self.last_wf[1] else "FAILS") + " on the real tree")
        ctx.dist("hypothesis wfPosonly " + ("holds" if self.last_wf[2] else "FAILS") + " on the real tree")
        ctx.dist("hypothesis wfAlias " + ("holds" if self.last_wf[3] else "FAILS") + " on the real tree")
        ctx.dist("hypothesis wfStages4 (first four passes) " + ("holds" if self.last_wf[4] else "FAILS") + " on the real tree")
        ctx.dist("hypothesis wfStages6 (Tree.WF of C15_tweaks_full) " + ("holds" if self.last_wf[5] else "FAILS") + " on the real tree")
        ctx.dist("stage6 = tweak (staged tweaks vs one-shot specification) " + ("holds" if self.last_wf[6] else "FAILS") + " on the real tree")
        ctx.dist("hypothesis wfTweak (staged tweaks = one-shot specification) " + ("holds" if self.last_wf[8] else "FAILS") +
                 " on the real tree")
        if not self.last_wf[8] and not (fe.quirk_features(tree) - {"async-def", "bytes-repr-double-quoted"}):
            ctx.dist("LEAD: wfTweak fails on a non-adversarial tree")
            if len(ctx.notes) < 5:
                ctx.notes.append("lead: wfTweak fails on a non-adversarial tree: " + src[:300])
        ctx.dist("hypothesis reprsAreDumps (exported hash source = dumpNoCtx of the node) " +
                 ("holds" if self.last_wf[7] else "FAILS") + " on the real tree")
        wfd = self.last_wfd
        ctx.dist("hypothesis wfDump (of C15_dump_injective / C15_hash_iff) " + ("holds" if wfd["wf_dump"] else "FAILS") +
                 " on the real tree")
        tot = ctx.cov.setdefault("wf_dump", {"holds": 0, "total": 0, "expression_pairs": 0, "pairs_same_text": 0,
                                             "pairs_text_vs_sameExpr": 0, "pairs_sameExpr_vs_sameUpToCtx": 0})
        tot["total"] += 1
        tot["holds"] += 1 if wfd["wf_dump"] else 0
        tot["conforms_holds"] = tot.get("conforms_holds", 0) + (1 if wfd["conforms"] else 0)
        ctx.dist("hypothesis conforms (one list of field names per node type, of C15_hash_iff_sameUpToCtx) " +
                 ("holds" if wfd["conforms"] else "FAILS") + " on the real tree")
        if not wfd["conforms"]:
            ctx.broken.append("corr:conforms-on-real-tree")
            if len(ctx.notes) < 5:
                ctx.notes.append("two nodes of one type with different field names in a real tree: " + src[:300])
        tot["expression_pairs"] += wfd["exprs"] * (wfd["exprs"] - 1) // 2
        for k in ("pairs_same_text", "pairs_text_vs_sameExpr", "pairs_sameExpr_vs_sameUpToCtx"):
            tot[k] += wfd[k]
        if not wfd["wf_dump"]:
            # a real tree outside the hypothesis of the injectivity theorem: a break of the hypothesis
            ctx.broken.append("corr:wfDump-on-real-tree")
            if len(ctx.notes) < 5:
                ctx.notes.append(f"wfDump fails on a real tree, offending name / terminal repr {wfd['witness']!r}: " + src[:300])
        if wfd["pairs_text_vs_sameExpr"]:
            ctx.broken.append("corr:same-text-vs-sameExpr")
            if len(ctx.notes) < 5:
                ctx.notes.append("two expressions of a real tree: same hashed text but not sameExpr, or conversely: " + src[:300])
        if wfd["pairs_sameExpr_vs_sameUpToCtx"]:
            ctx.broken.append("corr:sameExpr-vs-sameUpToCtx")
            if len(ctx.notes) < 5:
                ctx.notes.append("two expressions of a real tree on which sameExpr and sameUpToCtx differ: " + src[:300])
        if not self.last_wf[7]:
            ctx.broken.append("corr:dumpNoCtx-vs-exported-repr")
            if len(ctx.notes) < 5:
                ctx.notes.append("the exported hash source of some expression is not dumpNoCtx of its node: " + src[:300])
        if not self.last_wf[5] and not (fe.quirk_features(tree) - {"async-def", "bytes-repr-double-quoted"}):
            # Tree.WF fails although the program has none of the adversarial literals: a lead worth looking at
            ctx.dist("LEAD: wfStages6 fails on a non-adversarial tree")
            if len(ctx.notes) < 5:
                ctx.notes.append("lead: wfStages6 fails on a non-adversarial tree: " + src[:300])
        if self.last_wf[5] and not self.last_wf[6] and len(ctx.notes) < 5:
            ctx.notes.append("stage6 differs from tweak on a well-formed tree: " + src[:200])
            ctx.broken.append("corr:stage6-vs-tweak")
        if impl == spec and not all(self.last_wf):
            ctx.dist("hypothesis fails but implementation = specification")
        if impl == spec and impl == model:
            if len(ctx.cov["samples"]) < 3 and 8 <= len(impl) <= 40:
                ctx.sample({"stream": stream, "source": src, "impl_lines": len(impl), "impl==model==spec": True,
                            "first_lines": impl[:6]})
            return
        ctx.cov["disagreements_checked"] += 1
        ok = property_equal(impl, spec)
        if impl != model:
            self.model_mismatch.append((stream, name, src, self.first_diff(impl, model), ok))
        elif ok and impl != spec:
            self.model_mismatch.append((stream, name, src, self.first_diff(impl, spec), ok))
        if not ok:
            self.attribute(stream, name, src, tree, impl, model, spec)

    def attribute(self, stream, name, src, tree, impl, model, spec):
        """impl ≠ spec: find which recorded quirk (if any) explains the difference, causally."""
        ctx = self.ctx
        feats = {f for f in fe.quirk_features(tree) if f in SIG}
        try:
            clean = neutralise(src, set())
            still = self.fails(clean)
        except Exception:  # unparse corner case: treat as unexplained
            still, clean = True, src
        if still or not feats or not property_equal(impl, model):
            # not explained by the recorded findings (or the model does not even reproduce it)
            if len(self.novel) < 5:
                self.novel.append((stream, name, clean if still else src, impl == model))
            ctx.dist("novel-failure")
            return
        key = tuple(sorted(feats))
        self.attributed[key] = self.attributed.get(key, 0) + 1
        if self.attributed[key] > 3 and all(f in self.fail_by_sig for f in feats):
            # same feature set already attributed three times, every feature of it already has a witness,
            # and the fully neutralised program passes: count it, do not re-derive the causes
            ctx.dist("finding:(feature set already attributed)")
            return
        causes = []
        for f in sorted(feats):
            try:
                only = neutralise(src, {f})
            except Exception:
                continue
            if self.fails(only):
                causes.append((f, only))
        if not causes:
            # no recorded feature suffices alone: look for the *necessary* ones (removing it alone repairs the case)
            for f in sorted(feats):
                try:
                    without = neutralise(src, ALL_FEATURES - {f})
                except Exception:
                    continue
                if not self.fails(without):
                    causes.append((f, src))
        if not causes:
            if len(self.novel) < 5:
                self.novel.append((stream, name, src, impl == model))
            ctx.dist("novel-failure")
            return
        for f, only in causes:
            ctx.dist(f"finding:{f}")
            self.fail_by_sig.setdefault(f, []).append((stream, name, only))

    def finish_violations(self):
        ctx = self.ctx
        for f, cases in sorted(self.fail_by_sig.items()):
            stream, name, src = min(cases, key=lambda c: len(c[2]))
            small = fe.shrink(src, self.fails, budget=300)
            _, impl, model, spec = self.three(small)
            ctx.violations.append({
                "what": f"flatten_ast differs from the documented flat AST ({f}); {len(cases)} case(s) in this run",
                "signature": SIG[f],
                "replay": {"kind": "flat-ast", "stream": stream, "name": name, "source": small,
                           "first_difference_impl_vs_spec": self.first_diff(impl, spec),
                           "impl_equals_model": impl == model, "impl": impl, "spec": spec},
            })
        for stream, name, src, modelled in self.novel:
            small = fe.shrink(src, self.fails, budget=300)
            _, impl, model, spec = self.three(small)
            ctx.violations.append({
                "what": "flatten_ast differs from the documented flat AST on an input not explained by a recorded finding",
                "signature": None,
                "replay": {"kind": "flat-ast", "stream": stream, "name": name, "source": small,
                           "first_difference_impl_vs_spec": self.first_diff(impl, spec),
                           "impl_equals_model": impl == model, "impl": impl, "model": model, "spec": spec},
            })
        for stream, name, src, diff, ok_spec in self.model_mismatch[:5]:
            if ok_spec:
                ctx.broken.append(f"corr:{stream}")
                ctx.notes.append(f"model differs from implementation although implementation = specification: {name}: {diff}")
                ctx.cov.setdefault("corr_replay", {"source": src, "first_difference_impl_vs_model": diff})


def pass_pools():
    """Token-level pools for the bounded-exhaustive validation of the line-level passes (R2)."""
    def cat(tokens, n):
        out = set()
        for k in range(n + 1):
            for t in itertools.product(tokens, repeat=k):
                out.add("".join(t))
        return sorted(out)

    pools = {
        "suppress_kinds": ("chars", cat(["/kind=", "a", "/", "kind", "=", "'x'"], 4), 1),
        "suppress_posonlyargs": ("chars", cat(["/args/posonlyargs/_length=", "a", "/args", "1", "23", "=", "x/", "9", "10", "100"], 4), 1),
        "unquote": ("chars", cat(["=", "'", '"', "a", "b'", "/s"], 5), 1),
        "suppress_alias_pos": ("lines", ["/a/_type=alias", "/_type=alias", "/a/_pos=1:", "_pos=1", "a_pos=", "a_pos=b",
                                         "/a/name=x", "/a/_type=aliasx", "", "/a/_type=alias/_pos=3",
                                         "/b/names/9/_type=alias", "/b/names/9/_pos=1:1-0-9-",
                                         "/b/names/10/_type=alias", "/b/names/10/_pos=1:1-0-10-",
                                         "/b/names/11/_type=alias", "/b/names/99/_type=alias", "/b/names/99/_pos=2:1-0-99-",
                                         "/b/names/100/_type=alias", "/b/names/100/_pos=3:1-0-100-"], 3),
        "backport_all_constants": ("lines", ["/a/_type=Constant", "/_type=Constant", "/a/_hash=0x1", "/a/value=1",
                                             "/a/value='s'", "/a/value=b'x'", "/a/value=Ellipsis", "/a/value=",
                                             "/value=None", "", "/a/b/_type=Constant", "/a/b/value=True",
                                             "/a/value=b\"q\"", "/a/valuex=2", "/a/value=\"d\"",
                                             "/b/1/_type=Constant", "/b/1/value=1", "/b/10/_type=Constant", "/b/10/_pos=1:1-10-",
                                             "/b/10/value=2", "/b/100/value=3", "/b/9/value=4", "/b/99/_type=Constant"], 3),
        "simplify_negative_literals": ("lines", ["/a/_type=UnaryOp", "/a/_hash=1", "/a/op/_type=USub", "/a/op/_type=Not",
                                                 "/a/operand/_type=Num", "/a/operand/n=5", "/a/operand/n=",
                                                 "/a/operand/operand/n=7", "", "/_type=UnaryOp", "/op/_type=USub",
                                                 "/operand/n=1", "/a/operand/_type=UnaryOp", "/a/operand/op/_type=USub",
                                                 "/b/1/_type=UnaryOp", "/b/10/_type=UnaryOp", "/b/10/op/_type=USub",
                                                 "/b/10/operand/n=9", "/b/1/operand/n=11", "/b/100/operand/n=99",
                                                 "/b/11/op/_type=USub"], 3),
    }
    return pools


def run_passes(ctx, drv, fa):
    """Each hand-transcribed pass against the real regular expression, bounded-exhaustively on
    token-level inputs (all single lines / all short line sequences), plus random longer ones."""
    rng = ctx.rng
    total_bad = 0
    for name, (kind, pool, n) in pass_pools().items():
        real = getattr(fa, name)
        cases = []
        if kind == "chars":
            cases = [[l] for l in pool]
            for _ in range(300 if ctx.tier == "quick" else 3000):
                cases.append([rng.choice(pool) for _ in range(rng.randint(2, 4))])
        else:
            for k in range(n + 1):
                cases += [list(t) for t in itertools.product(pool, repeat=k)]
            for _ in range(1500 if ctx.tier == "quick" else 30000):
                cases.append([rng.choice(pool) for _ in range(rng.randint(n + 1, n + 5))])
        reqs = [{"op": "c15.pass", "name": name, "lines": c} for c in cases]
        outs = fe.batch(drv, reqs)  # (core.Driver.batch writes a whole chunk before reading: pipe deadlock)
        bad = 0
        for c, o in zip(cases, outs):
            text = "".join(l + "\n" for l in c)
            try:
                impl = fe.flat_lines(real(text))
            except Exception as exc:  # compared (and different) like any other output: recorded with its input lines
                impl = [f"<{name} raised {type(exc).__name__}: {exc}>"]
            ctx.count(f"pass:{name}", tuple(c), nontrivial=impl != c)
            if impl != o["lines"]:
                bad += 1
                if bad == 1:
                    ctx.notes.append(f"pass {name}: lines {c!r}: real {impl!r} model {o['lines']!r}")
                    ctx.cov.setdefault("corr_replay", {"pass": name, "lines": c, "impl": impl, "model": o["lines"]})
        if bad:
            ctx.broken.append(f"corr:pass:{name}")
        total_bad += bad
        ctx.cov.setdefault("passes", {})[name] = {"cases": len(cases), "exhaustive_up_to": n, "disagreements": bad}
    return total_bad


PAIR_SOURCES = [
    "f(x)\nf(x, y)\nf(x)(y)\nf\n",  # shared prefixes
    "{e}\nf'{e}'\n{a: b}\nf'{a: b}'\n{(a, b)}\nf'{a, b}'\n",  # the twins of round 9 (one unparsed text)
    "\"Name(id='x')\"\nx\n\"Name(id='x', ctx=Load())\"\n'x'\n",  # a string that looks like a dump
    "'a, b'\n[a, b]\n['a', 'b']\n['a, b']\n[\"a', 'b\"]\n",  # separators inside literals
    "a[i] = a[i]\nx = x\n(a, b) = (a, b)\n[a, *b] = [a, *b]\na.b = a.b\n",  # load / store copies
    "'it\\'s\"'\n\"it's\"\n'it\"s'\nb'\\''\n'\\''\n'\\\\'\n'\\\\\\''\nb'\\\\'\n",  # quotes and backslashes
    "1\n1.0\n1j\n'1'\nb'1'\nTrue\n'True'\nNone\n'None'\n...\n'Ellipsis'\n1e22\n1e999\n1e999j\n-1\n",
    "lambda x: x\nlambda x, y: x\nlambda x=None: x\nlambda *x: x\n",
    "x[1:2]\nx[1:2:None]\nx[:2]\nx[1:]\nx[::1]\nx[None:2]\n",  # absent optional fields vs explicit None constants
    "f(a=1)\nf(**a)\nf(*a)\nf(a)\n",
    "', ctx=Load()'\n''\n'x, ctx=Store()'\n'x'\n",
]


def flip_ctx(node):
    """A deep copy in which every Load context is a Store and conversely (not compilable; only dumped)."""
    import copy

    n = copy.deepcopy(node)
    for x in ast.walk(n):
        if isinstance(getattr(x, "ctx", None), ast.Load):
            x.ctx = ast.Store()
        elif isinstance(getattr(x, "ctx", None), (ast.Store, ast.Del)):
            x.ctx = ast.Load()
    return n


def run_pairs(ctx, drv, sources):
    """The converse of the hash property on real texts, across trees: for pairs of real expression nodes, the model's
    `sameExpr` / `sameUpToCtx` on the exported nodes against the equality of the strings the real code hashes
    (`remove_context("", ast.dump(node))`), and `dumpNoCtx` against that string."""
    rng = ctx.rng
    exprs = []
    for src in PAIR_SOURCES + sources[:40]:
        try:
            tree = ast.parse(src)
        except (SyntaxError, ValueError):
            continue
        exprs += [n for n in ast.walk(tree) if isinstance(n, ast.expr)][:80]
    texts = [fe.REMOVE_CONTEXT("", ast.dump(n)) for n in exprs]
    by_text = {}
    for i, t in enumerate(texts):
        by_text.setdefault(t, []).append(i)
    pairs = []
    for i, n in enumerate(exprs):  # each expression against its context-flipped copy
        pairs.append((n, flip_ctx(n), "flip"))
    same = [v for v in by_text.values() if len(v) > 1]
    for v in same[:200]:  # same hashed text, different nodes
        i, j = rng.sample(v, 2)
        pairs.append((exprs[i], exprs[j], "same-text"))
    for _ in range(800 if ctx.tier == "quick" else 12000):  # random pairs: mostly different expressions
        i, j = rng.randrange(len(exprs)), rng.randrange(len(exprs))
        pairs.append((exprs[i], exprs[j], "random"))
    n_pair = len([n for n in exprs[:60]])
    for i in range(n_pair):  # all pairs among the expressions of the hand-written sources
        for j in range(i + 1, n_pair):
            pairs.append((exprs[i], exprs[j], "all-pairs"))
    reqs = [{"op": "c15.same_expr", "a": fe.export(a), "b": fe.export(b)} for a, b, _ in pairs]
    outs = fe.batch(drv, reqs)
    bad = 0
    stats = ctx.cov.setdefault("expr_pairs", {"pairs": 0, "same": 0, "different": 0, "disagreements": 0, "not_wf": 0})
    for (a, b, kind), o in zip(pairs, outs):
        ta, tb = fe.REMOVE_CONTEXT("", ast.dump(a)), fe.REMOVE_CONTEXT("", ast.dump(b))
        real_same = ta == tb
        stats["pairs"] += 1
        stats["same" if real_same else "different"] += 1
        ctx.count("expr-pairs", (ta, tb), nontrivial=real_same != (a is b) or (not real_same and (ta.startswith(tb[:-1]) or tb.startswith(ta[:-1]))))
        ctx.dist(f"expr-pairs:{kind}:" + ("same hashed text" if real_same else "different hashed texts"))
        if not (o["wf_a"] and o["wf_b"]):
            stats["not_wf"] += 1
            ctx.broken.append("corr:wfDump-on-real-tree")
        ok = (o["dump_a"] == ta and o["dump_b"] == tb and o["same_expr"] == real_same and o["same_up_to_ctx"] == real_same)
        if not ok:
            bad += 1
            if bad == 1:
                ctx.notes.append(f"expr-pairs: real texts {ta!r} / {tb!r} (same: {real_same}); model {o!r}")
                ctx.cov.setdefault("corr_replay", {"pair": [ta, tb], "real_same": real_same, "model": o})
    stats["disagreements"] += bad
    if bad:
        ctx.broken.append("corr:expr-pairs")
    return bad


def run_sequences(ctx, drv, fa, sources):
    """Any sequence of flattenings in one process gives the same text per tree."""
    rng = ctx.rng
    n_seq = 6 if ctx.tier == "quick" else 60
    for s in range(n_seq):
        pick = [rng.choice(sources) for _ in range(rng.randint(3, 8))]
        trees = [ast.parse(x) for x in pick]
        try:
            singles = [fa.flatten_ast(t) for t in trees]
        except Exception as exc:  # every source here is also a case of the program streams, which report it
            ctx.dist(f"sequence: flatten_ast raised {type(exc).__name__} on a single tree")
            continue
        order = [rng.randrange(len(trees)) for _ in range(rng.randint(5, 20))]
        outs = []
        for i in order:
            if rng.random() < 0.3:
                fa.pseudo_hash("Name(id='" + rng.choice(fe.IDENTS) + "')")  # other users of the factory
            try:
                outs.append(fa.flatten_ast(trees[i]))
            except Exception as exc:
                ctx.violations.append({
                    "what": f"flatten_ast raised {type(exc).__name__}: {exc} on a tree it flattens when called first",
                    "signature": None,
                    "replay": {"kind": "sequence", "sources": pick, "order": order, "position": len(outs)},
                })
                return
        m = drv.call("c15.seq", trees=[fe.export(t) for t in trees], order=order)["out"]
        ctx.count("sequence", (s, tuple(order)), nontrivial=len(set(order)) > 1, n=len(order))
        for j, i in enumerate(order):
            if outs[j] != singles[i]:
                ctx.violations.append({
                    "what": "flattening the same tree twice in one process gave two different texts",
                    "signature": None,
                    "replay": {"kind": "sequence", "sources": pick, "order": order, "position": j,
                               "first_difference": Checker.first_diff(fe.flat_lines(outs[j]), fe.flat_lines(singles[i]))},
                })
                return
            if fe.flat_lines(outs[j]) != m[j] and fe.flat_lines(singles[i]) == m[j]:
                ctx.broken.append("corr:sequence")
                return


def corpus_sources(ctx):
    repo = core.REPO
    files = sorted((repo / "examples").glob("**/programs/**/*.py"))
    files += sorted((repo / "paroxython").glob("*.py"))
    if ctx.tier == "thorough":
        files += sorted((repo / "tests").glob("*.py")) + sorted((repo / "helpers").glob("*.py"))
    out = []
    for p in files:
        try:
            src = p.read_text(encoding="utf-8")
        except Exception:
            continue
        if len(src) > 60000:
            continue
        try:
            n_nodes = sum(1 for _ in ast.walk(ast.parse(src)))
        except (SyntaxError, ValueError):
            continue
        # the real post-processing is quadratic (greedy multi-line groups): keep the corpus affordable
        if n_nodes > (700 if ctx.tier == "quick" else 3000):
            ctx.dist("corpus:skipped-too-big")
            continue
        out.append((str(p.relative_to(repo)), src))
    return out


def run(ctx):
    core.prove(ctx)
    core.import_repo()
    import importlib

    fa = importlib.import_module("paroxython.flatten_ast")
    drv = core.Driver()
    try:
        ck = Checker(ctx, drv, fa)
        sources = []
        marks = ctx.cov.setdefault("stream_wall_s", {})
        t0 = ctx.elapsed()
        for name, src in corpus_sources(ctx):
            ck.case("corpus", name, src)
        marks["corpus"] = round(ctx.elapsed() - t0, 1)
        for i, src in enumerate(SEEDS):
            ck.case("seeds", f"seed{i}", src)
            sources.append(src)
        for i, src in enumerate(ADVERSARIAL_SEEDS):
            ck.case("adversarial-seeds", f"adv{i}", src)
        for i, src in enumerate(WIDE_SEEDS):
            ck.case("wide-seeds", f"wide{i}", src)
            sources.append(src)
        n_gen = 350 if ctx.tier == "quick" else 5500
        rejected = 0
        for depth, adv, share in ((3, 0.0, 0.35), (4, 0.15, 0.45), (6, 0.3, 0.2)):
            gen = fe.Gen(ctx.rng, max_depth=depth if ctx.tier == "quick" else depth + 1, adv=adv)
            for i in range(int(n_gen * share)):
                src, tree, rej = fe.gen_valid(gen)
                rejected += rej
                ck.max_depth = max(ck.max_depth, fe.tree_depth(tree))
                ck.case(f"generated(depth<={depth},adv={adv})", f"gen{i}", src)
                if len(sources) < 60:
                    sources.append(src)
        ctx.cov["generator_rejected"] = rejected
        marks["seeds+generated"] = round(ctx.elapsed() - t0 - marks["corpus"], 1)
        t1 = ctx.elapsed()
        run_sequences(ctx, drv, fa, sources)
        marks["sequences"] = round(ctx.elapsed() - t1, 1)
        t1 = ctx.elapsed()
        run_pairs(ctx, drv, sources)
        marks["expr-pairs"] = round(ctx.elapsed() - t1, 1)
        t1 = ctx.elapsed()
        run_passes(ctx, drv, fa)
        marks["passes"] = round(ctx.elapsed() - t1, 1)
        t1 = ctx.elapsed()
        ck.finish_violations()
        marks["shrinking"] = round(ctx.elapsed() - t1, 1)
        all_classes = {c.__name__ for c in vars(ast).values() if isinstance(c, type) and issubclass(c, ast.AST)}
        ctx.cov["ast_classes_seen"] = len(ck.classes)
        ctx.cov["ast_classes_never_seen"] = sorted(all_classes - ck.classes)
        ctx.cov["max_tree_depth_generated"] = ck.max_depth
    finally:
        drv.close()
    ctx.cov["rule"] = (
        "a case = one program (flat AST compared line by line between flatten_ast, the model and the specification) "
        "or one sequence of flattenings, or one token-level input of a line-level pass; distinct non-trivial = "
        "distinct flat AST texts of at least 10 lines / distinct orders with repetitions / inputs changed by the pass"
    )
    ctx.cov["proved"] = sorted(t.split(".")[-1] for t in ctx.cov.get("theorems", {}))
    ctx.cov["proved_summary"] = [
        "C15_preorder_once (dump = pre-order enumeration; every node, list, scalar exactly once under its address and names)",
        "C15_path_code / C15_path_nesting (the `_pos` path is a prefix-free code; prefix ⇔ nesting)",
        "C15_hash (same `_hash` ⇔ same context-free repr within one flattening), C15_hash_structural (same expression up "
        "to load/store context ⇒ same `_hash`, for hash sources that are the structural dump dumpNoCtx)",
        "C15_dump_injective / C15_dump_iff (on wfDump trees the context-free dump text is injective up to the fields it does "
        "not print: same text ⇔ sameExpr), C15_hash_iff (same `_hash` ⇔ same expression up to load/store context, both "
        "directions), C15_hash_iff_sameUpToCtx (the same iff with sameUpToCtx, the relation of C15_hash_structural, on trees "
        "with one list of field names per node type: conforms), C15_hash_converse, C15_sameExpr_of_sameUpToCtx, "
        "C15_sameUpToCtx_too_fine (without conforms an absent optional field and a None one print the same text)",
        "C15_stateless / C15_sequence / C15_reset_needed (the reset step makes the result independent of the factory state)",
        "C15_tweak_*_partial, C15_tweaks_full, C15_flatten_tweaked (the six passes are tree-level tweaks; composed; on flatten_ast)",
        "C15_escape_at_dump, C15_escapePos_no_pos, C15_escaped_value_not_poslike (escaped terminal values)",
    ]
    ctx.cov["exercised_only"] = [
        "that real trees satisfy the hypotheses of C15_hash_iff: wfDump (type / field names without delimiters, every "
        "terminal repr a Python string / bytes literal or a delimiter-free token — evaluated by c15.wf_dump on every exported "
        "tree, holds/total in cov.wf_dump; excluded by the predicate: complex with a real part, tuple / frozenset constants, "
        "which ast.parse never produces) and reprsAreDumps (the exported hash source is dumpNoCtx of the node)",
        "that real trees have one list of field names per node type (conforms, hypothesis of C15_hash_iff_sameUpToCtx: "
        "evaluated on every exported tree with the schema read off the tree; sameExpr and sameUpToCtx are also compared on "
        "every pair of the first 300 expressions of every exported tree and on the expr-pairs stream against the real "
        "hashed texts); the length-prefixed canonical-form oracle of c15.spec is kept",
        "ast.parse itself (tree and line numbers are inputs of the model)",
        "nothing about the tweaks themselves any more: C15_stage6_eq_tweak proves the staged tweaks equal the one-shot "
        "`tweak` under wfTweak (the driver still compares them on every tree, and reports wfTweak holds/total)",
    ]
    ctx.cov["trusted_base"] = core.BASE_TRUST + [
        "harness/flat_export.py: exporter of the real ast tree (types, fields in iter_fields order, lineno, repr of scalars, "
        "remove_context(ast.dump(node)) for expressions)",
        "the hand transcription of the six post-processing regular expressions (Model/FlatAst.lean), validated on every run "
        "against the real `regex` engine on token-level bounded-exhaustive inputs (stream pass:*)",
        "CPython's parser and line numbers; interpreter branch of post_process = Python >= 3.10",
    ]
    ctx.assumptions += [
        "lines of the flat AST contain no newline (repr() of every scalar is single-line)",
        "model alphabet for \\d and \\w: ASCII",
    ]
    if not fe.unexplained(ctx, core) and (not ctx.proofs_ok or ctx.broken):
        ctx.violations.append({
            "no_input": True,
            "what": "a proof or the correspondence no longer checks",
            "replay": {"kind": "no-failing-input-found", "no_longer_checks": sorted(set(ctx.broken)),
                       "build_errors": ctx.cov.get("build_errors"), "corr_replay": ctx.cov.get("corr_replay"),
                       "searched": "corpus + generated programs + sequences + token-level pass inputs: the implementation "
                                   "equals the specification on every input explored"},
        })
    ctx.broken = sorted(set(ctx.broken))
    return core.finish(ctx)


def replay(ctx, path):
    core.import_repo()
    import importlib

    fa = importlib.import_module("paroxython.flatten_ast")
    data = json.loads(Path(path).read_text(encoding="utf-8"))
    drv = core.Driver()
    try:
        if data.get("kind") == "flat-ast":
            ck = Checker(ctx, drv, fa)
            _, impl, model, spec = ck.three(data["source"])
            print("source:\n" + data["source"])
            print("impl == model:", impl == model, " impl == spec:", impl == spec)
            print("first difference impl vs spec:", Checker.first_diff(impl, spec))
            print("first difference impl vs model:", Checker.first_diff(impl, model))
            return 0 if impl == spec else 1
        print(json.dumps(data, indent=1)[:4000])
        return 0
    finally:
        drv.close()
