"""C02, clauses on the flat-AST tree model (C02_node_span, C02_whole_span, C02_meta_program_once).

Called from harness/c02.py's run(). Streams:
 * the hand matcher of `whole_span` (`c01.whole`) against the real `regex` engine with the pattern read from
   spec.md at run time and the real `get_bindings`, on flat ASTs of generated programs and bounded-exhaustively on
   token-level line pools;
 * on every real tree (never skipped): every `node:` span and the `whole_span` span computed by the real code must be
   valid line ranges (1 <= start <= end <= number of lines); separately reported: the hypotheses `treeOk2` and `lastDescMono` (line of a positioned node <= line of its last positioned
   strict descendant in dump order) (driver, on the tweaked tree); when they hold,
   every `node:` span and the `whole_span` span computed by the real code must satisfy start <= end, `whole_span`
   must yield exactly one occurrence spanning (first positioned line, last positioned line in dump order).
"""
import ast
import importlib
import itertools

from . import core
from . import flat_export as fe
from .c15 import MULTILINE_SEEDS

SIG_POSSTR = "C02:string literal containing `_pos=`: a feature regex captures a position inside the literal (span outside the listing)"

POOL = ["/_type=Module", "/body/_length=1", "/a/_pos=1:1-", "/a/_pos=2:", "a_pos=3:x", "_pos=4:1", "/a/_pos=5:1:2",
        "x_pos=:1", "", "/a/_pos=12:3-_pos=13:4-", "/a/_pos=x:1", "/a/s=b_pos=6:a", "/a_pos=7:b_pos=c:d", "ab"]

SEEDS = ["pass\n", "import os\n", "x = 1\n", "if x:\n    pass\n", "@d\nasync def f():\n    pass\n", "@d\ndef f():\n    pass\n",
         "x = [\n    1,\n    2,\n]\n", "def f(a,\n      b=2):\n    return (a +\n            b)\n",
         "print(\"_pos=7:1-\")\n", "x = 1\nprint(\"_pos=99:x\")\n", "class A:\n    @p\n    def m(self): pass\n"]


def stream(ctx, drv):
    core.import_repo()
    import regex

    pp = importlib.import_module("paroxython.parse_program")
    fa = importlib.import_module("paroxython.flatten_ast")
    feats = {n: (lang, spec) for (n, lang, spec) in pp.find_all_features(pp.DEFAULT_SPEC_PATH.read_text())}
    if "whole_span" not in feats or "node" not in feats:
        ctx.broken.append("spec.md: feature `whole_span` / `node` not found")
        return
    whole_pat = regex.compile(f"(?mx){feats['whole_span'][1]}")
    node_pat = regex.compile(f"(?mx){feats['node'][1]}")

    def real_whole(lines):
        text = "".join(l + "\n" for l in lines)
        ms = list(whole_pat.finditer(text, overlapped=True))
        m = None if not ms else {"pos": ms[0].capturesdict()["POS"], "suffix": ms[0].capturesdict()["SUFFIX"]}
        try:
            b = {"bindings": [[n, s.start, s.end, s.path] for mm in ms
                              for (n, s) in pp.get_bindings("whole_span", mm.capturesdict())]}
        except ValueError:
            b = {"exc": "ValueError"}
        return len(ms), m, b

    def compare(stream_name, lines, key):
        n, m, b = real_whole(lines)
        o = drv.call("c01.whole", lines=lines)
        ctx.count(stream_name, key, nontrivial=m is not None)
        if n > 1 or m != o["match"] or b != o["bindings"]:
            ctx.broken.append(f"corr:{stream_name}")
            ctx.notes.append(f"whole_span matcher: lines {lines[:8]!r}: real {m} {b} model {o}")
        return n, m, b

    # token-level bounded-exhaustive
    cases = [["/_type=Module"] + list(t) for k in range(4) for t in itertools.product(POOL, repeat=k)]
    cases += [list(t) for k in range(3) for t in itertools.product(POOL, repeat=k)]
    for _ in range(1500 if ctx.tier == "quick" else 30000):
        cases.append(["/_type=Module"] + [ctx.rng.choice(POOL) for _ in range(ctx.rng.randint(4, 8))])
    outs = fe.batch(drv, [{"op": "c01.whole", "lines": c} for c in cases])
    for c, o in zip(cases, outs):
        n, m, b = real_whole(c)
        ctx.count("tree:whole_span-matcher-line-pools", tuple(c), nontrivial=m is not None)
        if n > 1 or m != o["match"] or b != o["bindings"]:
            ctx.broken.append("corr:tree:whole_span-matcher-line-pools")
            ctx.notes.append(f"whole_span matcher: lines {c!r}: real {m} {b} model {o}")
            break

    # real trees
    gen = fe.Gen(ctx.rng, max_depth=3, adv=0.1)
    sources = list(SEEDS) + list(MULTILINE_SEEDS)
    for _ in range(150 if ctx.tier == "quick" else 3000):
        sources.append(fe.gen_valid(gen)[0])
    for p in sorted((core.REPO / "examples").glob("**/programs/**/*.py"))[: (40 if ctx.tier == "quick" else 300)]:
        try:
            sources.append(p.read_text(encoding="utf-8"))
        except Exception:
            pass
    for src in sources:
        try:
            tree = ast.parse(src)
        except (SyntaxError, ValueError):
            continue
        if not tree.body:
            continue
        try:
            lines = fe.flat_lines(fa.flatten_ast(tree))
        except RecursionError:
            continue
        except Exception as exc:
            ctx.dist(f"tree: flatten_ast raised {type(exc).__name__}")
            if not any(v.get("replay", {}).get("kind") == "tree-crash" for v in ctx.violations):
                ctx.violations.append({"what": f"flatten_ast raised {type(exc).__name__}: {exc} on a parsable program (no span at all)",
                                       "signature": None, "replay": {"kind": "tree-crash", "source": src}})
            continue
        n, m, b = compare("tree:whole_span-matcher-programs", lines, hash(src))
        info = drv.call("c01.tree_span", tree=fe.export(tree))
        ctx.dist("tree: treeOk2 " + ("holds" if info["wf2"] else "FAILS"))
        ctx.dist("tree: treeOk3 (hypothesis of C02_whole_span_exists / C02_meta_program_exactly_once) " + ("holds" if info["wf3"] else "FAILS"))
        ctx.dist("tree: lastDescMono (hypothesis of C02_node_span) " + ("holds" if info["monotone"] else "FAILS"))
        ctx.dist("tree: PreorderMonotone (former, stronger hypothesis) " + ("holds" if info["monotone_preorder"] else "FAILS"))
        if info["wf2"] and not info["wf3"] and not any(n.startswith("lead: treeOk3") for n in ctx.notes):
            ctx.notes.append("lead: treeOk3 fails although treeOk2 holds: " + src[:300])
        has_pos_string = any(isinstance(x, ast.Constant) and isinstance(x.value, (str, bytes)) and "_pos=" in repr(x.value)
                             for x in ast.walk(tree))
        sig = SIG_POSSTR if has_pos_string else None
        # C02_meta_program_once, on the implementation's own matches
        if info["count"] >= 1 and n != 1:
            ctx.violations.append({"what": "whole_span does not yield exactly one occurrence for a program with a positioned node",
                                   "signature": sig, "replay": {"kind": "tree-whole-span", "source": src, "occurrences": n}})
            continue
        # the span checks below are made on EVERY tree; the status of the hypotheses is only reported
        hyp = bool(info["wf2"] and info["monotone"])
        nlines = src.rstrip("\n").count("\n") + 1
        # C02_whole_span: (first positioned line, last positioned line in dump order), start <= end
        if "bindings" in b and b["bindings"]:
            _, s, e, _ = b["bindings"][0]
            exp_end = info["last"] if info["count"] >= 2 else info["first"]
            ctx.count("tree:whole-span-checked", None, n=1)
            if s > e or s < 1 or e > nlines:
                ctx.violations.append({"what": "the whole_span occurrence is not a valid line range of the program",
                                       "signature": sig,
                                       "replay": {"kind": "tree-whole-span", "source": src, "span": [s, e], "lines": nlines,
                                                  "hypotheses_hold": hyp}})
            elif (s, e) != tuple(sorted((info["first"], exp_end))) and hyp:
                ctx.violations.append({"what": "the whole_span occurrence is not (first positioned line, last positioned line), sorted",
                                       "signature": sig,
                                       "replay": {"kind": "tree-whole-span", "source": src, "span": [s, e],
                                                  "expected": sorted((info["first"], exp_end))}})
        elif "exc" in b:
            ctx.violations.append({"what": "get_bindings raises ValueError on the whole_span captures", "signature": sig,
                                   "replay": {"kind": "tree-whole-span", "source": src}})
        # C02_node_span: every node: span of the real code has start <= end
        text = "".join(l + "\n" for l in lines)
        try:
            for mm in node_pat.finditer(text, overlapped=True):
                for name, span in pp.get_bindings("node", mm.capturesdict()):
                    ctx.count("tree:node-spans", None, n=1)
                    if span.start > span.end or span.start < 1 or span.end > nlines:
                        ctx.dist("tree: invalid node span with hypotheses " + ("holding" if hyp else "failing"))
                        # put first: the replay file written by core.finish is the first concrete violation, and a whole
                        # program is the most readable replay of a span that is not a line range
                        first = bool(ctx.violations) and ctx.violations[0].get("replay", {}).get("kind") == "tree-node-span"
                        ctx.violations.insert(len(ctx.violations) if first else 0, {"what": f"{name} spans {span.start}-{span.end} of a {nlines}-line program",
                                               "signature": sig,
                                               "replay": {"kind": "tree-node-span", "source": src, "label": name,
                                                          "span": [span.start, span.end], "lines": nlines,
                                                          "hypotheses_hold": hyp}})
                        raise StopIteration
        except (ValueError, StopIteration):
            pass
