"""Regenerates MANIFEST.json from the table below (run by hand after claiming a property)."""
import json
from pathlib import Path

VERIF = Path(__file__).resolve().parent.parent
CLAIMED = {
    "C08": dict(
        text="Proof: the 162-entry relation table and the 19 alias bindings are translated from compare_spans.py into a deep-embedded Lean table on every run; theorems C08_keys/C08_meaning/C08_aliases/C08_alias_meaning/C08_mirror state the property for all pairs of integer spans and are proved by a reflection lemma (order-invariance: agreement on the 256 rank environments implies agreement on Int^4) plus a kernel-checked computation over the whole table (decide +kernel, no axioms beyond the three standard ones).",
        note="Trusted: Lean kernel; translator (validated each run against the real lambdas on all 256 rank environments); PyExpr.eval (Python chain semantics); transcription of the manual's name table. Spans are Python ints.",
        technique="Lean 4 proof by reflection over a translator-regenerated table (decide +kernel + order-invariance lemma); translator validated differentially",
        ref="DESIGN.md §5 C08"),
    "C16": dict(
        text="Proof: normalize_predicate is modelled step by step (lower, strip, the three negation branches, sub_is, the salvage pipeline) on code-point lists; theorems: every outcome is one of the 162 keys or ValueError (C16_total), canonical keys/names/abbreviations resolve to themselves (kernel-checked over the generated dictionary), and every formula spelling of every key with ARBITRARY junk strings, operand case/index and operator styles — also with a leading `!` — resolves to that key with the right negation flag (C16_formula, C16_formula_bang: structural proofs, unbounded in the junk). The model is tied to the Python by a differential run on all specification spellings (rendered by the Lean spec) and on random/mutated strings.",
        note="Trusted: Lean kernel; hand-written model validated by correspondence on the model alphabet (ASCII + ≤ …); the name dictionary comes from the translator (C08). `is`/`not ` decorations and case masks of names are exercised against the specification's renderings, not proved for all junk. Unicode outside the model alphabet is exercised implementation-only.",
        technique="Lean 4 structural proofs over a hand-written executable model + kernel-checked finite tables; differential correspondence with normalize_predicate.py",
        ref="DESIGN.md §5 C16"),
}
PENDING_REASON = "not claimed yet: model/theorems/correspondence for this property are still under construction (see DESIGN.md §5/§9)"


def main():
    props = [json.loads(l) for l in open(VERIF / "properties.jsonl", encoding="utf-8")]
    checks = []
    for pid, c in CLAIMED.items():
        checks.append({
            "property_id": pid,
            "quick_cmd": f"./check {pid} --tier quick",
            "thorough_cmd": f"./check {pid} --tier thorough",
            "evidence_file": f"evidence/{pid}.json",
            "replay_cmd_template": f"./check {pid} --replay {{path}}",
            "engine": "lean4-proof+correspondence",
            "level_claimed": {"category": "proof", "text": c["text"], "design_ref": c["ref"]},
            "level_note": c["note"],
            "technique": c["technique"],
        })
    m = {
        "version": 1,
        "setup_cmd": "./setup.sh",
        "hooks": {
            "guard": "PAROXYTHON_VERIF",
            "enable": "no hook is needed: every observation point is a public function or attribute; the harness sets PAROXYTHON_VERIF=1 for uniformity",
            "baseline_off_cmd": "cd /repo && /venv/bin/python -m pytest -ra -q -p no:cacheprovider --timeout=900 --continue-on-collection-errors",
            "source_commits": [],
            "add_only": True,
        },
        "engines": [{
            "name": "lean4-proof+correspondence",
            "path": "lean/ + translator/ + harness/",
            "serves_properties": list(CLAIMED),
            "kind_free_text": "Lean 4 models, specifications and theorems (lake project lean/), tied to /repo by a translator (translator/gen.py regenerates lean/Paroxy/Gen on every run) and by a differential correspondence harness (harness/, compiled driver lean/Driver)",
        }],
        "checks": checks,
        "notes": "See DESIGN.md. ./check <id> --tier quick|thorough; exit 2 = machinery error.",
        "not_applicable": [{"property_id": p["id"], "reason": PENDING_REASON} for p in props if p["id"] not in CLAIMED],
    }
    (VERIF / "MANIFEST.json").write_text(json.dumps(m, indent=1, ensure_ascii=False), encoding="utf-8")


if __name__ == "__main__":
    main()
