"""Regenerates MANIFEST.json from the table below (run by hand after claiming a property)."""
import json
from pathlib import Path

VERIF = Path(__file__).resolve().parent.parent
CLAIMED = {
    "C08": dict(
        text="Proof: the 162-entry relation table and the 19 alias bindings are translated from compare_spans.py into a deep-embedded Lean table on every run; theorems C08_keys/C08_meaning/C08_aliases/C08_alias_meaning/C08_mirror state the property for all pairs of integer spans and are proved by a reflection lemma (order-invariance: agreement on the 256 rank environments implies agreement on Int^4) plus a kernel-checked computation over the whole table (decide +kernel, no axioms beyond the three standard ones). C08_manual_table: the seven rows of the Allen table of docs/md/pipeline_documentation.md, re-read by the translator on every run, are the specification's table.",
        note="Trusted: Lean kernel; translator (validated each run against the real lambdas on all 256 rank environments); PyExpr.eval (Python chain semantics); the translator's reading of the manual's table (a regular expression over its Markdown rows); three of the six synonyms (`ended by`, `ends`, `in`) are named only in the source the manual links to. Spans are Python ints.",
        technique="Lean 4 proof by reflection over a translator-regenerated table (decide +kernel + order-invariance lemma); translator validated differentially",
        ref="DESIGN.md §5 C08"),
    "C16": dict(
        text="Proof: normalize_predicate is modelled step by step (lower, strip, the three negation branches, sub_is, the salvage pipeline) on code-point lists; theorems: every outcome is one of the 162 keys or ValueError (C16_total), canonical keys/names/abbreviations resolve to themselves (kernel-checked over the generated dictionary), and every formula spelling of every key with ARBITRARY junk strings, operand case/index and operator styles — also with a leading `!` — resolves to that key with the right negation flag (C16_formula, C16_formula_bang: structural proofs, unbounded in the junk); C16_abbrev_all: every single-letter abbreviation of every key (58 spellings) resolves to its key; names × 18 decorations × case masks (C16_name_spec_decorated). The model is tied to the Python by a differential run on all specification spellings (rendered by the Lean spec) and on random/mutated strings.",
        note="Trusted: Lean kernel; hand-written model validated by correspondence on the model alphabet (ASCII + ≤ …); the name dictionary comes from the translator (C08). `is`/`not ` decorations and case masks of names are exercised against the specification's renderings, not proved for all junk. Unicode outside the model alphabet is exercised implementation-only.",
        technique="Lean 4 structural proofs over a hand-written executable model + kernel-checked finite tables; differential correspondence with normalize_predicate.py",
        ref="DESIGN.md §5 C16"),
}
CLAIMED.update({
    "C04": dict(
        text="Proof: filter_programs.py and run_pipeline's command parsing are modelled in Lean (sets as lists modulo membership, Counter through its count semantics, regex answers as an oracle parameter); theorems C04_include/_include_all/_exclude/_exclude_all/_impart/_hide/_error/_parse state the documented set algebra for EVERY well-formed database, oracle, filter state and criteria list; C04_ancestors characterises 'with all their ancestors' without the code's split/join (t ∈ prefixes u ↔ t = u ∨ t/ is a string prefix of u). Model tied to the Python by a differential run on random well-formed databases and pipelines (final sets, state after each command, ranking), with shrinking.",
        note="Trusted: Lean kernel; hand model validated by correspondence; regex engine as oracle (computed with the real `regex`); database well-formedness Ctx.WF is a hypothesis (C11 establishes it); predicate strings via the C16 model and the generated C08 table. impart/hide criteria are strings. Outside the model (and the property text): an invalid regular expression raises regex.error in all four operations; a criterion that is neither a string nor a triple is skipped but counted by `all`.",
        technique="Lean 4 proofs (set-algebra characterisation of an executable model, all databases/pipelines) + differential correspondence with Recommendations.run_pipeline",
        ref="DESIGN.md §5 C04"),
    "C05": dict(
        text="Proof: programs_of_negated_triple (as repaired by fix 36d3c6b) is modelled; C05_negated/C05_include_negated prove that a negated triple is met exactly by the programs having a subject occurrence in relation with no OTHER object occurrence, for every well-formed database, oracle and relation; C05_no_object and C05_self_only are the two corner cases named by the property; C05_negation_spelling links any `!`-negated formula spelling (arbitrary junk) of any of the 162 keys to the chain the key spells (via C16 and C08); C05_named_relation does the same for the 19 names under the 18 decorations and any case.",
        note="Trusted: as C04. The original code violated this property (known_findings F01, fixed); reverting the fix is caught by the bounded-exhaustive mini stream.",
        technique="Lean 4 proof of model = specification for negated triples + bounded-exhaustive and random differential correspondence",
        ref="DESIGN.md §5 C05"),
    "C06": dict(
        text="Proof: every command acts through an effect that depends on the database and the command only (runCommand_effect); hence C06_monotone, C06_order_independent (any permutation: same success, same four sets), C06_include_all_split, C06_exclude_split, C06_hide_neutral, and the two meta/program equivalences under the hypotheses made precise in MetaHyp (non-vacuity: metaHyp_example; C06_not_contains ties `not contains` to the relation of MetaHyp) — all for every database, oracle and command list. C06_selection_order_independent / C06_costs_order_independent: the selection LIST, every taxon and program cost and the ranking are the same for every permutation of the commands. The implementation is additionally observed metamorphically (permutations, splits, hide insertions, equivalences) and compared with the model.",
        note="Trusted: as C04. MetaHyp is stronger than the property's wording (every program has exactly one meta/program occurrence): on a program without taxa the equivalence is false. Ignored / malformed command forms of run_pipeline are executed by the harness and reported as leads only (not a clause of C06).",
        technique="Lean 4 proofs by induction over command lists (effect/commutation argument) + metamorphic and differential runs of run_pipeline",
        ref="DESIGN.md §5 C06"),
    "C07": dict(
        text="Proof: assess_costs.py modelled with exact rationals; C07_taxon_zero / C07_taxon (cost = range cost from the longest imparted proper prefix, uniquely characterised) / C07_zeno_sum / C07_zeno_closed (2^-k - 2^-d) / C07_linear / C07_program / C07_ranking (sorted by (cost, path), permutation of the selection); C07_history: for EVERY sequence of set_imparted_knowledge / taxon_cost / assess operations on one memoised assessor, every output equals the pure function of the knowledge current at that step (invariant on the memo; model mirrors fix 0eef720); C07_recommender: from any memo left by earlier runs, the ranking a run_pipeline call stores is the pure assessment of the state it leaves; C07_program_taxa: the record holds the own taxa plus the non-meta taxa of the transitive imports.",
        note="Trusted: Lean kernel; hand model validated by correspondence (exact Fraction(float) = Rat inside the float envelope: depth <= 40, totals < 2^12); the assessor alphabet is {set_imparted_knowledge, taxon_cost, assess}: an in-place mutation of the knowledge set shared with the filter without set_imparted_knowledge (which only a direct update_filter + assess outside run_pipeline performs) is not a step of the model.",
        technique="Lean 4 proofs (loop characterisation, closed form over Rat, refinement of a memoised state machine to the pure function by invariant over operation sequences) + differential correspondence incl. call histories",
        ref="DESIGN.md §5 C07"),
    "C17": dict(
        text="Proof: get_markdown is modelled as a structured report (buckets in first-appearance order, stable-sorted sections, rows, summary log); theorems C17_membership (listed programs = selected non-hidden, each once), C17_bucket + C17_bucket_contains (heading = cost_bucket(cost) and its interval contains the cost), C17_order (sorted inside each heading), C17_rows (rows = non-hidden taxa of the record with their spans / _imported_ and the assessed taxon cost), C17_total (stated cost = sum over ALL taxa), C17_summary (after any number of run_pipeline calls every announced count is the size of the selection then; model mirrors fix 248e606), C17_stdout. C17_order_across / C17_order_across_assess prove non-decreasing cost across the whole listing (cost_bucket monotone, groups in strictly increasing bucket order), C17_headings_increasing the same across headings under BOTH sorting strategies. C17_end_to_end / C17_listed_once / C17_report_total: on the model function `recommend` (run_pipeline × n → assess → body) the listed programs are exactly the selected non-hidden ones of the state the concatenated commands compute, each once, with costs and rows under the final knowledge, and a report is always produced when the commands are accepted. The real Markdown is parsed back into that structure and compared.",
        note="Trusted: Lean kernel; hand model validated by correspondence; the harness's Markdown parser; math.log2 compared on a grid (float corner cases near 2^k, k >= 12, outside the envelope); rendering (slugs, gutter, wrapping) outside the model.",
        technique="Lean 4 proofs about a structured-report model (permutation/sortedness/invariant over the result log) + differential correspondence by parsing the real Markdown back",
        ref="DESIGN.md §5 C17"),
    "C09": dict(
        text="Proof: for every regex oracle, every taxonomy table and every call history, the model of Taxonomy.__init__ / is_literal / get_taxon_name_list (memo plus in-place aliasing of the literal lists) / to_taxa accumulation returns exactly `translate rows L` (C09_translation, C09_same_on_every_call, C09_exact: nothing else is ever in a translation), a literal row applies only to itself (C09_literal_only_itself) and the raw span bag is the multiset union (C09_bag). The oracle is filled by the harness with regex.fullmatch / Match.expand; the model mirrors fixes b6ea231/6ff4365.",
        note="The regex engine is an oracle parameter. Labels contain no newline. The default table's well-formedness (tableOk) is evaluated at run time by the driver on the translator-regenerated table, not kernel-checked (the kernel needs minutes). Rows matched by no generated label are counted in the evidence.",
        technique="Lean 4 refinement proof (state-machine invariant over call histories, all oracles) + oracle-based differential correspondence on the default and random custom taxonomies",
        ref="DESIGN.md §5 C09"),
    "C10": dict(
        text="Proof: deduplicated_taxa is modelled loop by loop (Counter `-`/subtract/`+= Counter()`, POSIX commonpath, the two nested loops as a zipper); C10_no_invention, C10_unshared_kept, C10_covered_lost are theorems for ALL strictly sorted lists of clean names (any number of roots, any characters incl. punctuation sorting before '/') with positive bags, by reduction to a per-span integer program over an abstract forest order; C10_exec_forms ties the Bool forms the driver evaluates on the implementation's output to the Prop clauses. Model mirrors fix 5ca5ec8.",
        note="Trusted: transcription of Counter and commonpath (validated differentially each run). Outside the hypotheses (unclean names, unsorted input, non-positive counts) behaviour is compared, not claimed.",
        technique="Lean 4 proof (per-span integer program, zipper invariants) + bounded-exhaustive and random differential correspondence, clauses evaluated on the implementation's output",
        ref="DESIGN.md §5 C10"),
    "C13": dict(
        text="Proof (partial): the text passes and the token loop of full_cleaning are modelled (token list as input, recorded from the real tokenizer); for all texts / all token lists: no blank line in the result, a COMMENT is emitted iff it is a hint (then normalised), hints are kept (first line included), exactly the docstring-like STRING statements become `pass`, the leading-comment pass removes only non-hint # lines, the blank-line and useless-pass passes are idempotent. C13_main_guard (only the guarded blocks go, the code after them survives; parser ranges as oracle), C13_rows_not_glued / C13_line_open (a continuation line at column 0 is not glued), C13_fstring_braces. exactly the docstring statements of the code-independent spec DocStmt (a STRING at a statement start whose next non-comment token is NEWLINE) become `pass` (C13_docstring_to_pass). Models mirror fixes e959b88 ff0b849 decc026 2488bc4 466f14f 9ee7189 55c4b14 4b0a4d7 643e8d6. Open finding F39 (a docstring that is not a lone string token — `\"a\" \"b\"`, `(\"d\")`, `\"d\"; x` — is kept: not invariant under docstring insertion).",
        note="Exercised only (depend on CPython's tokenizer/parser): valid Python, same AST modulo the four kinds of noise, noise invariance, whole-cleaning idempotence — checked on generated and corpus programs, a failure is a violation with the program as replay. Regex transcriptions validated bounded-exhaustively against the real engine.",
        technique="Lean 4 proofs over a token-list model + bounded-exhaustive regex validation + differential/metamorphic correspondence with Cleanup",
        ref="DESIGN.md §5 C13"),
    "C18": dict(
        text="Proof (partial): the option-record -> plan decisions of cli_collect / cli_recommend / cli_tag / list_programs are modelled as pure functions of the options and file-system facts; C18_taxonomy_precedence, C18_output_default_*, C18_format_by_extension, C18_db_lookup, C18_prefix, C18_stdout_mode, C18_tag, C18_listing hold for all option records and all file-system facts. Correspondence: the real entry points (paroxython.cli.main in-process and `python -m paroxython.cli`) over generated directories, databases and pipelines, compared with the library call the plan prescribes. Model mirrors fix 8fecc4f.",
        note="docopt, glob, file I/O and the library calls themselves are exercised only. Open finding F35 (`collect .`, `..`, `a/..` use the lexical parent: DIRECTORY/../taxonomy.tsv ignored, `_db.json` written inside DIRECTORY; C18_taxonomy_documented states the domain where the lexical parent is the documented one). Mirrored rather than flagged: the `-db.json` fallback is dead code (second candidate is `D_db.json-db.json`), `collect -o x.txt` writes nothing, `tag -f xyz` gives TSV.",
        technique="Lean 4 proofs of decision rules + differential correspondence through the real CLI entry points",
        ref="DESIGN.md §5 C18"),
    "C11": dict(
        text="Proof (partial): label_programs' relabelling of internal imports and make_db (direct importations, the iterative visited-set closure with a PROVED termination measure, exportations, inverted indexes, sorted spans, record assembly, SQLite rows) are modelled; theorems for every collection, taxonomy oracle and import graph: C11_importations (importations[p] = the unique strictly sorted list of {q | TransGen Imports p q}, cycles and self-imports included), C11_exportations (exact inverse), C11_indexes, C11_spans_sorted, C11_records, C11_sqlite_rows, C11_total (a database is always returned), makeDb_wf and makeDb_filter_wf (the database satisfies the well-formedness the filter theorems C04-C07 assume). Models mirror fixes ca3b9c8 1a46ae2 77a08ea 0c1b93c.",
        note="Exercised only: the json.dumps + compaction + json.loads round trip and the sqlite3 round trip (the harness compares json.loads(get_json()) and the rows read back with the model's value on generated directories); parser and taxonomy outputs are inputs (recorded from the real run).",
        technique="Lean 4 proofs (induction, well-founded recursion for the closure, TransGen characterisation) + differential correspondence on generated directories and helper functions",
        ref="DESIGN.md §5 C11"),
    "C14": dict(
        text="Proof (partial): the exception-flow skeleton of list_programs -> labelled_programs -> TagDatabase and of cli_tag.main is modelled with clean / parse / features as ADVERSARIAL parameters returning Except; C14_every_file_reported (whatever the cleaning raises, every file gets a record; an unparsable one the single label ast_construction:<Error>, an empty one EmptyProgramError), C14_clean_raise_fallback, C14_others_unaffected, C14_closure_terminates, C14_tag_reports, C14_collect_ok_iff. Model mirrors fixes c7d362e ca3b9c8 77a08ea 57ac228.",
        note="Which exception class CPython's tokenizer/parser raises on a given text, and the taxonomy mapping to meta/ast/<Error>, are exercised on a malformed-text stream (truncations, bracket/quote/indent mutations, control characters, NUL bytes, empty files) mixed with valid programs; FeaturesTotal (feature search does not raise) is a hypothesis (cf. design finding 17).",
        technique="Lean 4 proofs by case analysis over adversarial externals + differential correspondence on directories with malformed files",
        ref="DESIGN.md §5 C14"),
    "C03": dict(
        text="Proof (partial): the per-process shared state (pseudo-hash counter, DerivedLabelsDatabase tables incl. sub-tables and known set, Taxonomy memo with in-place aliasing) is modelled as a state machine with the engines as oracles; C03_invariant (no leftover table, preserved by every step incl. failing ones), C03_output / C03_independent / C03_history (the output of a program equals the pure specification from any reachable state, for all sequences with repeats), C03_leak_breaks, C03_collection (a record depends only on the program text and on which imported module names are collected).",
        note="SQLite answers, interpreter hash randomisation and the feature regexes are exercised only: sequences of programs through ONE parser/taxonomy compared with fresh instances and with the model's state observables; sub-collections; two collect runs in subprocesses with different PYTHONHASHSEED must be byte-identical.",
        technique="Lean 4 invariant + refinement proofs over operation sequences + state-observable correspondence",
        ref="DESIGN.md §5 C03"),
    "C12": dict(
        text="Proof: centrifugate_hints / collect_hints (HintBuffers, LIFO closing, deterministic ties) / remove_hints / get_program (marker normalisation line by line, blank ends trimmed) and the parser glue that applies scheduled additions and deletions are modelled on character lists (the fixed regexes hand-transcribed and validated token-level bounded-exhaustively). C12_roundtrip: for every hygienic, properly nested, tie-free decoration of any program — any tolerated marker spelling, blank lines anywhere — get_program returns the hint-free source and exactly the scheduled additions/deletions; C12_marker_tolerance; C12_malformed (unmatched or malformed marks give ValueError, unconditionally); C12_error_classes; C12_deletion_exact / C12_sql_stage_exact / C12_deletion_untouched (a deletion consumes exactly one occurrence with exactly that range; other labels untouched). Models mirror fixes 2658798 6e3c01a ed8d017 c3bf9c5 c744e6b 069b3bf 005102e.",
        note="Hypothesis noTie is genuinely needed (C12_roundtrip_needs_noTie). Labels derived by the SQL queries go through an oracle recorded from the real run (exercised end-to-end, not proved). A text made only of isolated hints raises IndexError (mirrored; judged outside the property).",
        technique="Lean 4 proofs over a character-level model (round trip by induction over decorated lines, LIFO nesting) + bounded-exhaustive regex/layout validation + end-to-end correspondence with recorded engine answers",
        ref="DESIGN.md §5 C12"),
    "C02": dict(
        text="Proof (partial): C02_hint_spans (for EVERY text, every span scheduled by a hint lies within 1..lineCount of the STORED source), C02_hint_spans_centrifugated, C02_error_span (the ast_construction error label spans 1..lineCount), C02_binding_span (a computed span is the pair of lines of the captured POS), C02_node_span / C02_node_span_pipeline (on what flatten_ast returns for a well-formed tree with pre-order-monotone lines, every `node` match spans start <= end), C02_whole_span, C02_meta_program_once (whole_span yields at most one occurrence, hence at most one meta/program), C02_validSpanB_iff. Everything else in the property — the other regex features, SQL-derived spans, CPython's line numbers — is MONITORED: tag and collect are run under both cleanup strategies on generated and corpus programs and 1 <= start <= end <= nlines is evaluated on every printed/stored span.",
        note="Open finding printed as KNOWN-FINDING: F31 (labels derived by SQL from hint-added labels carry the empty path, so start > end is possible); F32 was repaired by b1d74a8. PreorderMonotone is a hypothesis of C02_node_span stronger than needed (holds on about 3/4 of the real trees; the harness evaluates the span clause on every tree). Models mirror fixes 2658798 c744e6b 069b3bf 57ac228 d0d94f6 4327ef9 80f9da8 8ca25b9.",
        technique="Lean 4 proofs for hint, error and binding spans + property monitoring of every span through tag/collect",
        ref="DESIGN.md §5 C02"),
    "C15": dict(
        text="Proof on a generic-tree model of flatten_ast: the dump is the pre-order enumeration with every node, list length and scalar exactly once under its root-to-node path (C15_preorder_once, C15_flatten_eq); the `_pos` path is a prefix-free code and string prefix <=> nesting (C15_path_code, C15_path_nesting, C15_path_root); two expressions get the same `_hash` iff their hashed reprs are equal (C15_hash); the result is independent of the hash-factory state, for any sequence of flattenings (C15_stateless, C15_sequence); each of the six post-processing passes (suppress_kinds, suppress_alias_pos, suppress_posonlyargs, backport_all_constants, simplify_negative_literals, unquote) is proved equal to a tree-level tweak under local Bool clauses, and their composition in pipeline order is the dump of `stage6 t` (C15_tweaks_full, C15_flatten_tweaked on what flatten_ast returns); C15_async_body_last, C15_bytes_kind_agrees, C15_kind_in_value_kept, C15_unquote_anchored mirror fixes d0d94f6 c370a5d 83ae3f3 0ac09ad; the exporter mirrors fix a00cdad (remove_context skips quoted literals).",
        note="Partial: the equality of the staged form `stage6 t` with the one-shot specification `tweak [] t` is exercised on every real tree (driver op stage6_eq_tweak; a disagreement on a well-formed tree is a broken tie), as is 'same repr <=> same expression up to load/store context'. wfStages6 holds on about 97% of the real trees of a run (the rest carry adversarial literals). Trusted: the exporter of real ast trees; the hand transcription of the six regexes (validated token-level bounded-exhaustively against the real engine each run); CPython's parser.",
        technique="Lean 4 structural induction on nested trees, prefix-code lemmas, state-invariant refinement of the hash factory + differential correspondence on corpus, grammar-generated (all 107 ast classes of 3.12) and adversarial programs",
        ref="DESIGN.md §5 C15"),
    "C01": dict(
        text="Proof (partial): C01_node_labels — on the dump of any well-formed tree, the hand matcher of spec.md's overlapped `node` pattern yields exactly one (type, own line) per positioned node, in pre-order, and nothing else for positioned types; C01_node_labels_pipeline (the same on what flatten_ast returns, through C15_flatten_tweaked); C01_binding_own_line / C01_binding_start (get_bindings starts on the node's own line); C01_same_text (tagging depends on the program only through the stored source). The parser and cleaning are tied by end-to-end correspondence through ProgramParser, cli_tag and TagDatabase under both cleanup strategies against the multiset computed from ast.parse(stored_source).",
        note="Trusted: the hand matcher of the spec.md pattern (validated against the real regex engine each run; domain: at most one `/_type=` per line), CPython's parser, the C15 tie. The exporter mirrors fix b1d74a8 (the `=` of `_pos=` escaped in dumped values); no open finding.",
        technique="Lean 4 proofs over the tree model + string-occurrence lemmas for the regex transcription + matcher-vs-engine and end-to-end differential correspondence",
        ref="DESIGN.md §5 C01"),
})
PENDING_REASON = "not claimed yet: model/theorems/correspondence for this property are still under construction (see DESIGN.md §5/§9)"


def main():
    props = [json.loads(l) for l in open(VERIF / "properties.jsonl", encoding="utf-8")]
    checks = []
    for pid, c in CLAIMED.items():
        if pid.endswith("_PENDING"):
            continue
        checks.append({
            "property_id": pid,
            "quick_cmd": f"./check {pid} --tier quick",
            "thorough_cmd": f"./check {pid} --tier thorough",
            "evidence_file": f"evidence/{pid}.json",
            "replay_cmd_template": f"./check {pid} --replay {{path}}",
            "engine": "lean4-proof+correspondence",
            "level_claimed": {"category": "proof", "text": c["text"], "design_ref": c["ref"]},
            "level_note": c["note"],
            "technique": c["technique"],
        })
    m = {
        "version": 1,
        "setup_cmd": "./setup.sh",
        "hooks": {
            "guard": "PAROXYTHON_VERIF",
            "enable": "no hook is needed: every observation point is a public function or attribute; the harness sets PAROXYTHON_VERIF=1 for uniformity",
            "baseline_off_cmd": "cd /repo && /venv/bin/python -m pytest -ra -q -p no:cacheprovider --timeout=900 --continue-on-collection-errors",
            "source_commits": [],
            "add_only": True,
        },
        "engines": [{
            "name": "lean4-proof+correspondence",
            "path": "lean/ + translator/ + harness/",
            "serves_properties": [p for p in CLAIMED if not p.endswith("_PENDING")],
            "kind_free_text": "Lean 4 models, specifications and theorems (lake project lean/), tied to /repo by a translator (translator/gen.py regenerates lean/Paroxy/Gen on every run) and by a differential correspondence harness (harness/, compiled driver lean/Driver)",
        }],
        "checks": checks,
        "notes": "See DESIGN.md. ./check <id> --tier quick|thorough; exit 2 = machinery error.",
        "not_applicable": [{"property_id": p["id"], "reason": PENDING_REASON} for p in props if p["id"] not in CLAIMED],
    }
    (VERIF / "MANIFEST.json").write_text(json.dumps(m, indent=1, ensure_ascii=False), encoding="utf-8")


if __name__ == "__main__":
    main()
